#!/bin/sh
# usage: mkwt.sh <dir>   -- creates a scratch git worktree of /repo at <dir>, pre-built (make / make check work there)
set -e
d="$1"
git -C /repo worktree add --detach "$d" HEAD >/dev/null 2>&1
rsync -a --ignore-existing --exclude=.git --exclude='*.log' --exclude='*.trs' /repo/ "$d"/
cd "$d"
# make the copied build tree believe it is up to date, then rebuild what depends on absolute paths
sed -i "s#/repo#$d#g" Makefile config.status libtool 2>/dev/null || true
find . -name '*.o' -o -name '*.lo' -o -name '*.la' -o -name '*.a' | xargs touch
make -j8 >/dev/null 2>&1 || { echo "initial make failed"; exit 1; }
echo "worktree ready: $d  (build: make -j8 ; tests: make check -j8)"
