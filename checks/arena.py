"""C08 (saved rules behave identically once loaded), C17 (truncated / damaged files are rejected),
C19 (compiled rules do not depend on how storage grew): Arena.tla + conformance."""
import os, sys, json, struct, hashlib, time, subprocess
sys.path.insert(0, os.path.join(os.path.dirname(os.path.abspath(__file__)), "..", "gen"))
import yv, scangen as sg, condgen as cg
from checks import func, scan as scanmod, text, hexre, cond
from checks.hexre import judge_and_report

ERRCLASS = {0: "ok", 6: "invalid", 7: "corrupt", 8: "unsupported"}

CORPUS = [
    ("text", 'rule a { strings: $a = "MK1;" wide ascii $b = "abc" nocase fullword $c = "xy" xor(1-3) $d = "hello" base64 condition: any of them }'),
    ("hex_chain", 'rule a { strings: $a = { 41 42 [300-400] 43 44 } $b = { 41 ?? ( 42 | 43 44 ) [2-4] 45 } condition: $a or #b > 1 }'),
    ("regex", 'rule a { strings: $a = /ab+c[0-9]{2,3}/ $b = /x(yz|w)+?k/i wide condition: $a and $b }\nrule m { condition: ext_s matches /a.c/ }'),
    ("loops", 'rule a { strings: $a = "MK1;" $b = "MK2;" condition: for any i in (1..#a) : ( @a[i] < 100 ) and for all of ($a, $b) : ( # >= 0 ) and 1 of them }'),
    ("imports", 'import "pe"\nimport "tests"\nimport "hash"\nrule a { condition: tests.constants.one == 1 and pe.number_of_sections >= 0 or hash.md5(0, filesize) == "x" }'),
    ("meta_tags", 'global rule g : t1 t2 { meta: author = "me" n = 5 b = true condition: true }\nprivate rule p { condition: false }\nrule r : tag { meta: s = "str" strings: $a = "MK1;" condition: $a and g and not p }'),
    ("externals", 'rule e { condition: ext_i == 3 and ext_s contains "a" and ext_b and ext_f > 0.25 }'),
    # rule sets that leave sections of the image empty: no strings at all; a regexp that is only an operand of `matches`
    ("no_strings", 'rule n { meta: a = "b" condition: filesize >= 0 and ext_i == 3 }'),
    ("matches_only", 'rule m { condition: ext_s matches /a.c/ or ext_s matches /^ab$/i }'),
    ("bare", 'rule b { condition: true }'),
    # enough distinct atoms for the tables of the automaton to grow several times, children on the highest input bytes
    ("automaton", "\n".join('rule w%d { strings: $a = { %02X %02X %02X %02X } $b = { %02X %02X FF } condition: any of them }' % (i, 0x30 + i % 200, (i * 7) % 256, (i * 13) % 256, 0xFC + i % 4, i % 251, (i * 3) % 256)
                             for i in range(400))),
]
EXT = ["cdefine 0 i ext_i 3", "cdefine 0 s ext_s 6162", "cdefine 0 b ext_b 1", "cdefine 0 f ext_f 0.5"]


def parse_image(b):
    """projection of a saved file onto ArenaFile's abstract file"""
    if len(b) < 6 or b[:4] != b"YARA":
        raise yv.Broken("saved image has no YARA header")
    nb = b[5]
    sizes = []
    for i in range(nb):
        off, sz = struct.unpack_from("<QI", b, 6 + 12 * i)
        sizes.append(sz)
    rest = len(b) - 6 - 12 * nb - sum(sizes)
    if rest % 8 != 0:
        raise yv.Broken("relocation region is not a multiple of 8 bytes")
    return {"nb": nb, "sizes": sizes, "nrel": rest // 8 - 1, "version": b[4]}


def model_check(res, cfg_ok, nonvac):
    wd = yv.workdir(res.prop)
    m = yv.tlc("Arena", cfg_ok, wd, timeout=1200)
    if not m["violated"]:
        yv.require_tlc_ok(m, cfg_ok)
    res.add_tlc("arena", m)
    if m["violated"]:
        res.violation("TLC: %s in %s" % (m["violated"], cfg_ok), yv.save_replay(res.prop, "model_arena", {"tlc": m["out"][-4000:]}))
    for cfg, inv in nonvac:
        v = yv.tlc("Arena", cfg, wd, timeout=600, coverage=False)
        if not (v["violated"] and inv in v["violated"]):
            raise yv.Broken("non-vacuity run %s did not violate %s" % (cfg, inv))
        res.cov["parts"]["nonvacuity_" + cfg] = "violated as expected"


def save_corpus(wd, variant="asan", extra_opts=(), audits=None):
    """compile every corpus entry, save it; returns {name: bytes}; audits (a list) receives the relocation audit of every
    compiled and of every re-loaded arena"""
    exe = yv.driver(variant)
    lines = ["init"] + list(extra_opts)
    for name, src in CORPUS:
        lines += ["note " + name, "compiler 0"] + EXT + ["add 0 - " + yv.hx(src.encode()), "getrules 0 0", "cdestroy 0", "audit 0",
                                         "save 0 %s/%s.yarc" % (wd, name), "rdestroy 0", "load 0 %s/%s.yarc" % (wd, name), "audit 0", "rdestroy 0"]
    lines.append("finalize")
    run = yv.run_script(exe, lines, wd, name="save_corpus_" + variant)
    if not run.complete:
        raise yv.Broken("could not save the corpus: " + yv.crash_summary(run))
    if audits is not None:
        cur = None
        for e in run.events:
            if e["e"] == "Note": cur = e["text"]
            elif e["e"] == "RelocAudit" and "skipped" not in e: audits.append((cur, variant, e))
            elif e["e"] == "AcTables": audits.append((cur, variant, dict(e, actables=True)))
            elif e["e"] == "Load": audits.append((cur, variant, {"loadret": e.get("ret", -1)}))
    return {name: open("%s/%s.yarc" % (wd, name), "rb").read() for name, _ in CORPUS}


def failing_saves(res, tier, wd, images, r):
    """ArenaSave.tla on the implementation: the stream fails at its k-th write, for every k (sampled for long relocation lists);
    the call must report the failure and the ORIGINAL rules must be intact (relocation audit, same scan results)"""
    m = yv.tlc("ArenaSave", "MC_ArenaSave.cfg", wd, timeout=600)
    if not m["violated"]:
        yv.require_tlc_ok(m, "MC_ArenaSave.cfg")
    res.add_tlc("arenasave", m)
    if m["violated"]:
        res.violation("TLC: %s in MC_ArenaSave.cfg" % m["violated"], yv.save_replay("C08", "model_arenasave", {"tlc": m["out"][-3000:]}))
    v = yv.tlc("ArenaSave", "MC_ArenaSave_D43.cfg", wd, timeout=300, coverage=False)
    if not (v["violated"] and "OriginalIntact" in v["violated"]):
        raise yv.Broken("non-vacuity run MC_ArenaSave_D43.cfg did not violate OriginalIntact")
    res.cov["parts"]["nonvacuity_MC_ArenaSave_D43.cfg"] = "violated as expected"
    exe = yv.driver("asan")
    lines, plan = ["init"], []
    src_of = dict(CORPUS)
    probe = yv.hx(b"..MK1;..abbc12..xyzzwk a.c hello " * 3)
    for name, img in images.items():
        f = parse_image(img)
        L = len(img)
        # cumulative size after each write of yr_arena_save_stream: header, table, every non-empty buffer, every entry, terminator
        ends, pos = [], 0
        for step in [6, 12 * f["nb"]] + [z for z in f["sizes"] if z] + [8] * (f["nrel"] + 1):
            pos += step; ends.append(pos)
        assert pos == L, (pos, L)
        ks = list(range(len(ends)))
        if len(ks) > (40 if tier == "quick" else 400):
            ks = sorted(set(ks[:14] + ks[-6:] + r.sample(ks, 20 if tier == "quick" else 380)))
        lines += ["note " + name, "compiler 0"] + EXT + ["add 0 - " + yv.hx(src_of[name].encode()), "getrules 0 0", "cdestroy 0", "scanner 0 0", "data 1 " + probe,
                                                        "scan 0 1 mem - - -"]
        for k in ks:
            limit = ends[k] - 1                      # the write that would end at ends[k] does not fit
            lines += ["savestream 0 %s/fs.yarc %d" % (wd, limit), "audit 0", "scan 0 1 mem - - -"]
            plan.append((name, k, limit, L))
        lines += ["savestream 0 %s/fs.yarc %d" % (wd, L), "audit 0", "scan 0 1 mem - - -"]
        plan.append((name, len(ends), L, L))
        lines += ["sdestroy 0", "rdestroy 0"]
    lines.append("finalize")
    run = yv.run_script(exe, lines, wd, name="c08_failsave", timeout=1800)
    # group events: reference scan per corpus entry, then (Save, RelocAudit, scan) triples
    recs, owners = [], []
    ref, cur_scan, state, pi = None, None, None, 0
    save_ev = audit_ev = None
    for e in run.events:
        if e["e"] == "Note":
            ref = None
        elif e["e"] == "ScanCall":
            cur_scan = []
        elif e["e"] == "Cb" and cur_scan is not None and e["msg"] in ("match", "nomatch"):
            cur_scan.append((e["rule"], e["msg"], json.dumps(e.get("strings", []), sort_keys=True)))
        elif e["e"] == "Save":
            save_ev = e
        elif e["e"] == "RelocAudit":
            audit_ev = e
        elif e["e"] == "ScanRet":
            obs = (e["ret"], tuple(cur_scan or []))
            cur_scan = None
            if ref is None:
                ref = obs
            elif save_ev is not None and audit_ev is not None and pi < len(plan):
                name, k, limit, L = plan[pi]; pi += 1
                recs.append({"kind": "savefail", "ret": save_ev["ret"], "limit": limit, "full": L, "same": obs == ref,
                             "unregistered": audit_ev["unregistered"], "dangling": audit_ev["dangling"], "outside": audit_ev["outside"]})
                owners.append((name, k, limit, L, save_ev["ret"], audit_ev))
                res.count(1, ("failsave", name, k))
                save_ev = audit_ev = None
    if not run.complete:
        what = plan[pi] if pi < len(plan) else "?"
        res.violation("a failing save crashed the process or the next use of the rules (%s: write %s of the stream fails): %s" % (what[0] if what != "?" else "?", what[1] if what != "?" else "?", yv.crash_summary(run)),
                      yv.save_replay("C08", "failsave_crash", {"case": str(what), "crash": yv.crash_summary(run), "script": run.script_path}))
    judge_and_report(res, "C08", recs, owners, lambda o: {"corpus entry": o[0], "failing write": o[1], "stream limit": o[2], "image length": o[3], "save returned": o[4], "audit": o[5]}, wd, "c08_failsave")
    res.cov["parts"]["failing_saves"] = len(recs)


def c17(res, tier, seed):
    model_check(res, "MC_Arena.cfg", [("MC_Arena_D5.cfg", "TruncatedNeverLoads")])
    wd = yv.workdir("C17")
    r = yv.rng(seed, "c17")
    images = save_corpus(wd)
    exe = yv.driver("asan")
    records, owners = [], []
    lines = ["init"]
    plan = []
    for name, img in images.items():
        f = parse_image(img)
        L = len(img)
        path = "%s/%s.yarc" % (wd, name)
        # every prefix for small files; region boundaries +-2 and sampled interior points for large ones (exhaustive in thorough)
        bounds = [0, 6, 6 + 12 * f["nb"]]
        acc = 6 + 12 * f["nb"]
        for s in f["sizes"]:
            acc += s; bounds.append(acc)
        bounds += [L - 8, L]
        if L <= 8192 or tier != "quick":
            lines.append("prefixsweep %s 0 %d 0" % (path, L + 1)); plan.append((name, "sweep", 0, L + 1, f))
        else:
            pts = set()
            for b in bounds:
                pts.update(range(max(0, b - 2), min(L, b + 2) + 1))
            pts.update(r.randrange(L) for _ in range(1500))
            for n in sorted(pts):
                lines.append("prefixsweep %s %d %d 0" % (path, n, n + 1)); plan.append((name, "sweep", n, n + 1, f))
        # through a stream delivering items one by one: boundaries only
        for b in bounds:
            for n in range(max(0, b - 1), min(L, b + 1) + 1):
                lines.append("prefixsweep %s %d %d 1" % (path, n, n + 1)); plan.append((name, "sweep-stream", n, n + 1, f))
        # single-field corruptions of header and table
        corr = [(0, 1, img[0] ^ 0x20), (3, 1, 0x42), (4, 1, img[4] + 1), (4, 1, img[4] - 1), (4, 1, 0), (5, 1, 0), (5, 1, f["nb"] - 1), (5, 1, f["nb"] + 1),
                (5, 1, 17), (5, 1, 255), (5, 1, 2), (5, 1, 8)]
        for i in range(f["nb"]):
            base = 6 + 12 * i
            off, sz = struct.unpack_from("<QI", img, base)
            for v in (0, 1, sz + 1, sz - 1 if sz else 7, 0xFFFFFFFF, sz + 8):
                if v != sz: corr.append((base + 8, 4, v & 0xFFFFFFFF))
            for v in (0, 1, off + 1, off - 1, 0xFFFFFFFF):
                if v != off: corr.append((base, 8, v))
        if tier == "quick":
            corr = corr[:12] + r.sample(corr[12:], min(60, len(corr) - 12))
        # value sweeps of table fields: every 8-aligned displacement of a size / an offset that stays inside the file (a loader that
        # compares neighbouring entries pairwise instead of against the running sum accepts a few of them); all fields of every
        # image in the thorough tier, byte-exact for the smallest image; first two and last entries of the smallest image otherwise
        smallest = min(images, key=lambda k: len(images[k]))
        if tier != "quick" or name == smallest:
            ents = range(f["nb"]) if tier != "quick" else sorted({0, 1, f["nb"] - 1})
            for i in ents:
                base = 6 + 12 * i
                off, sz = struct.unpack_from("<QI", img, base)
                step = 1 if (tier != "quick" and name == smallest) else 8
                for v in range(sz % step, L + 16, step):
                    if v != sz: corr.append((base + 8, 4, v))
                for v in range(off % step, L + 16, step):
                    if v != off: corr.append((base, 8, v))
        for off, width, val in corr:
            lines.append("corrupt %s %d %d %d 0" % (path, off, width, val)); plan.append((name, "corrupt", off, (width, val), f))
    lines.append("finalize")
    run = yv.run_script(exe, lines, wd, name="c17", hang=120, timeout=3000)
    evs = [e for e in run.events if e["e"] in ("PrefixSweep", "Corrupt")]
    if not run.complete:
        k = len(evs)
        what = plan[k] if k < len(plan) else "?"
        res.violation("loading a damaged file crashed the process (%s): %s" % (str(what)[:200], yv.crash_summary(run)),
                      yv.save_replay("C17", "crash", {"op": str(what)[:300], "crash": yv.crash_summary(run), "script": run.script_path}))
    for (name, kind, a, b, f), e in zip(plan, evs):
        if kind.startswith("sweep"):
            for i, (ret, scanret) in enumerate(e["rets"]):
                n = a + i
                records.append({"kind": "load", "file": {"nb": f["nb"], "sizes": f["sizes"], "nrel": f["nrel"]}, "n": n, "ret": ERRCLASS.get(ret, "E%d" % ret)})
                owners.append((name, kind, n, ret, scanret))
                res.count(1, (name, kind, n))
        else:
            ret, scanret = e["rets"][0]
            records.append({"kind": "corrupt", "field": a, "ret": ERRCLASS.get(ret, "E%d" % ret)})
            owners.append((name, "corrupt off=%d width=%d val=%d" % (a, b[0], b[1]), a, ret, scanret))
            res.count(1, (name, kind, a, b))
    judge_and_report(res, "C17", records, owners, lambda o: {"file": o[0], "case": o[1], "prefix_or_offset": o[2], "load_ret": o[3], "scan_after_load": o[4]}, wd, "c17")
    # the command-line tools given a damaged compiled file (yara -C): a diagnostic and exit status 1, never a signal, never a scan
    import subprocess
    yara = os.path.join(yv.build("asan"), "yara")
    target = os.path.join(wd, "cli_target.bin"); open(target, "wb").write(b"some data to scan MK1;")
    ncli = 0
    for name, img in sorted(images.items())[: (2 if tier == "quick" else 7)]:
        L = len(img); f = parse_image(img)
        cuts = sorted({0, 1, 5, 6, 7, 6 + 12 * f["nb"], 6 + 12 * f["nb"] + 1, L // 2, L - 9, L - 8, L - 1} | ({r.randrange(L) for _ in range(6)} if tier == "quick" else set(range(0, L, max(1, L // 60)))))
        variants = [("prefix %d" % n, img[:n]) for n in cuts if 0 <= n < L]
        variants += [("magic", b"XARA" + img[4:]), ("version+1", img[:4] + bytes([img[4] + 1]) + img[5:]), ("source text", b"rule a { condition: true }\n"),
                     ("section 0 size +8", img[:14] + struct.pack("<I", struct.unpack_from("<I", img, 14)[0] + 8) + img[18:])]
        for what, data in variants:
            pth = os.path.join(wd, "cli_damaged.yarc"); open(pth, "wb").write(data)
            e = dict(os.environ); e.update(yv.SAN_ENV)
            try:
                pr = subprocess.run([yara, "-C", pth, target], capture_output=True, timeout=60, env=e)
                rc, err, outp = pr.returncode, pr.stderr.decode("latin-1"), pr.stdout.decode("latin-1")
            except subprocess.TimeoutExpired:
                rc, err, outp = -9, "timeout", ""
            ncli += 1
            res.count(1, ("cli", name, what))
            if rc != 1 or not err.strip() or "Sanitizer" in err or outp.strip():
                res.violation("yara -C on a damaged compiled file (%s, %s): exit status %s, stdout %r, stderr %s" % (name, what, rc, outp[:80], err[-200:].replace("\n", " | ")),
                              yv.save_replay("C17", "cli_%s_%s" % (name, what.replace(" ", "_")), {"file_hex": data[:4096].hex(), "exit": rc, "stderr": err[-3000:]}))
            else:
                res.cov["traces_validated_against_impl"] += 1
    res.cov["parts"]["cli_runs_on_damaged_files"] = ncli
    # what a save leaves behind when ONE of its writes fails (an interrupted write, space that is freed again): the call reports the
    # failure and the leftover is refused by the loader - it must not look like a complete file
    exe2 = yv.driver("asan")
    lines2 = ["init"]
    lplan = []
    for name, src in CORPUS[: (3 if tier == "quick" else 7)]:
        f = parse_image(images[name])
        nwrites = 2 + f["nb"] + f["nrel"] + 1
        ks = sorted(set(list(range(1, min(nwrites, 6))) + [nwrites - 2, nwrites - 1, nwrites] + [r.randint(1, nwrites) for _ in range(25 if tier == "quick" else 150)]))
        lines2 += ["note " + name, "compiler 0"] + EXT + ["add 0 - " + yv.hx(src.encode()), "getrules 0 0", "cdestroy 0"]
        for k in ks:
            if k < 1: continue
            lines2 += ["rmfile %s/left.yarc" % wd, "savestream 0 %s/left.yarc 0 %d" % (wd, k), "load 1 %s/left.yarc" % wd, "rdestroy 1"]
            lplan.append((name, k))
        lines2 += ["rdestroy 0"]
    lines2.append("finalize")
    run2 = yv.run_script(exe2, lines2, wd, name="c17_leftover", hang=120, timeout=1200)
    if not run2.complete:
        res.violation("leftovers of saves with one failed write: %s" % yv.crash_summary(run2), yv.save_replay("C17", "leftover_crash", {"crash": yv.crash_summary(run2), "script": run2.script_path}))
    saves = [e for e in run2.events if e["e"] == "Save"]; loads = [e for e in run2.events if e["e"] == "Load"]
    lrecs, lown = [], []
    for (name, k), sv, ld in zip(lplan, saves, loads):
        if sv["ret"] == 0: continue          # the ordinal lies beyond the writes of this save
        lrecs.append({"kind": "leftover", "save": sv["ret"], "load": ld["ret"]})
        lown.append((name, k, sv["ret"], ld["ret"])); res.count(1, ("leftover", name, k))
    bad2, known2, states2 = func.tlc_judge2(lrecs, wd, "c17_leftover")
    res.cov["states"] += states2; res.cov["transitions"] += states2
    res.cov["traces_validated_against_impl"] += len(lrecs) - len(bad2)
    res.cov["parts"]["leftovers_of_saves_with_one_failed_write"] = len(lrecs)
    for b_ in bad2[:10]:
        res.violation("corpus entry %s, write %d of the save fails once: save returned %s, loading the leftover returned %s" % lown[b_], yv.save_replay("C17", "leftover_%s_%d" % (lown[b_][0], lown[b_][1]), {"case": lown[b_]}))
    res.sample({"file": "text.yarc", "abstract": parse_image(images["text"]), "len": len(images["text"])})
    res.level = "fault_enumeration"
    res.cov["exhaustive"] = tier != "quick"
    res.cov["rule"] = ("for 7 saved rule files (text/hex chains/regex/loops/imports/meta+tags/externals): every prefix length (all for files <= 8 KiB, region boundaries "
                       "+-2 and 1500 sampled points otherwise; all in the thorough tier), via yr_rules_load and via a stream delivering single items, plus single-field "
                       "corruptions of magic, version, num_buffers and every table offset/size; each result class judged by ArenaFile!LoadBytes / CorruptOK in TLC; "
                       "distinct = (file, prefix length or corrupted field)")
    res.assumptions += ["a load that unexpectedly succeeds is followed by a scan under ASan to characterise the failure"]


def via_save_groups(groups, wd, stream):
    out = []
    for i, g in enumerate(groups):
        g2 = dict(g)
        path = "%s/vs.yarc" % wd
        g2["post_rules"] = list(g.get("post_rules", ())) + ["audit 0", "rmfile %s" % path, "savestream 0 %s" % path if stream else "save 0 %s" % path, "rdestroy 0",
                                                              ("loadstream 0 %s" if stream else "load 0 %s") % path, "audit 0"]
        out.append(g2)
    return out


def c08(res, tier, seed):
    model_check(res, "MC_Arena.cfg", [("MC_Arena_unreg.cfg", "ImageIndependentOfEpochs")])
    wd = yv.workdir("C08")
    r = yv.rng(seed, "c08")
    # (1) the image depends only on the rules: compile + save in processes with different heap layouts / allocators
    imgs = []
    corpus_audits = []
    for variant, opts in (("plain", []), ("plain", ["data 3 %s" % ("41" * 5000), "data 4 %s" % ("42" * 70000)]), ("asan", [])):
        d = os.path.join(wd, "img%d" % len(imgs)); os.makedirs(d, exist_ok=True)
        imgs.append(save_corpus(d, variant, opts, audits=corpus_audits))
    for name, _ in CORPUS:
        hs = [hashlib.sha256(i[name]).hexdigest() for i in imgs]
        res.count(1, ("image", name))
        if len(set(hs)) != 1:
            diffs = [k for k in range(min(len(imgs[0][name]), len(imgs[1][name]))) if imgs[0][name][k] != imgs[1][name][k]][:8]
            res.violation("the saved image of corpus entry %s differs between processes (first differing offsets %s)" % (name, diffs),
                          yv.save_replay("C08", "image_" + name, {"sha256": hs, "offsets": diffs}))
    res.cov["parts"]["images_compared"] = len(CORPUS) * 3
    # (2) behaviour after save -> destroy original -> load (file and stream): the cases of C01-C04/C11 judged by the same specs
    n = 60 if tier == "quick" else 800
    groups, metas = [], []
    for i in range(n):
        bufs = [cond.cond_buffer(r) for _ in range(3)] + [b""]
        g = cg.Gen(r, len(bufs[0]))
        ast = g.bool_expr(r.choice([1, 2, 2, 3]))
        txt = cg.show(ast)[0]
        groups.append({"src": cond.rule_text(txt), "bufs": bufs, "pre": cond.EXT_DEFS})
        metas.append((txt, ast))
    for stream in (False, True):
        recs, owners = cond.make_records(res, "C08", via_save_groups(groups, wd, stream), metas, wd, "c08_cond_%d" % stream)
        judge_and_report(res, "C08", recs, owners, lambda o: {"condition (after save/load)": o[0], "buf": o[1], "verdict": o[2], "matches": o[3]}, wd, "c08_cond_%d" % stream)
    # strings of every kind after load
    sgroups, smetas = [], []
    for pi in range(80 if tier == "quick" else 1000):
        k = pi % 3
        if k == 0:
            L = r.randint(2, 8); pat = [r.choice(text.SMALL_ALPHABET + [0x41, 0x61, 0x62]) for _ in range(L)]
            m = text.random_mods(r)
            src = 'rule t { strings: $s = "%s" %s condition: #s >= 0 }' % (text.esc(pat, r), text.mods_text(m))
            bufs = [text.random_buffer(r, pat, m, 96) for _ in range(5)]
            smetas.append(("text", pat, m, src))
        elif k == 1:
            vals = [0x41, 0x42, 0x0a]
            txt, ast = hexre.hex_seq(r, vals, r.randint(2, 6), 200, 2, False, 0.5)
            src = "rule t { strings: $s = { %s } condition: #s >= 0 }" % txt
            bufs = [hexre.plant_buffer(r, ast, vals + [0x7a], 700) for _ in range(5)]
            smetas.append(("hex", ast, None, src))
        else:
            txt, ast = hexre.re_top(r, 2, anchors=False)
            src = "rule t { strings: $s = /%s/ condition: #s >= 0 }" % txt
            bufs = [hexre.plant_buffer(r, ast, hexre.SAFE, 60) for _ in range(5)]
            smetas.append(("re", ast, None, src))
        sgroups.append({"src": src, "bufs": bufs})
    failing_saves(res, tier, wd, imgs[2], r)
    audit_recs, audit_owners = [], []
    # (1b) section sizes around 64 KiB (metadata entries are 32 bytes: 2048 of them fill 65536 bytes exactly) and two images in one stream
    exe_a = yv.driver("asan")
    lines = ["init"]
    ks = [2047, 2048, 2049, 4096] if tier == "quick" else [1, 1023, 1024, 2047, 2048, 2049, 4095, 4096, 4097, 6144, 8192]
    for k in ks:
        src = "rule big { meta: %s condition: true }" % " ".join("m%d = %d" % (i, i) for i in range(k))
        lines += ["note k%d" % k, "compiler 0", "add 0 - " + yv.hx(src.encode()), "getrules 0 0", "cdestroy 0", "save 0 %s/sz.yarc" % wd, "savestream 0 %s/sz2.yarc" % wd, "rdestroy 0",
                  "load 0 %s/sz.yarc" % wd, "rdestroy 0"]
    names = [n for n, _ in CORPUS][:6]
    for i, (a_, b_) in enumerate(zip(names, names[1:] + names[:1])):
        open("%s/two_%d.yarc" % (wd, i), "wb").write(imgs[0][a_] + imgs[0][b_])
        lines += ["note t%d" % i, "loadstream2 0 1 %s/two_%d.yarc" % (wd, i), "rdestroy 0", "rdestroy 1"]
    lines.append("finalize")
    run = yv.run_script(exe_a, lines, wd, name="c08_sizes")
    if not run.complete:
        res.violation("section sizes / two images in one stream: %s" % yv.crash_summary(run), yv.save_replay("C08", "sizes_crash", {"crash": yv.crash_summary(run), "script": run.script_path}))
    cur, acc = None, {}
    for e in run.events:
        if e["e"] == "Note": cur = e["text"]; acc[cur] = {}
        elif cur and e["e"] == "Save": acc[cur]["savestream" if e.get("via") == "savestream" else "save"] = e["ret"]
        elif cur and e["e"] == "Load": acc[cur]["load"] = e["ret"]
        elif cur and e["e"] == "Load2": acc[cur].update(e)
    audit_recs2, audit_owners2 = [], []
    for key, v in acc.items():
        if key.startswith("k") and {"save", "savestream", "load"} <= set(v):
            audit_recs2.append({"kind": "savesize", "n": int(key[1:]), "save": v["save"], "savestream": v["savestream"], "load": v["load"]})
            audit_owners2.append(("a rule with %s metadata entries" % key[1:], "asan", v)); res.count(1, ("savesize", key))
        elif key.startswith("t") and "ret1" in v:
            i = int(key[1:])
            audit_recs2.append({"kind": "load2", "ret1": v["ret1"], "pos1": v["pos1"], "len1": len(imgs[0][names[i]]), "ret2": v["ret2"]})
            audit_owners2.append(("images of %s and %s back to back in one stream" % (names[i], (names[1:] + names[:1])[i]), "asan", v)); res.count(1, ("load2", key))
    audit_recs += audit_recs2; audit_owners += audit_owners2
    for (cname, variant, au) in corpus_audits:
        if "loadret" in au:
            # a complete image written by the library loads (ArenaFile!LoadBytes at the full length)
            f = parse_image(imgs[0][cname])
            audit_recs.append({"kind": "load", "file": {"nb": f["nb"], "sizes": f["sizes"], "nrel": f["nrel"]}, "n": len(imgs[0][cname]), "ret": ERRCLASS.get(au["loadret"], "E%d" % au["loadret"])})
            audit_owners.append(("corpus entry " + cname + ": load of the complete saved file", variant, au))
            continue
        if au.get("actables"):
            audit_recs.append({"kind": "actables", "size": au["size"], "t": au["t"], "m": au["m"]})
            audit_owners.append(("corpus entry " + cname, variant, au))
            continue
        audit_recs.append({"kind": "audit", "unregistered": au["unregistered"], "dangling": au["dangling"], "outside": au["outside"], "relocs": au["relocs"], "pointers": au["pointers"],
                           "ac_t": au.get("ac_t", 0), "ac_m": au.get("ac_m", 0), "ac_bad": au.get("ac_bad", 0)})
        audit_owners.append(("corpus entry " + cname, variant, au))
    for stream in (False, True):
        recs, owners = [], []
        vg = via_save_groups(sgroups, wd, stream)
        for ci in range(0, len(vg), 300):
            run, per = func.run_rule_cases("asan", vg[ci:ci + 300], wd, "c08_str_%d_%d" % (stream, ci))
            if not run.complete:
                res.violation("driver did not complete (save/load path): " + yv.crash_summary(run),
                              yv.save_replay("C08", "crash_str_%d_%d" % (stream, ci), {"crash": yv.crash_summary(run), "script": run.script_path}))
                continue
            for gi in range(len(vg[ci:ci + 300])):
                g = per.get(gi)
                if g is None or not g["ok"]:
                    continue
                kind, a, m, src = smetas[ci + gi]
                for ai, au in enumerate(g.get("audits", [])):
                    if "skipped" in au: continue
                    audit_recs.append({"kind": "audit", "unregistered": au["unregistered"], "dangling": au["dangling"], "outside": au["outside"], "relocs": au["relocs"], "pointers": au["pointers"],
                           "ac_t": au.get("ac_t", 0), "ac_m": au.get("ac_m", 0), "ac_bad": au.get("ac_bad", 0)})
                    audit_owners.append((src, "compiled" if ai == 0 else "loaded", au))
                for bi, b in enumerate(sgroups[ci + gi]["bufs"]):
                    if g["rets"][bi] != 0 or "t" not in g["scans"][bi]:
                        continue
                    sc = g["scans"][bi]["t"]["strings"]["$s"]
                    if kind == "text":
                        recs.append({"kind": "text", "pat": a, "mods": text.tla_mods(m), "buf": list(b), "obs": [[o, l, k] for o, l, k, p in sc]})
                    else:
                        recs.append({"kind": "re", "ast": a, "buf": list(b), "obs": [[o, l] for o, l, k, p in sc], "ascii": True, "wide": False,
                                     "nocase": False, "dotall": kind == "hex", "fullword": False, "thresh": 200})
                    owners.append((src, b.hex(), sc))
                    res.count(1, (src, b, stream))
        judge_and_report(res, "C08", recs, owners, lambda o: {"rule (after save/load)": o[0], "buf": o[1][:300], "observed": o[2]}, wd, "c08_str_%d" % stream)
    judge_and_report(res, "C08", audit_recs, audit_owners, lambda o: {"rule": o[0], "arena": o[1], "relocation audit": o[2]}, wd, "c08_audit")
    res.cov["parts"]["relocation_audits"] = len(audit_recs)
    # scanner life cycle / callback protocol on loaded rules (global/private rules, namespaces, imports, tags survive)
    execs = []
    for si in range(10 if tier == "quick" else 120):
        rules = scanmod.random_ruleset(r, r.randint(2, 9), r.randint(1, 3), 2, scanmod.ALL_KINDS)
        f, data, sizes = scanmod.random_file(r, si + 1, 2, nblocks=1)
        execs.append({"rules": rules, "scans": [scanmod.scan(f, data, sizes), scanmod.scan(f, data, sizes, flags=("match",))], "kind": "c08-loaded",
                      "via_save": "%s/vs2.yarc" % wd})
    scanmod.run_chunks(res, "C08", execs, "asan", "c08_scan")
    # (3) the original stays usable after saving; rule-set level string define then save (D8)
    exe = yv.driver("asan")
    src = 'rule e { condition: ext_s == "ab" }'
    lines = ["init", "compiler 0"] + EXT + ["add 0 - " + yv.hx(src.encode()), "getrules 0 0", "cdestroy 0", "save 0 %s/o.yarc" % wd,
             "scanner 0 0", "data 1 78", "scan 0 1 mem - - -", "sdestroy 0", "note d8", "rdefine 0 s ext_s 6162", "save 0 %s/o2.yarc" % wd, "rdestroy 0", "finalize"]
    run = yv.run_script(exe, lines, wd, name="c08_orig")
    evs = run.events
    okscan = any(e["e"] == "Cb" and e["msg"] == "match" for e in evs)
    if not okscan:
        res.violation("the original rule set is not usable after saving", yv.save_replay("C08", "orig_after_save", {"events": evs[-8:]}))
    d8_reached = any(e["e"] == "Note" and e["text"] == "d8" for e in evs)
    if not run.complete:
        if d8_reached and "Assertion" in (run.stderr or "") and yv.known_findings("C08"):
            res.known_finding("D8", "saving a rule set after yr_rules_define_string_variable aborts on assert(found) in yr_arena_save_stream")
        else:
            res.violation("save / original-after-save scenario crashed: " + yv.crash_summary(run), yv.save_replay("C08", "orig_crash", {"crash": yv.crash_summary(run)}))
    res.sample({"corpus": [c[0] for c in CORPUS], "sha256": {k: hashlib.sha256(v).hexdigest()[:16] for k, v in imgs[0].items()}})
    res.cov["rule"] = ("(1) 7 corpus rule sets saved in 3 processes (glibc heap, perturbed glibc heap, ASan heap): byte-identical images; (2) random conditions, text/hex/regex "
                       "strings and scanner-protocol rule sets compiled, saved (file and stream), ORIGINAL AND COMPILER DESTROYED, loaded (file / item-wise stream), scanned: "
                       "observations judged by Cond/TextMatch/ReMatch/Scan specs in TLC; (3) original usable after save; distinct = distinct (rule, buffer, path)")
    res.assumptions += ["an address of the arena stored in a slot that is not 8-byte aligned data of a buffer is seen by the audit at every byte offset; addresses of other heap blocks are seen only in registered slots (dangling)"]


def c19(res, tier, seed):
    model_check(res, "MC_Arena.cfg", [("MC_Arena_norefetch.cfg", "NoStaleDeref")])
    wd = yv.workdir("C19")
    r = yv.rng(seed, "c19")
    caps = [1, 8, 64, 4096] if tier == "quick" else [1, 2, 8, 64, 512, 4096, 65536]
    # (1) identical bytes for every initial capacity
    base = save_corpus(os.path.join(wd, "cap_default"))
    for cap in caps:
        d = os.path.join(wd, "cap_%d" % cap); os.makedirs(d, exist_ok=True)
        try:
            imgs = save_corpus(d, "asan", ["opt arenasize %d" % cap])
        except yv.Broken as e:
            res.violation("compiling the corpus with initial arena capacity %d failed: %s" % (cap, str(e)[:300]), yv.save_replay("C19", "cap_%d" % cap, {"error": str(e)[:2000]}))
            continue
        for name in base:
            res.count(1, ("image", name, cap))
            if imgs[name] != base[name]:
                res.violation("corpus entry %s compiled with initial capacity %d serialises differently from the default capacity" % (name, cap),
                              yv.save_replay("C19", "image_%s_%d" % (name, cap), {"len": [len(imgs[name]), len(base[name])]}))
    # (2) identical behaviour: random conditions / strings under small capacities, judged by the specs
    n = 40 if tier == "quick" else 500
    groups, metas = [], []
    for i in range(n):
        bufs = [cond.cond_buffer(r) for _ in range(3)] + [b""]
        g = cg.Gen(r, len(bufs[0]))
        ast = g.bool_expr(r.choice([1, 2, 2, 3]))
        txt = cg.show(ast)[0]
        groups.append({"src": cond.rule_text(txt), "bufs": bufs, "pre": cond.EXT_DEFS})
        metas.append((txt, ast))
    for cap in caps[:3]:
        recs, owners = make_records_cap(res, groups, metas, wd, cap)
        judge_and_report(res, "C19", recs, owners, lambda o: {"condition": o[0], "buf": o[1], "verdict": o[2], "matches": o[3]}, wd, "c19_cond_%d" % cap)
    execs = []
    for si in range(8 if tier == "quick" else 100):
        rules = scanmod.random_ruleset(r, r.randint(5, 30), r.randint(1, 4), 2, scanmod.ALL_KINDS)
        f, data, sizes = scanmod.random_file(r, si + 1, 2, nblocks=1)
        execs.append({"rules": rules, "scans": [scanmod.scan(f, data, sizes)], "kind": "c19-cap", "pre_opts": ["opt arenasize %d" % r.choice(caps[:3])]})
    scanmod.run_chunks(res, "C19", execs, "asan", "c19_scan")
    # (3) a rule set large enough to grow the default 1 MiB buffers == the same rules compiled in groups
    # the compiler's own checks while its buffers move: tag lists with and without a repeated tag, string / meta / rule identifiers
    # repeated inside one rule set - rejected with the error on the line of the repetition at every capacity, accepted otherwise
    tcases = [("rule v : aa bb cc dd ee { condition: true }", []), ("rule d : aa bb aa { condition: true }", [1]), ("rule d2 : aa bb cc dd bb { condition: true }", [1]),
              ("rule a { condition: true }\nrule b : x y z { condition: a }\nrule a { condition: false }", [3]),
              ('rule s { strings: $a = "x" $b = "y" $a = "z" condition: any of them }', [1]),
              ("rule l : t1 t2 t3 t4 t5 t6 t7 t8 t9 t10 t11 t12 t13 t14 t15 t16 { condition: true }", []),
              ("rule l2 : t1 t2 t3 t4 t5 t6 t7 t8 t9 t10 t11 t12 t13 t14 t15 t1 { condition: true }", [1])]
    exe_c = yv.driver("asan")
    tl = ["init"]
    tplan = []
    for cap in caps:
        for src, exp in tcases:
            tl += ["opt arenasize %d" % cap, "compiler 0", "add 0 - " + yv.hx(src.encode()), "cdestroy 0"]
            tplan.append((cap, src, exp))
    tl += ["opt arenasize 0", "finalize"]
    trun = yv.run_script(exe_c, tl, wd, name="c19_tags")
    if not trun.complete:
        res.violation("tag lists / repeated identifiers under small arena capacities: %s" % yv.crash_summary(trun), yv.save_replay("C19", "tags_crash", {"crash": yv.crash_summary(trun), "script": trun.script_path}))
    trecs, town = [], []
    for (cap, src, exp), e in zip(tplan, [e for e in trun.events if e["e"] == "Compile"]):
        got = [d["line"] for d in e["diag"] if d["lvl"] == "error"]
        trecs.append({"kind": "errlines", "expected": exp, "got": got}); town.append((cap, src, got)); res.count(1, ("tags", cap, src))
    tb, tk, tstates = func.tlc_judge2(trecs, wd, "c19_tags")
    res.cov["states"] += tstates; res.cov["transitions"] += tstates
    res.cov["traces_validated_against_impl"] += len(trecs) - len(tb)
    for b_ in tb[:10]:
        res.violation("initial arena capacity %d: `%s` reports errors on lines %s" % town[b_], yv.save_replay("C19", "tags_%d" % b_, {"case": town[b_], "record": trecs[b_]}))
    big_check(res, r, wd, tier)
    # (4) a few hundred rules under tiny capacities: the Aho-Corasick tables, the code and the string pool relocate many times
    #     while they are being filled (ahocorasick.c _yr_ac_build_transition_table, parser.c)
    medium_check(res, r, wd, tier, caps)
    res.cov["rule"] = ("(1) 7 corpus rule sets compiled with initial arena capacities %s (capacity 1: every allocation relocates) under ASan: saved bytes equal the default's; "
                       "(2) random conditions and scanner-protocol rule sets compiled under capacities 1/8/64, judged by Cond / Scan specs; (3) a generated rule set "
                       "exceeding 1 MiB per buffer compared with the same rules compiled in groups; distinct = (case, capacity)" % caps)
    res.assumptions += ["hook H1 (YARA_VERIF) sets the initial capacity of the compiler's arena buffers"]


def make_records_cap(res, groups, metas, wd, cap):
    return cond.make_records(res, "C19", [dict(g, pre=["__opt arenasize %d" % cap] + list(g.get("pre", ()))) for g in groups], metas, wd, "c19_cond_%d" % cap)


def medium_check(res, r, wd, tier, caps):
    exe = yv.driver("asan")
    n = 400 if tier == "quick" else 1500
    def rule_src(i):
        return ('rule r%d { strings: $a = "K%dQ%dxyz" $b = { 4B %02X ?? 51 %02X } $c = /q%dw[0-9]+z/ condition: $a or $b or $c }' % (i, i, i * 7, i % 256, (i * 3) % 256, i))
    src = "\n".join(rule_src(i) for i in range(n)).encode()
    data = b" ".join(b"K%dQ%dxyz" % (i, i * 7) for i in range(0, n, 13)) + b" K\x05zQ\x0f q3w77z q%dw1z" % (n - 1)
    results = {}
    for cap in [0] + list(caps):
        lines = ["init"] + (["opt arenasize %d" % cap] if cap else []) + ["opt logmatches 0", "opt quietnomatch 1", "compiler 0", "add 0 - " + yv.hx(src), "getrules 0 0", "cdestroy 0",
                 "scanner 0 0", "data 1 " + yv.hx(data), "scan 0 1 mem - - -", "sdestroy 0", "rdestroy 0", "finalize"]
        run = yv.run_script(exe, lines, wd, name="c19_medium_%d" % cap, hang=300, timeout=900)
        res.count(1, ("medium", n, cap))
        if not run.complete:
            res.violation("compiling / scanning %d rules with initial arena capacity %s failed: %s" % (n, cap or "default", yv.crash_summary(run)),
                          yv.save_replay("C19", "medium_crash_%d" % cap, {"crash": yv.crash_summary(run), "script": run.script_path}))
            continue
        results[cap] = sorted(e["rule"] for e in run.events if e["e"] == "Cb" and e["msg"] == "match")
        res.cov["traces_validated_against_impl"] += 1
    for cap, got in results.items():
        if 0 in results and got != results[0]:
            res.violation("%d rules compiled with initial arena capacity %d match a different set of rules than with the default capacity: only default %s, only small %s" % (
                n, cap, sorted(set(results[0]) - set(got))[:5], sorted(set(got) - set(results[0]))[:5]), yv.save_replay("C19", "medium_diff_%d" % cap, {"default": results[0][:50], "small": got[:50]}))
    if 0 in results and len(results[0]) < n // 13:
        raise yv.Broken("the medium rule set matched only %d rules: the planted data does not do its job" % len(results[0]))


def big_check(res, r, wd, tier):
    """> 1 MiB of strings/rules: whole set vs groups of 500 rules; matching rule names must agree; run under ASan"""
    n = 9700 if tier == "quick" else 20000
    exe = yv.driver("asan")
    def rule_src(i):
        if i % 97 == 0:
            return 'rule r%d { strings: $a = "K%dQ" $h = { 4B %02X [300] 51 %02X } condition: $a or $h }' % (i, i, i & 0xff, (i >> 8) & 0xff)
        return 'rule r%d { strings: $a = "K%dQ" $b = "Z%dY" condition: $a or $b }' % (i, i, i)
    data = b" ".join(b"K%dQ" % i for i in range(0, n, 37)) + b" Z5Y Z%dY " % (n - 1) + b"K\x00" + b"x" * 300 + b"Q\x00"
    whole = ["init", "opt logmatches 0", "opt quietnomatch 1", "compiler 0", "add 0 - " + yv.hx("\n".join(rule_src(i) for i in range(n)).encode()),
             "getrules 0 0", "cdestroy 0", "scanner 0 0", "data 1 " + yv.hx(data), "scan 0 1 mem - - -", "sdestroy 0",
             "save 0 %s/big.yarc" % wd, "rdestroy 0", "load 0 %s/big.yarc" % wd, "scanner 0 0", "scan 0 1 mem - - -", "sdestroy 0", "rdestroy 0", "finalize"]
    run = yv.run_script(exe, whole, wd, name="c19_big", hang=300, timeout=1500)
    if not run.complete:
        res.violation("compiling / scanning / saving / loading %d rules (buffers grow past 1 MiB) failed: %s" % (n, yv.crash_summary(run)),
                      yv.save_replay("C19", "big_crash", {"crash": yv.crash_summary(run), "script": run.script_path}))
        return
    scans, cur = [], None
    for e in run.events:
        if e["e"] == "ScanCall": cur = set()
        elif e["e"] == "Cb" and e["msg"] == "match": cur.add(e["rule"])
        elif e["e"] == "ScanRet": scans.append((e["ret"], cur))
    grouped = set()
    lines = ["init", "opt logmatches 0", "opt quietnomatch 1", "data 1 " + yv.hx(data)]
    for g0 in range(0, n, 500):
        lines += ["compiler 0", "add 0 - " + yv.hx("\n".join(rule_src(i) for i in range(g0, min(n, g0 + 500))).encode()), "getrules 0 0", "cdestroy 0",
                  "scanner 0 0", "scan 0 1 mem - - -", "sdestroy 0", "rdestroy 0"]
    lines.append("finalize")
    run2 = yv.run_script(exe, lines, wd, name="c19_groups", hang=300, timeout=1500)
    if not run2.complete:
        raise yv.Broken("grouped compilation failed: " + yv.crash_summary(run2))
    for e in run2.events:
        if e["e"] == "Cb" and e["msg"] == "match": grouped.add(e["rule"])
    res.count(2, ("big", n))
    res.cov["parts"]["big_rules"] = n
    res.cov["parts"]["big_matching_rules"] = len(grouped)
    for k, (ret, m) in enumerate(scans):
        if ret != 0 or m != grouped:
            diff = sorted(m ^ grouped)[:10]
            res.violation("the %s %d-rule set reports different matching rules than the same rules compiled in groups of 500 (ret=%d, differing: %s)" %
                          ("compiled" if k == 0 else "saved+loaded", n, ret, diff), yv.save_replay("C19", "big_diff_%d" % k, {"diff": diff, "ret": ret}))
