"""C18: command-line results are independent of thread count and rule form.

CliQueue.tla is model-checked (producer, 3 consumers, 2 slots, 5 files: safety, deadlock freedom, termination under weak
fairness); the real tool (built with a 2-slot queue, ThreadSanitizer for the threaded runs) is driven over generated
trees: hook-H6 queue traces are judged by CliQueue!QueueTraceOK in TLC, and the multiset of output lines of `yara -p N`
must equal the union of single-file single-thread runs for every option set; yarac + yara -C must print the same as
source rules with externals given at either stage; the exit status is non-zero exactly when an error was reported."""
import os, sys, json, subprocess, shutil, collections, re, time
sys.path.insert(0, os.path.join(os.path.dirname(os.path.abspath(__file__)), "..", "gen"))
import yv, scangen as sg
from checks import func

RULES = '''import "pe"
rule has_mk1 : tagA tagB { meta: author = "v" n = 7 strings: $a = "MK1;" $b = "MK2;" wide ascii condition: $a or $b }
rule is_pe { condition: pe.number_of_sections == 1 }
rule empty_file { condition: filesize == 0 }
rule has_entry { condition: entrypoint >= 0 }
rule ext_has_eq { condition: ext_s == "k=v==" }
rule many : tagC { strings: $x = "x" condition: #x > 3 }
global private rule g { condition: filesize >= 0 }
rule ext_rule { condition: ext_i == 5000000000 or ext_s == "" or ext_s == "-" or ext_f > 1.0 or ext_b }
'''
EXT_DEFAULT = ["-d", "ext_i=1", "-d", "ext_s=zz", "-d", "ext_f=0.5", "-d", "ext_b=false"]


def make_tree(r, root, nfiles):
    shutil.rmtree(root, ignore_errors=True)
    os.makedirs(root)
    pe, _ = sg.minimal_pe()
    elf, _ = sg.minimal_elf()
    paths = []
    for i in range(nfiles):
        # nested directories, some with names starting with one or two dots (only "." and ".." themselves are not walked)
        d = os.path.join(root, *[r.choice(["d0", "d1", "d2", ".hid", "..data", ".d"]) for _ in range(r.randint(0, 2))])
        if i == 0: d = os.path.join(root, ".cache")
        if i == 1: d = os.path.join(root, "d1", "..rev")
        os.makedirs(d, exist_ok=True)
        kind = r.choice(["text", "text", "pe", "elf", "empty", "xs", "wide"])
        data = {"text": b"hello MK1; world " * r.randint(1, 3), "pe": pe + b"MK1;", "elf": elf, "empty": b"", "xs": b"x" * r.randint(2, 9) + b"MK2;",
                "wide": b"M\0K\0" + b"2\0;\0" + b"tail"}[kind]
        p = os.path.join(d, "f%02d_%s.bin" % (i, kind))
        open(p, "wb").write(data)
        paths.append(p)
    return paths


def run(cmd, env=None, timeout=90):
    e = dict(os.environ); e.update(yv.SAN_ENV)
    if env: e.update(env)
    try:
        r = subprocess.run(cmd, capture_output=True, timeout=timeout, env=e)
        return r.returncode, r.stdout.decode("latin-1"), r.stderr.decode("latin-1")
    except subprocess.TimeoutExpired:
        return -9, "", "timeout"


def lines_of(out):
    return collections.Counter(l for l in out.split("\n") if l.strip())


def c18(res, tier, seed):
    wd = yv.workdir("C18")
    m = yv.tlc("CliQueue", "MC_CliQueue.cfg", wd, timeout=1200, tier=tier)
    if not m["violated"]:
        yv.require_tlc_ok(m, "MC_CliQueue.cfg")
    res.add_tlc("cliqueue", m)
    if m["violated"]:
        res.violation("TLC: %s in MC_CliQueue.cfg" % m["violated"], yv.save_replay("C18", "model", {"tlc": m["out"][-3000:]}))
    for cfg, what in (("MC_CliQueue_tokens.cfg", "Termination"), ("MC_CliQueue_nomutex.cfg", "AtMostOnce")):
        v = yv.tlc("CliQueue", cfg, wd, timeout=600, coverage=False)
        if not (v["violated"] and what in (v["violated"] + v["out"])):
            raise yv.Broken("non-vacuity run %s did not violate %s" % (cfg, what))
        res.cov["parts"]["nonvacuity_" + cfg] = "violated as expected"
    r = yv.rng(seed, "c18")
    bt = yv.build("tsan", "-DMAX_QUEUED_FILES=2")
    ba = yv.build("asan", "-DMAX_QUEUED_FILES=2")
    yara_t, yara_a, yarac_a = os.path.join(bt, "yara"), os.path.join(ba, "yara"), os.path.join(ba, "yarac")
    rules_path = os.path.join(wd, "rules.yar")
    open(rules_path, "w").write(RULES)
    tree = os.path.join(wd, "tree")
    paths = make_tree(r, tree, 9 if tier == "quick" else 40)
    optsets = [[], ["-s"], ["-s", "-L", "-X"], ["-m", "-g"], ["-e"], ["-c"], ["-n"], ["-t", "tagA"], ["-i", "is_pe"], ["-s", "-m", "-g", "-e", "-L"]]
    if tier == "quick":
        optsets = [[], ["-s", "-L", "-X"], ["-m", "-g", "-e"], ["-c"], ["-n"], ["-t", "tagA"]]
    threads = [1, 3, 32] if tier == "quick" else [1, 2, 3, 8, 32]
    qrecords, qowners = [], []
    hangs = [0]
    for opts in optsets:
        # reference: each file in a separate single-threaded invocation
        ref = collections.Counter()
        for p in paths:
            rc, out, err = run([yara_a] + EXT_DEFAULT + opts + [rules_path, p])
            if rc != 0:
                raise yv.Broken("reference run failed on %s: %s" % (p, err[-300:]))
            if "-c" in opts:
                out = "\n".join("%s: %s" % (p, l) for l in out.split("\n") if l.strip())
            ref += lines_of(out)
        for n in threads:
            for rep in range(1 if tier == "quick" else 3):
                if hangs[0] > 3:
                    continue          # the tool does not terminate (already reported): no point in waiting for every configuration
                tr = os.path.join(wd, "queue_%d_%d.trace" % (n, rep))
                rc, out, err = run([yara_t, "-p", str(n), "-r"] + EXT_DEFAULT + opts + [rules_path, tree], env={"YARA_VERIF_TRACE": tr})
                res.count(1, (tuple(opts), n, rep))
                got = lines_of(out)
                if rc == -9:
                    hangs[0] += 1
                if "ThreadSanitizer" in err or rc not in (0,):
                    mm = re.search(r"WARNING: ThreadSanitizer: [^\n]*", err)
                    res.violation("yara -p %d %s: %s" % (n, " ".join(opts), mm.group(0) if mm else "exit status %s, stderr %s" % (rc, err[-200:].replace("\n", " | "))),
                                  yv.save_replay("C18", "tsan_%d_%s" % (n, "".join(opts).replace("-", "")), {"stderr": err[-5000:]}))
                    continue
                if got != ref:
                    missing = list((ref - got).elements())[:5]; extra = list((got - ref).elements())[:5]
                    res.violation("yara -p %d %s prints a different set of lines than per-file single-threaded runs: missing %s extra %s" % (n, " ".join(opts), missing, extra),
                                  yv.save_replay("C18", "diff_%d_%s" % (n, "".join(opts).replace("-", "")), {"missing": missing, "extra": extra, "opts": opts, "threads": n}))
                else:
                    res.cov["traces_validated_against_impl"] += 1
                if os.path.exists(tr):
                    evs = []
                    for l in open(tr, errors="replace"):
                        f = l.rstrip("\n").split(" ", 4)
                        if len(f) == 5:
                            evs.append({"op": f[0], "seq": int(f[1]), "head": int(f[2]), "tail": int(f[3]), "path": f[4]})
                    qrecords.append({"kind": "queue", "q": 2, "events": evs})
                    qowners.append((n, opts, len(evs)))
    # many files that each print many lines, scanned by several threads at once: every line must come out whole (each report is
    # printed under the output mutex), with every option that adds a fragment to the line
    big = os.path.join(wd, "bigtree")
    bpaths = make_tree(r, big, 40 if tier == "quick" else 120)
    for p in bpaths:
        if p.endswith("_text.bin") or p.endswith("_xs.bin"):
            open(p, "ab").write(b"MK1; MK2; " * 40)
    for opts in ([["-e", "-s"], ["-e"], ["-e", "-m", "-g", "-s", "-L"]] if tier == "quick" else [["-e", "-s"], ["-e"], ["-e", "-m", "-g", "-s", "-L"], ["-s", "-X"], ["-e", "-c"]]):
        ref = collections.Counter()
        for p in bpaths:
            rc, out, err = run([yara_a] + EXT_DEFAULT + opts + [rules_path, p])
            if rc != 0:
                raise yv.Broken("reference run failed on %s: %s" % (p, err[-300:]))
            if "-c" in opts:
                out = "\n".join("%s: %s" % (p, l) for l in out.split("\n") if l.strip())
            ref += lines_of(out)
        for n in ([2, 8] if tier == "quick" else [2, 4, 8, 16]):
            for rep in range(3 if tier == "quick" else 6):
                if hangs[0] > 3:
                    continue
                rc, out, err = run([yara_a, "-p", str(n), "-r"] + EXT_DEFAULT + opts + [rules_path, big])
                res.count(1, ("big", tuple(opts), n, rep))
                if rc == -9:
                    hangs[0] += 1
                got = lines_of(out)
                if rc != 0:
                    res.violation("yara -p %d %s on the large tree: exit status %s, stderr %s" % (n, " ".join(opts), rc, err[-200:].replace("\n", " | ")),
                                  yv.save_replay("C18", "bigrc_%d_%s" % (n, "".join(opts).replace("-", "")), {"stderr": err[-5000:]}))
                elif got != ref:
                    missing = list((ref - got).elements())[:5]; extra = list((got - ref).elements())[:5]
                    res.violation("yara -p %d %s on the large tree prints a different set of lines than per-file single-threaded runs: missing %s extra %s" % (n, " ".join(opts), missing, extra),
                                  yv.save_replay("C18", "bigdiff_%d_%s" % (n, "".join(opts).replace("-", "")), {"missing": missing, "extra": extra, "opts": opts, "threads": n}))
                else:
                    res.cov["traces_validated_against_impl"] += 1
    bad, known, states = func.tlc_judge2(qrecords, wd, "c18_queue")
    res.cov["states"] += states; res.cov["transitions"] += states
    for b in bad:
        res.violation("the queue events of yara -p %d %s (%d events) are not a behaviour of CliQueue.tla" % qowners[b],
                      yv.save_replay("C18", "queue_%d" % b, {"events": qrecords[b]["events"][:200]}))
    if qrecords:
        res.sample({"threads": qowners[0][0], "queue_events": qrecords[0]["events"][:8]})
    # ---- source vs compiled rules, externals given at either stage
    ext_values = [("ext_i", "5000000000"), ("ext_i", "-3"), ("ext_s", ""), ("ext_s", "-"), ("ext_s", "abc"), ("ext_f", "1.5"), ("ext_b", "true"), ("ext_i", "12"), ("ext_s", "k=v==")]
    comp = os.path.join(wd, "rules.yarc")
    for name, val in ext_values:
        dflt = dict(zip(EXT_DEFAULT[1::2], [None] * 4))
        defs = []
        for d in EXT_DEFAULT[1::2]:
            k, v = d.split("=", 1)
            defs += ["-d", "%s=%s" % (k, val if k == name else v)]
        rc0, out0, err0 = run([yara_a, "-r"] + defs + [rules_path, tree])
        if val == "k=v==" and (rc0 != 0 or out0.count("ext_has_eq ") != len(paths)):
            # the value is everything after the FIRST `=`: a rule comparing the variable with that value holds on every file
            res.violation("-d ext_s=k=v== : the rule `ext_s == \"k=v==\"` is reported for %d of %d files (exit %s, %s)" % (out0.count("ext_has_eq "), len(paths), rc0, err0[-150:].replace("\n", " | ")),
                          yv.save_replay("C18", "ext_value_with_equal_sign", {"stdout": out0[:2000], "stderr": err0[-2000:]}))
        # (a) externals given to yarac
        rc1, o1, e1 = run([yarac_a] + defs + [rules_path, comp])
        rc2, out2, err2 = run([yara_a, "-r", "-C", comp, tree])
        # (b) default externals to yarac, the value given to yara -C
        rc3, o3, e3 = run([yarac_a] + EXT_DEFAULT + [rules_path, comp])
        rc4, out4, err4 = run([yara_a, "-r", "-C"] + defs + [comp, tree])
        res.count(1, ("ext", name, val))
        for label, rc, out, err in (("yarac -d ... ; yara -C", rc2 if rc1 == 0 else rc1, out2, e1 + err2), ("yarac ; yara -C -d ...", rc4 if rc3 == 0 else rc3, out4, e3 + err4)):
            if rc != rc0 or lines_of(out) != lines_of(out0):
                res.violation("-d %s=%s: %s differs from source rules (exit %s vs %s; lines only in source %s, only in compiled %s) %s" % (
                    name, val, label, rc, rc0, list((lines_of(out0) - lines_of(out)).elements())[:3], list((lines_of(out) - lines_of(out0)).elements())[:3], err[-150:].replace("\n", " | ")),
                    yv.save_replay("C18", "ext_%s_%s_%s" % (name, re.sub(r"\W", "_", val), label[:5]), {"value": val, "source_out": out0[:2000], "compiled_out": out[:2000], "stderr": err[-2000:]}))
            else:
                res.cov["traces_validated_against_impl"] += 1
    # ---- exit status: non-zero exactly when an error was reported
    lst = os.path.join(wd, "scan.list")
    open(lst, "w").write("\n".join(paths[:1] + [os.path.join(tree, "does_not_exist")] + paths[1:5]) + "\n")       # successes after the failure
    for label, cmd in (("scan-list with a missing file", [yara_a, "--scan-list"] + EXT_DEFAULT + [rules_path, lst]), ("directory", [yara_a, "-r"] + EXT_DEFAULT + [rules_path, tree]),
                       ("single missing file", [yara_a] + EXT_DEFAULT + [rules_path, os.path.join(tree, "does_not_exist")]), ("single file", [yara_a] + EXT_DEFAULT + [rules_path, paths[0]])):
        rc, out, err = run(cmd)
        reported = "error" in err.lower()
        res.count(1, ("exit", label))
        if (rc != 0) != reported:
            res.violation("%s: exit status %d but %s" % (label, rc, "an error was reported: " + err[-200:].replace("\n", " | ") if reported else "no error was reported"),
                          yv.save_replay("C18", "exit_" + label.replace(" ", "_"), {"rc": rc, "stderr": err[-2000:]}))
        else:
            res.cov["traces_validated_against_impl"] += 1
    res.cov["rule"] = ("a generated tree (text / PE / ELF / empty / wide files in nested directories, more files than queue slots) x option sets over -s -L -X -m -g -e -c -n -t -i x "
                       "thread counts {1,3,32} (thorough: 1,2,3,8,32, 3 repetitions): output multiset = union of per-file single-threaded runs; TSan-built tool with a 2-slot queue, hook H6 "
                       "traces judged by CliQueue!QueueTraceOK; 8 external values (incl. empty, '-', 64-bit) given to yarac or to yara -C vs source rules; 4 exit-status scenarios")
    res.assumptions += ["-l (global match limit) is excluded: its own oracle is schedule-dependent", "OS schedules are sampled, the model's interleavings are enumerated by TLC"]
