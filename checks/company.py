"""C05: a rule's result does not depend on what else is compiled with it.

(b.i) company replay: cases of the C01-C04 generators are compiled TOGETHER with each other and with noise rules built to
share atoms / prefixes / suffixes, in shuffled order over several namespaces (with false global rules in OTHER namespaces),
and every rule's observation is judged by TLC against its own reference semantics - the oracle is compositional, so
result(r | R) = result(r | {r}) follows; (b.iii) one namespace's text cut into add-source calls / nested includes."""
import os, sys, json, time
sys.path.insert(0, os.path.join(os.path.dirname(os.path.abspath(__file__)), "..", "gen"))
import yv, condgen as cg
from checks import func, text, hexre, cond
from checks.hexre import judge_and_report


def gen_case(r, idx):
    """-> dict(name, body (rule text without prelude), kind, bufs, mk_record(obs strings, verdict, buf))"""
    k = r.choice(["text", "text", "hex", "re", "cond", "cond"])
    name = "t%d" % idx
    if k == "text":
        L = r.randint(2, 8)
        pat = [r.choice(text.SMALL_ALPHABET + [0x41, 0x61, 0x62, 0x42]) for _ in range(L)]
        m = text.random_mods(r)
        body = 'rule %s { strings: $s = "%s" %s condition: #s >= 0 }' % (name, text.esc(pat, r), text.mods_text(m))
        bufs = [text.random_buffer(r, pat, m, 80) for _ in range(2)] + [bytes(pat) + b"zz" + bytes(pat), b"\x00" + bytes(pat)]
        def rec(sc, verdict, b, pat=pat, m=m):
            return {"kind": "text", "pat": pat, "mods": text.tla_mods(m), "buf": list(b), "obs": [[o, l, kk] for o, l, kk, p in sc.get("$s", [])]}
        noise = []
        if not (m["b64"] or m["b64w"]):
            for v in (pat[:-1] + [0x7a], [0x7a] + pat[1:], pat + pat[:2], pat[1:] + [0x41], pat[:4],
                      [0] * 6 + pat[:4], [0x20] * 3 + pat, [0, 0xff, 0] + pat + [0x7a]):      # longer strings whose best atom lies inside, at a backtrack > 0
                if v:
                    noise.append('"%s" %s' % (text.esc(v), "wide" if m["wide"] else ("nocase" if m["nocase"] else "")))
        return dict(name=name, body=body, kind=k, bufs=bufs, rec=rec, noise=noise, needs_prelude=False)
    if k == "hex":
        vals = r.sample([0x41, 0x42, 0x61, 0x00, 0x0a, 0xff], 3)
        txt, ast = hexre.hex_seq(r, vals, r.randint(2, 6), 200, 2, False, 0.2)
        body = "rule %s { strings: $s = { %s } condition: #s >= 0 }" % (name, txt)
        bufs = [hexre.plant_buffer(r, ast, vals + [0x7a], 300) for _ in range(2)]
        def rec(sc, verdict, b, ast=ast):
            return {"kind": "re", "ast": ast, "buf": list(b), "obs": [[o, l] for o, l, kk, p in sc.get("$s", [])], "ascii": True, "wide": False,
                    "nocase": False, "dotall": True, "fullword": False, "thresh": 200}
        return dict(name=name, body=body, kind=k, bufs=bufs, rec=rec, noise=["{ %02X %02X %02X ?? %02X }" % (vals[0], vals[1], vals[2], vals[0])], needs_prelude=False)
    if k == "re":
        txt, ast = hexre.re_top(r, 2, anchors=False)
        body = "rule %s { strings: $s = /%s/ condition: #s >= 0 }" % (name, txt)
        bufs = [hexre.plant_buffer(r, ast, hexre.SAFE, 60) for _ in range(2)]
        def rec(sc, verdict, b, ast=ast):
            return {"kind": "re", "ast": ast, "buf": list(b), "obs": [[o, l] for o, l, kk, p in sc.get("$s", [])], "ascii": True, "wide": False,
                    "nocase": False, "dotall": False, "fullword": False, "thresh": 200}
        return dict(name=name, body=body, kind=k, bufs=bufs, rec=rec, noise=[], needs_prelude=False)
    bufs = [cond.cond_buffer(r) for _ in range(2)]
    g = cg.Gen(r, len(bufs[0]))
    if r.random() < 0.35:      # wildcard rule sets: must see the rules of THIS namespace only
        w = r.choice(["r_", "r_t", "r_true", "r_f"])
        ast = {"t": "ofrules", "wild": w, "set": [n for n in ["r_true", "r_false", "r_true2"] if n.startswith(w)], "q": r.choice(["all", "any", "none"])}
        if r.random() < 0.4:
            ast["q"] = "n"; ast["qv"] = {"t": "int", "v": r.randint(1, 3)}
        if r.random() < 0.3:
            ast = {"t": "not", "x": ast}
    else:
        ast = g.bool_expr(r.choice([1, 2, 2]))
    strs = " ".join('%s = "%s"' % (s, cg.STR_TEXT[s].decode()) for s in cg.STRS)
    body = "rule %s { strings: %s condition: %s }" % (name, strs, cg.show(ast)[0])
    has32 = '"n": 4' in json.dumps(ast)
    def rec(sc, verdict, b, ast=ast):
        if has32 and any(x >= 0x40 for x in b):
            return None       # 32-bit reads of large bytes leave TLC's integer range: not judged (still compared alone vs company)
        m = {s: [[o, l] for o, l, kk, p in sc.get(s, [])] for s in cg.STRS}
        env = {"buf": list(b), "filesize": len(b), "entrypoint": -1, "m": m, "ext": cond.EXT_ENV, "rules": {"r_true": True, "r_false": False, "r_true2": True}}
        return {"kind": "cond", "ast": cg.strip_for_tla(ast), "env": env, "obs": verdict}
    return dict(name=name, body=body, kind=k, bufs=bufs, rec=rec, noise=[], needs_prelude=True)


def run_sets(res, wd, sets, name):
    """sets: list of dict(units=[(ns, src)], cases=[case...], bufs=[...]) -> records judged later"""
    exe = yv.driver("asan")
    lines = ["init", "opt iterlog 0"]
    for si, s in enumerate(sets):
        lines.append("note s%d" % si)
        lines.append("compiler 0")
        lines += cond.EXT_DEFS
        for incname, inctxt in s.get("includes", []):
            lines.append("include %s %s" % (incname, yv.hx(inctxt.encode("latin-1"))))
        for ui, (ns, src) in enumerate(s["units"]):
            # s["via"]: the compiler entry point per unit (sources with a file name go through the file-name stack of the compiler)
            via = (s.get("via") or ["add"])[ui % len(s.get("via") or ["add"])]
            lines.append("%s 0 %s %s" % (via, ns or "-", yv.hx(src.encode("latin-1"))))
        lines += ["getrules 0 0", "cdestroy 0", "scanner 0 0"]
        for b in s["bufs"]:
            lines += ["data 1 %s" % yv.hx(b), "scan 0 1 mem - - -"]
        lines += ["sdestroy 0", "rdestroy 0"]
    lines.append("finalize")
    run = yv.run_script(exe, lines, wd, name=name)
    per, cur = {}, None
    for ev in run.events:
        e = ev["e"]
        if e == "Note" and ev["text"].startswith("s"):
            cur = per.setdefault(int(ev["text"][1:]), {"ok": True, "scans": [], "rets": [], "diag": []})
        elif cur is None:
            continue
        elif e == "Compile":
            if ev["ret"] != 0:
                cur["ok"] = False; cur["diag"].append(ev["diag"])
        elif e == "ScanCall":
            cur["scans"].append({})
        elif e == "Cb" and ev["msg"] in ("match", "nomatch") and cur["scans"]:
            strs = {}
            for st in ev.get("strings", []):
                strs.setdefault(st["id"], []); strs[st["id"]] = strs[st["id"]] + st["m"]
            cur["scans"][-1][(ev["ns"], ev["rule"])] = {"verdict": ev["msg"] == "match", "strings": strs}
        elif e == "ScanRet":
            cur["rets"].append(ev["ret"])
    return run, per


def ac_pass(res, wd, sets, tier):
    """white-box: the candidates the automaton hands to verification (hook H4) for the atoms inserted (hook H3) must be exactly
    the atoms ending at each position - AhoCorasick!ACTraceOK"""
    exe = yv.driver("asan")
    lines = ["init", "opt iterlog 0", "opt logmatches 0", "opt quietnomatch 1", "opt achooks 1"]
    for si, s in enumerate(sets):
        lines.append("note s%d" % si)
        lines.append("compiler 0")
        lines += cond.EXT_DEFS
        for ns, src in s["units"]:
            lines.append("add 0 %s %s" % (ns or "-", yv.hx(src.encode("latin-1"))))
        lines += ["getrules 0 0", "cdestroy 0", "scanner 0 0"]
        for b in s["bufs"][:6]:
            lines += ["data 1 %s" % yv.hx(b[:160]), "scan 0 1 mem - - -"]
        lines += ["sdestroy 0", "rdestroy 0"]
    lines.append("finalize")
    run = yv.run_script(exe, lines, wd, name="c05_ac")
    if not run.complete:
        res.violation("driver did not complete (automaton pass): " + yv.crash_summary(run), yv.save_replay("C05", "crash_ac", {"crash": yv.crash_summary(run)}))
        return
    records, owners = [], []
    cur = None
    for e in run.events:
        if e["e"] == "Note" and e["text"].startswith("s"):
            cur = {"si": int(e["text"][1:]), "atoms": [], "scan": -1, "cands": None, "ok": True}
        elif cur is None: continue
        elif e["e"] == "Compile" and e["ret"] != 0: cur["ok"] = False
        elif e["e"] == "Atom": cur["atoms"].append({"s": e["s"] + 1, "b": e["b"], "bt": e["bt"]})
        elif e["e"] == "ScanCall": cur["scan"] += 1; cur["cands"] = []
        elif e["e"] == "Cand" and cur["cands"] is not None: cur["cands"].append([e["pos"], e["s"] + 1, e["bt"]])
        elif e["e"] == "ScanRet" and cur["ok"] and e["ret"] == 0 and cur["cands"] is not None:
            b = sets[cur["si"]]["bufs"][cur["scan"]][:160]
            if len(cur["atoms"]) <= 400:
                records.append({"kind": "ac", "atoms": cur["atoms"], "buf": list(b), "cands": cur["cands"]})
                owners.append((cur["si"], cur["scan"], len(cur["atoms"]), len(cur["cands"])))
            cur["cands"] = None
    bad, known, states = func.tlc_judge2(records, wd, "c05_ac")
    res.cov["states"] += states; res.cov["transitions"] += states
    res.cov["traces_validated_against_impl"] += len(records) - len(bad)
    res.cov["parts"]["automaton_traces"] = len(records)
    for b in bad[:5]:
        res.violation("the candidates delivered by the automaton (rule set %d, buffer %d: %d atoms, %d candidates) are not the atoms ending at each position" % owners[b],
                      yv.save_replay("C05", "ac_%d" % b, {"record": records[b]}))


def c05(res, tier, seed):
    r = yv.rng(seed, "c05")
    wd = yv.workdir("C05")
    m = yv.tlc("AhoCorasick", "MC_AC.cfg" if tier == "quick" else "MC_AC_thorough.cfg", wd, timeout=3000)
    if not m["violated"]:
        yv.require_tlc_ok(m, "MC_AC.cfg")
    res.add_tlc("ahocorasick", m)
    if m["violated"]:
        res.violation("TLC: %s in the Aho-Corasick model" % m["violated"], yv.save_replay("C05", "model_ac", {"tlc": m["out"][-3000:]}))
    for v in ("StrictBacktrack", "NoFailureLists", "BlindOptimise"):
        t = yv.tlc("AhoCorasick", "MC_AC_%s.cfg" % v, wd, timeout=600, coverage=False)
        if not t["violated"]:
            raise yv.Broken("non-vacuity run MC_AC_%s.cfg found no violation" % v)
        res.cov["parts"]["nonvacuity_" + v] = "violated as expected"
    nsets = 60 if tier == "quick" else 800
    sets = []
    idx = 0
    for si in range(nsets):
        cases = []
        for _ in range(r.randint(4, 14)):
            cases.append(gen_case(r, idx)); idx += 1
        nns = r.randint(1, 3)
        nsname = lambda k: ("ns%d" % k)
        placement = {c["name"]: r.randint(1, nns) for c in cases}
        units = []
        order = list(cases)
        r.shuffle(order)
        # noise rules sharing atoms / prefixes / suffixes with the cases' strings, imports, and a false global rule in a namespace of its own
        noise_rules = []
        nn = 0
        for c in cases:
            for decl in c["noise"]:
                if r.random() < 0.6:
                    noise_rules.append("rule noise%d_%d { strings: $n = %s condition: $n }" % (si, nn, decl)); nn += 1
        per_ns = {k: [] for k in range(1, nns + 1)}
        for c in order:
            per_ns[placement[c["name"]]].append(c["body"])
        for nr in noise_rules:
            per_ns[r.randint(1, nns)].insert(r.randint(0, 3), nr)
        for k in range(1, nns + 1):
            pre = cond.PRELUDE if any(c["needs_prelude"] and placement[c["name"]] == k for c in cases) else ('import "pe"\n' if r.random() < 0.3 else "")
            # cut the namespace's text into 1-3 add-source calls
            rules_k = per_ns[k]
            cuts = sorted(r.sample(range(1, len(rules_k)), min(len(rules_k) - 1, r.randint(0, 2)))) if len(rules_k) > 1 else []
            parts = [rules_k[a:b] for a, b in zip([0] + cuts, cuts + [len(rules_k)])]
            for pi, part in enumerate(parts):
                units.append((nsname(k), (pre if pi == 0 else "") + "\n".join(part)))
        # interleave the namespaces' units at random, keeping each namespace's own order; a foreign namespace with a false global rule
        queues = {}
        for ns, src in units:
            queues.setdefault(ns, []).append(src)
        queues["other_ns"] = ["global rule never { condition: false }\nrule x { condition: true }\nrule r_true_x { condition: false }\n"
                              "rule r_false_x { condition: true }\nrule r_tx { condition: false }"]
        # a namespace that is never the first one, fed by two add-source calls: a false global rule in the first, an always-true
        # rule in the second, which therefore never matches (a rule holds iff its condition and the global rules of ITS namespace hold)
        queues["zgate"] = ["global rule gate_false { condition: false }", "rule gx%d { condition: true }" % si]
        ordered = []
        if r.random() < 0.5:       # the foreign namespace is compiled first
            ordered.append(("other_ns", queues.pop("other_ns")[0]))
        while queues:
            ns = r.choice(sorted(k for k in queues if not (k == "zgate" and not ordered)) or sorted(queues))
            ordered.append((ns, queues[ns].pop(0)))
            if not queues[ns]:
                del queues[ns]
        bufs = []
        for c in cases:
            bufs += c["bufs"]
        sets.append({"units": ordered, "cases": cases, "bufs": bufs, "placement": placement, "nsname": nsname})
    # rule sets built for the automaton: strings that are suffixes / overlaps of each other and diverge on bytes that are related
    # bit-wise (same value modulo 8 / 32 / 64 / 128, neighbours): the transition sets and the failure-link optimisation of
    # ahocorasick.c work on bitmaps of the next bytes (AhoCorasick.tla, BlindOptimise)
    for si in range(12 if tier == "quick" else 150):
        base = r.randrange(256)
        fam = sorted({(base + d) & 0xff for d in (0, 8, 16, 24, 32, 64, 128, 1, 255)} | {base ^ 0x20, base ^ 0x80})
        r.shuffle(fam)
        fam = fam[:r.randint(3, 6)]
        P = r.sample([x for x in range(1, 256) if x not in fam], 3)
        t, u = r.sample([x for x in range(1, 256) if x not in fam and x not in P], 2)
        strs = []
        for d in fam:
            k = r.random()
            if k < 0.4: strs.append(P + [d])
            elif k < 0.8: strs.append(P[1:] + [d, t])
            else: strs.append(P[2:] + [d, t, u])
        strs.append(P[1:] + [fam[0], t]); strs.append(P + [fam[-1]])
        uniq = []
        for x in strs:
            if x not in uniq: uniq.append(x)
        cases = []
        bufs = [b"".join(bytes(P + [d, t, u]) + bytes([0x7a] * r.randint(0, 2)) for d in fam),
                b"".join(bytes(P[:2]) + bytes(P + [d, t]) for d in reversed(fam)),
                bytes(P) * 2 + bytes([fam[0], t, u]) + bytes(P[1:]) + bytes([fam[-1], t])]
        for pat in uniq:
            nm = "t%d" % idx; idx += 1
            m = text.random_mods(r, allow_b64=False)
            m.update({"wide": False, "ascii_explicit": False, "nocase": False, "fullword": False, "xor": False, "private": False})
            def rec(sc, verdict, bb, pat=pat, m=m):
                return {"kind": "text", "pat": pat, "mods": text.tla_mods(m), "buf": list(bb), "obs": [[o, l, kk] for o, l, kk, p in sc.get("$s", [])]}
            cases.append(dict(name=nm, body='rule %s { strings: $s = "%s" condition: #s >= 0 }' % (nm, text.esc(pat)), kind="text", bufs=bufs, rec=rec, noise=[], needs_prelude=False))
        order = list(cases); r.shuffle(order)
        sets.append({"units": [("ns1", "\n".join(c["body"] for c in order))], "cases": cases, "bufs": bufs, "placement": {c["name"]: 1 for c in cases}, "nsname": (lambda k: "ns%d" % k)})
    res.cov["parts"]["automaton_alias_sets"] = 12 if tier == "quick" else 150
    # crowds: 63 / 64 / 65 / 128+ other rules before and after rules whose condition can hold without any string match (the per-rule
    # and per-string tables of the scanner are bitmaps of 64-bit words sized from the counts of rules, strings and namespaces)
    I = lambda v: {"t": "int", "v": v}
    crowd_conds = [{"t": "not", "x": {"t": "sfound", "s": "$_a"}}, {"t": "of", "q": "none", "set": list(cg.STRS), "them": True},
                   {"t": "cmp", "op": ">=", "l": {"t": "filesize"}, "r": I(0)}, {"t": "cmp", "op": "==", "l": {"t": "scount", "s": "$_b"}, "r": I(0)},
                   {"t": "or", "l": {"t": "sfound", "s": "$_a"}, "r": {"t": "cmp", "op": "<", "l": {"t": "filesize"}, "r": I(1000)}},
                   {"t": "and", "l": {"t": "sfound", "s": "$_a"}, "r": {"t": "sfound", "s": "$_c"}}]
    ncrowd = 0
    for nbefore in ([63, 64, 65, 130] if tier == "quick" else [1, 62, 63, 64, 65, 66, 127, 128, 129, 200]):
        for nafter in (0, 70):
            cases = []
            cbufs = [b"", b"zzzz", b"#1#", b"#1#..=3=", b"+2+"]
            for ast in crowd_conds:
                nm = "t%d" % idx; idx += 1
                strs = " ".join('%s = "%s"' % (x, cg.STR_TEXT[x].decode()) for x in cg.STRS)
                def rec(sc, verdict, bb, ast=ast):
                    mm = {x: [[o, l] for o, l, kk, p in sc.get(x, [])] for x in cg.STRS}
                    env = {"buf": list(bb), "filesize": len(bb), "entrypoint": -1, "m": mm, "ext": cond.EXT_ENV, "rules": {"r_true": True, "r_false": False, "r_true2": True}}
                    return {"kind": "cond", "ast": cg.strip_for_tla(ast), "env": env, "obs": verdict}
                cases.append(dict(name=nm, body="rule %s { strings: %s condition: %s }" % (nm, strs, cg.show(ast)[0]), kind="cond", bufs=cbufs, rec=rec, noise=[], needs_prelude=True))
            fill = lambda a, n: "\n".join('rule fill%d_%d { strings: $f = "fill%d" condition: $f }' % (ncrowd, a + k, a + k) for k in range(n))
            src = fill(0, nbefore) + "\n" + cond.PRELUDE + "\n".join(c["body"] for c in cases) + "\n" + fill(1000, nafter)
            sets.append({"units": [("ns1", src)], "cases": cases, "bufs": cbufs, "placement": {c["name"]: 1 for c in cases}, "nsname": (lambda k: "ns%d" % k)})
            ncrowd += 1
    res.cov["parts"]["crowd_sets"] = ncrowd
    # pass 1: every case compiled ALONE (cases that do not compile are dropped; the observation alone is kept for the direct comparison)
    alone_sets, index = [], []
    for si, s in enumerate(sets):
        for c in s["cases"]:
            alone_sets.append({"units": [("ns1", (cond.PRELUDE if c["needs_prelude"] else "") + c["body"])], "cases": [c], "bufs": s["bufs"]})
            index.append((si, c["name"]))
    alone = {}
    for ci in range(0, len(alone_sets), 150):
        run, per = run_sets(res, wd, alone_sets[ci:ci + 150], "c05_alone_%d" % ci)
        if not run.complete:
            raise yv.Broken("alone pass did not complete: " + yv.crash_summary(run))
        for k in range(len(alone_sets[ci:ci + 150])):
            p = per.get(k)
            si, nm = index[ci + k]
            if p is not None and p["ok"]:
                alone[(si, nm)] = [(p["rets"][bi], sc.get(("ns1", nm))) for bi, sc in enumerate(p["scans"])]
    for si, s in enumerate(sets):
        keep = [c for c in s["cases"] if (si, c["name"]) in alone]
        dropped = {c["name"] for c in s["cases"]} - {c["name"] for c in keep}
        if dropped:
            s["units"] = [(ns, "\n".join(ln for ln in src.split("\n") if not any(ln.startswith("rule %s " % d) for d in dropped))) for ns, src in s["units"]]
        s["cases"] = keep
        res.cov["parts"]["cases_not_compiling_alone"] = res.cov["parts"].get("cases_not_compiling_alone", 0) + len(dropped)
    records, owners = [], []
    for ci in range(0, len(sets), 40):
        run, per = run_sets(res, wd, sets[ci:ci + 40], "c05_%d" % ci)
        if not run.complete:
            res.violation("driver did not complete: " + yv.crash_summary(run), yv.save_replay("C05", "crash_%d" % ci, {"crash": yv.crash_summary(run), "script": run.script_path}))
            continue
        for si, s in enumerate(sets[ci:ci + 40]):
            p = per.get(si)
            if p is None or not p["ok"]:
                res.cov["parts"]["sets_rejected"] = res.cov["parts"].get("sets_rejected", 0) + 1
                if p and len(res.cov["parts"].setdefault("set_rejections", [])) < 5:
                    res.cov["parts"]["set_rejections"].append(json.dumps(p["diag"])[:300])
                continue
            for bi, b in enumerate(s["bufs"]):
                if p["rets"][bi] != 0:
                    continue
                gx = p["scans"][bi].get(("zgate", "gx%d" % (ci + si)))
                if gx is not None and bi == 0:
                    records.append({"kind": "cond", "ast": {"t": "and", "l": {"t": "rule", "name": "gate_false"}, "r": {"t": "true"}},
                                    "env": {"buf": [], "filesize": 0, "entrypoint": -1, "m": {x: [] for x in cg.STRS}, "ext": cond.EXT_ENV, "rules": {"gate_false": False}}, "obs": gx["verdict"]})
                    owners.append(("rule gx in namespace zgate behind `global rule gate_false { condition: false }` added by an earlier call", b.hex(), {}, gx["verdict"], len(s["cases"]), ci + si))
                for c in s["cases"]:
                    key = (s["nsname"](s["placement"][c["name"]]), c["name"])
                    o = p["scans"][bi].get(key)
                    if o is None:
                        res.violation("rule %s/%s was not reported when compiled in company" % key, yv.save_replay("C05", "missing_%d_%s" % (ci + si, c["name"]), {"units": s["units"]}))
                        continue
                    a = alone.get((ci + si, c["name"]))
                    if a and a[bi][0] == 0 and a[bi][1] is not None and (a[bi][1]["verdict"] != o["verdict"] or a[bi][1]["strings"] != o["strings"]):
                        res.violation("rule %s gives a different result alone and in company on %s: alone %s, in company %s" % (
                            c["body"][:200], b.hex()[:80], json.dumps(a[bi][1])[:200], json.dumps(o)[:200]),
                            yv.save_replay("C05", "diff_%d_%s_%d" % (ci + si, c["name"], bi), {"units": s["units"], "buf": b.hex(), "alone": a[bi][1], "company": o}))
                    rec = c["rec"](o["strings"], o["verdict"], b)
                    if rec is None:
                        continue
                    records.append(rec)
                    owners.append((c["body"], b.hex(), o["strings"], o["verdict"], len(s["cases"]), ci + si))
                    res.count(1, (c["body"], b))
    judge_and_report(res, "C05", records, owners, lambda o: {"rule": o[0], "buf": o[1][:300], "strings": o[2], "verdict": o[3], "company": o[4], "set": o[5]}, wd, "c05")
    nalias = 12 if tier == "quick" else 150
    plain = sets[:len(sets) - nalias - ncrowd]; alias = sets[len(sets) - nalias - ncrowd:len(sets) - ncrowd]
    ac_pass(res, wd, [s for s in plain if s["cases"]][: (15 if tier == "quick" else 200)] + [s for s in alias if s["cases"]], tier)
    if owners:
        res.sample({"rule": owners[0][0], "compiled_with": owners[0][4], "buf": owners[0][1][:120]})
    units_check(res, r, wd, tier)
    res.cov["rule"] = ("rule sets of 4-14 cases drawn from the text/hex/regex/condition generators + noise rules sharing atoms, prefixes and suffixes with them, over 1-3 "
                       "namespaces cut into 1-3 add-source calls each, a false global rule in a foreign namespace, shuffled; every rule on every buffer judged by TLC against "
                       "its own reference semantics; plus the same namespace text cut into add-source calls / nested includes (rule table and results equal)")
    res.assumptions += ["independence is decided through compositionality of the reference semantics: each rule is judged as if alone"]


def fix_order(units):
    """keep, per namespace, the unit that carries the prelude/imports first; otherwise keep the given order"""
    first_seen = {}
    out = []
    for ns, src in units:
        out.append((ns, src))
    # move a prelude-carrying unit before the other units of its namespace
    by_ns = {}
    for i, (ns, src) in enumerate(out):
        by_ns.setdefault(ns, []).append(i)
    for ns, idxs in by_ns.items():
        pre = [i for i in idxs if "import " in out[i][1] or "rule r_true" in out[i][1]]
        if pre and pre[0] != idxs[0]:
            a, b = idxs[0], pre[0]
            out[a], out[b] = out[b], out[a]
    return out


def units_check(res, r, wd, tier):
    """(b.iii) a namespace's text distributed over source strings / include directives gives the same rule table and results"""
    n = 12 if tier == "quick" else 150
    sets = []
    for i in range(n):
        cases = [gen_case(r, 100000 + 20 * i + k) for k in range(4)]
        cases = [c for c in cases if not c["needs_prelude"]] or cases[:1]
        bodies = [c["body"] for c in cases]
        bufs = []
        for c in cases:
            bufs += c["bufs"]
        whole = {"units": [(None, "\n".join(bodies))], "cases": cases, "bufs": bufs}
        variants = [whole]
        # every cut into <= 3 consecutive sources
        for a in range(1, len(bodies)):
            variants.append({"units": [(None, "\n".join(bodies[:a])), (None, "\n".join(bodies[a:]))], "cases": cases, "bufs": bufs})
            for b in range(a + 1, len(bodies)):
                variants.append({"units": [(None, "\n".join(bodies[:a])), (None, "\n".join(bodies[a:b])), (None, "\n".join(bodies[b:]))], "cases": cases, "bufs": bufs})
        # includes, nested to depth 2
        if len(bodies) >= 2:
            inc2 = ("inc_b_%d" % i, bodies[-1])
            inc1 = ("inc_a_%d" % i, "\n".join(bodies[1:-1]) + '\ninclude "%s"\n' % inc2[0])
            variants.append({"units": [(None, bodies[0] + '\ninclude "%s"\n' % inc1[0])], "includes": [inc1, inc2], "cases": cases, "bufs": bufs})
        # the same rules one per source, padded to 20 sources, through file descriptors / files with names / strings in turn
        pad_rules = ["rule pad%d_%d { condition: false }" % (i, k) for k in range(max(0, 20 - len(bodies)))]
        for via in (["addfd"], ["addfile"], ["addfd", "add", "addfile", "addbytes"]):
            variants.append({"units": [(None, b_) for b_ in bodies + pad_rules], "cases": cases, "bufs": bufs, "via": via})
        sets.append(variants)
    flat = [v for vs in sets for v in vs]
    run, per = run_sets(res, wd, flat, "c05_units")
    if not run.complete:
        res.violation("driver did not complete (units): " + yv.crash_summary(run), yv.save_replay("C05", "crash_units", {"crash": yv.crash_summary(run)}))
        return
    k = 0
    for vs in sets:
        base = per.get(k)
        for j, v in enumerate(vs):
            p = per.get(k + j)
            res.count(1, ("units", k + j))
            # (variants may carry padding rules of their own: the rules of the base variant are compared)
            proj = lambda q: [{kk: vv for kk, vv in sc.items() if not kk[1].startswith("pad")} for sc in q["scans"]]
            if (p is None) != (base is None) or (p and base and (p["ok"] != base["ok"] or (p["ok"] and proj(p) != proj(base)))):
                res.violation("the same rule text gives different results when cut into sources/includes as %s" % json.dumps([u[1][:60] for u in v["units"]])[:300],
                              yv.save_replay("C05", "units_%d_%d" % (k, j), {"units": v["units"], "includes": v.get("includes")}))
            else:
                res.cov["traces_validated_against_impl"] += 1
        k += len(vs)
