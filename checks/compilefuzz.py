"""C07: compiling arbitrary text never crashes and every failure is diagnosed.

Grammar-aware mutants (TokenMut: every token position x deletion / duplication / truncation / swap / replacement by a token
of every class, oversize families, errors inside hex and regexp sub-parsers, nested includes) are compiled under ASan with an
error callback; every call is judged by ApiLifecycle's compile contract in TLC; a healthy bystander compiler / rule set /
scanner in the same process is re-checked; heap growth after destroying a failed compiler is a violation."""
import os, sys, json, re, time
sys.path.insert(0, os.path.join(os.path.dirname(os.path.abspath(__file__)), "..", "gen"))
import yv, condgen as cg
from checks import func, text, hexre, cond

TOKEN_RE = re.compile(r'''"(?:\\.|[^"\\])*"|/(?:\\.|[^/\\\n])+/[is]*|\{[^{}]*\}|[A-Za-z_][A-Za-z0-9_]*|\$[A-Za-z0-9_]*\*?|[#@!][A-Za-z0-9_]*|0x[0-9a-fA-F]+|\d+(?:\.\d+)?(?:KB|MB)?|\.\.|==|!=|<=|>=|<<|>>|[-+*\\%&|^~<>()\[\]:=.,]|\S''')

SEEDS = [
    'rule a : t1 t2 { meta: m = "x" n = 3 b = true strings: $a = "abc" wide nocase fullword $b = { 41 ?? [2-4] ( 42 | 43 44 ) } $c = /ab+c[0-9]{2,3}/i condition: $a and #b > 1 or for any i in (1..#c) : ( @c[i] < filesize ) }',
    'import "pe"\nglobal private rule g { condition: pe.number_of_sections > 0 and uint16(0) == 0x5A4D }\nrule r { strings: $x = "k" xor(1-3) $y = "z" base64 condition: 2 of them or any of ($x*) in (0..100) or g }',
    'rule l { strings: $a = "s" condition: for all of them : ( $ at 0 ) and for 2 i in (1, 2, 3) : ( i < 3 ) and "ab" contains "a" and 1 + 2 * 3 - 4 \\ 2 % 5 == 5 and ~1 & 3 | 4 ^ 5 << 1 >> 1 != 0 }',
    'include "inc.yar"\nrule i { condition: incrule }',
    'rule e { condition: ext_i == 3 and ext_s matches /a.c/s and not defined ext_f and ext_b }',
    'rule h { strings: $h = { 4D 5A [0-200] 50 45 ~00 ?0 } condition: $h at 0 and !h[1] > 4 and math.entropy(0, 10) > 1.0 }',
]
POOL = {
    "kw": ["rule", "strings", "condition", "meta", "and", "or", "not", "of", "them", "for", "in", "at", "all", "any", "none", "global", "private", "import",
           "include", "true", "false", "filesize", "entrypoint", "defined", "matches", "contains", "wide", "ascii", "nocase", "fullword", "xor", "base64", "uint8"],
    "punct": ["{", "}", "(", ")", "[", "]", ":", "=", "..", ",", ".", "|", "-", "*", "\\", "%", "<<", "==", "~", "$", "#", "@", "!"],
    "ident": ["x", "_", "a1", "pe", "incrule", "ext_i"],
    "num": ["0", "1", "-1", "0x10", "9223372036854775807", "9223372036854775808", "1KB", "99999999999999999999", "1.5", "07"],
    "str": ['"a"', '""', '"\\x00\\xff"', '"\\q"', '"unterminated', '"' + "A" * 300 + '"'],
    "re": ["/a/", "/(/", "/a{2,1}/", "/[z-a]/", "/a**/", "/\\/", "/a|/", "/(a|b)*?c+/", "/\\j/", "/x{1,70000}/", "/[^]/",
           "/ab\\jcd(/", "/ab\\jcd[z-a]/", "/[\\j]x{1,70000}/", "/a\\qb)/", "/\\j{2,1}/", "/\\ja**/"],
    "hex": ["{ 41 }", "{ }", "{ ?? }", "{ 41 [2-1] 42 }", "{ 41 [-] }", "{ ( 41 | ) }", "{ 4 }", "{ 41 [0x] 42 }", "{ GG }", "{ 41 ( 42 [300] 43 | 44 ) }", "{ ~?? }", "{ [1] 41 }"],
}


def tokenize(src):
    return TOKEN_RE.findall(src)


def mutants(r, seed_src, budget):
    toks = tokenize(seed_src)
    out = []
    n = len(toks)
    positions = list(range(n))
    per = max(1, budget // max(1, n))
    for i in positions:
        ms = []
        ms.append(("del", toks[:i] + toks[i + 1:]))
        ms.append(("dup", toks[:i + 1] + toks[i:]))
        ms.append(("trunc", toks[:i]))
        if i + 1 < n:
            ms.append(("swap", toks[:i] + [toks[i + 1], toks[i]] + toks[i + 2:]))
        for cls, pool in POOL.items():
            ms.append(("rep-" + cls, toks[:i] + [r.choice(pool)] + toks[i + 1:]))
            ms.append(("ins-" + cls, toks[:i] + [r.choice(pool)] + toks[i:]))
        # character-level damage inside the token (sub-parsers of strings / hex / regexps)
        t = toks[i]
        if len(t) > 2:
            j = r.randrange(len(t))
            ms.append(("chr", toks[:i] + [t[:j] + r.choice(["\\", "{", "(", "[", "?", "\x00", "\xff", "\n", "*"]) + t[j + 1:]] + toks[i + 1:]))
            ms.append(("cut", toks[:i] + [t[:j]] + toks[i + 1:]))
        if len(ms) > per:
            ms = r.sample(ms, per)
        for kind, tt in ms:
            out.append((kind + "@%d" % i, " ".join(tt)))
    return out


def oversize(r):
    o = []
    o.append(("ident-128", "rule %s { condition: true }" % ("a" * 128)))
    o.append(("ident-129", "rule %s { condition: true }" % ("a" * 129)))
    o.append(("ident-10000", "rule %s { condition: true }" % ("a" * 10000)))
    o.append(("string-ident-long", 'rule a { strings: $%s = "x" condition: any of them }' % ("s" * 200)))
    o.append(("string-8k", 'rule a { strings: $a = "%s" condition: $a }' % ("A" * 8192)))
    o.append(("string-100k", 'rule a { strings: $a = "%s" condition: $a }' % ("A" * 100000)))
    o.append(("regex-long", "rule a { strings: $a = /%s/ condition: $a }" % ("(ab|cd)" * 800)))
    o.append(("regex-nested", "rule a { strings: $a = /%sx%s/ condition: $a }" % ("(" * 300, ")" * 300)))
    o.append(("regex-repeat", "rule a { strings: $a = /a{1,32767}b{1,32767}/ condition: $a }"))
    o.append(("hex-long", "rule a { strings: $a = { %s } condition: $a }" % ("41 " * 20000)))
    o.append(("hex-alts", "rule a { strings: $a = { %s 41 %s } condition: $a }" % ("( " * 200, "| 42 ) " * 200)))
    o.append(("parens", "rule a { condition: %s1%s == 1 }" % ("(" * 3000, ")" * 3000)))
    o.append(("nots", "rule a { condition: %s true }" % ("not " * 5000)))
    for depth in (4, 5, 6, 40):
        cond_txt = "true"
        for d in range(depth):
            cond_txt = "for any i%d in (1..2) : ( %s )" % (d, cond_txt)
        o.append(("loops-%d" % depth, "rule a { condition: %s }" % cond_txt))
    for rx in ("/ab\\jcd(/", "/ab\\jcd[z-a]/", "/[\\j]x{1,70000}/", "/\\j)/"):
        o.append(("strict-escape-then-error", "rule a { strings: $a = %s condition: $a }" % rx))
        o.append(("strict-escape-then-error-matches", 'rule a { condition: "abc" matches %s }' % rx))
    # value-range boundaries inside the sub-parsers: class ranges touching 0x00 / 0xff, repeat counts, hex jumps, escapes
    for cl in ("[\\x00-\\xff]", "[a-\\xff]", "[\\xfe-\\xff]", "[^\\x00-\\xff]", "[\\xff-\\xff]", "[\\x00-\\x00]", "[\\xff]", "[^\\xff]", "[\\x7f-\\x80]", "[]-a]", "[^]-a]", "[a-]", "[\\w-\\xff]", "[z-\\xff]+"):
        o.append(("re-class-boundary", "rule a { strings: $a = /x%sy/ condition: $a }" % cl))
        o.append(("re-class-boundary-matches", 'rule a { condition: "abc" matches /%s/ }' % cl))
    for q in ("{0}", "{0,0}", "{,0}", "{32767}", "{32768}", "{0,32767}", "{32767,32767}", "{1,}", "{,1}", "{2,1}", "{65535}", "{65536}", "{4294967296}"):
        o.append(("re-repeat-boundary", "rule a { strings: $a = /ab%sc/ condition: $a }" % q))
        o.append(("re-repeat-boundary-group", "rule a { strings: $a = /a(b|cd)%se/ condition: $a }" % q))
    for j in ("[0]", "[0-0]", "[1-0]", "[0-]", "[-]", "[4294967295]", "[4294967296]", "[2-1]", "[199-200]", "[200-201]", "[0-4294967295]"):
        o.append(("hex-jump-boundary", "rule a { strings: $a = { 41 %s 42 } condition: $a }" % j))
    o.append(("int-overflow", "rule a { condition: 9223372036854775807 + 1 > 0 }"))
    o.append(("int-min-div", "rule a { condition: (-9223372036854775807 - 1) \\ -1 == 0 }"))
    o.append(("int-min-mod", "rule a { condition: (-9223372036854775807 - 1) % -1 == 0 }"))
    o.append(("int-mul-overflow", "rule a { condition: 4611686018427387904 * 4 == 0 }"))
    o.append(("shift-neg", "rule a { condition: 1 << -1 == 0 }"))
    o.append(("many-strings", "rule a { strings: %s condition: any of them }" % " ".join('$s%d = "v%d"' % (i, i) for i in range(12000))))
    o.append(("many-rules", "\n".join("rule r%d { condition: true }" % i for i in range(3000))))
    o.append(("dup-rule", "rule a { condition: true } rule a { condition: false }"))
    o.append(("dup-string", 'rule a { strings: $a = "x" $a = "y" condition: $a }'))
    o.append(("unref-string", 'rule a { strings: $a = "x" condition: true }'))
    o.append(("undefined-ident", "rule a { condition: nosuch.field == 1 }"))
    o.append(("fn-args", 'import "math"\nrule a { condition: math.entropy(' + ", ".join(["1"] * 200) + ") > 0 }"))
    # a NUL byte inside a literal of every size around the lexer's 8192-byte buffer (sources given by length, not NUL-terminated)
    for L in (100, 5000, 8180, 8190, 8200, 9000, 20000, 70000):
        for pos in (1, L // 2):
            body = "A" * pos + "\x00" + "B" * (L - pos)
            o.append(("nul-in-string-%d [bytes]" % L, 'rule a { strings: $a = "%s" condition: $a }' % body))
            o.append(("nul-in-regexp-%d [bytes]" % L, "rule a { strings: $a = /%s/ condition: $a }" % body))
            o.append(("nul-in-include-%d [bytes]" % L, 'include "%s"\nrule a { condition: true }' % body))
    o.append(("binary", "rule a \x00\x01\xfe\xff { condition: true }"))
    o.append(("utf8-bom", "\xef\xbb\xbfrule a { condition: true }"))
    o.append(("only-comment", "/* unterminated comment rule a { condition: true }"))
    o.append(("include-missing", 'include "nosuch.yar"\nrule a { condition: true }'))
    o.append(("include-self", 'include "self.yar"'))
    o.append(("include-deep", 'include "deep0.yar"'))
    return o


def illtyped(r, tier):
    """well-formed conditions with an operand of the WRONG type / kind in every position that expects a particular one: literals,
    externals, loop variables, module fields and function results of each type (the diagnosis must come from the type check, not
    from dereferencing what only a literal carries)"""
    fill = {
        "str_lit": '"abc"', "str_ext": "ext_s", "str_mod": "pe.pdb_path", "str_fn": 'tests.isum(1,2) == 3 and "x"', "flt_lit": "1.5", "flt_ext": "ext_f",
        "int_lit": "3", "int_ext": "ext_i", "int_undef": "tests.undefined.i", "bool": "true", "bool_ext": "ext_b", "regexp": "/ab+c/", "rule": "r_true",
        "str_var": "s", "int_var": "i", "neg": "-1", "big": "9223372036854775807",
    }
    templates = [
        "%s of them", "%s of ($a*)", "for %s of them : ( $ )", "%s%% of them", "%s of them in (0..10)", "%s of them at 0", "for %s i in (1..3) : ( i > 0 )",
        "$a at %s", "$a in (%s..10)", "$a in (0..%s)", "#a in (%s..9) > 0", "@a[%s] > 0", "!a[%s] > 0", "uint8(%s) > 0", "int32be(%s) > 0",
        "%s + 1 > 0", "1 - %s > 0", "%s * 2 > 0", "%s \\ 2 > 0", "%s %% 2 > 0", "%s & 1 > 0", "~%s > 0", "-%s < 0", "1 << %s > 0", "%s >> 1 >= 0",
        "%s contains \"a\"", "\"abc\" icontains %s", "%s startswith \"a\"", "%s matches /a/", "\"abc\" matches %s", "%s iequals \"a\"",
        "%s == 1", "%s < \"a\"", "%s and true", "not %s", "defined %s", "%s == %s",
        "for any k in (%s) : ( k == 1 )", "for any k in (1, %s) : ( k == 1 )", "for any k in (%s..3) : ( k == 1 )",
        "math.abs(%s) >= 0", "math.entropy(%s) >= 0.0", "hash.md5(%s, 4) == \"x\"", "math.in_range(%s, 0.0, 1.0)", "tests.length(%s) > 0",
        "pe.sections[%s].name == \"x\"", "pe.imports(%s)", "pe.imports(\"k\", %s)", "tests.string_dict[%s] == \"x\"", "tests.integer_array[%s] == 1",
    ]
    pre = 'import "pe"\nimport "tests"\nimport "math"\nimport "hash"\nrule r_true { condition: true }\n'
    out = []
    for t in templates:
        for fk, fv in fill.items():
            if tier == "quick" and r.random() < 0.55:
                continue
            body = t.replace("%s", fv) if t.count("%s") <= 1 else t % tuple([fv] * t.count("%s"))
            body = body.replace("%%", "%")
            if fk == "str_var":
                cond_txt = 'for any s in ("a", "bb") : ( %s )' % body
            elif fk == "int_var":
                cond_txt = "for any i in (1..3) : ( %s )" % body
            else:
                cond_txt = body
            out.append(("illtyped:%s@%s" % (fk, t[:18]), pre + 'rule t { strings: $a = "abc" $b = "de" condition: %s }' % cond_txt))
    return out


def c07(res, tier, seed):
    wd = yv.workdir("C07")
    m = yv.tlc("ApiLifecycle", "MC_ApiLifecycle.cfg", wd, timeout=900)
    yv.require_tlc_ok(m, "MC_ApiLifecycle.cfg") if not m["violated"] else None
    res.add_tlc("lifecycle", m)
    r = yv.rng(seed, "c07")
    exe = yv.driver("asan")
    seeds = list(SEEDS)
    for _ in range(4 if tier == "quick" else 30):
        g = cg.Gen(r, 20)
        seeds.append(cond.rule_text(cg.show(g.bool_expr(3))[0]))
        pat = [r.choice(text.SMALL_ALPHABET) for _ in range(4)]
        seeds.append('rule t { strings: $s = "%s" %s condition: #s >= 0 }' % (text.esc(pat, r), text.mods_text(text.random_mods(r))))
        txt, ast = hexre.hex_seq(r, [0x41, 0x42, 0x00], 5, 200, 2, False, 0.3)
        seeds.append("rule t { strings: $s = { %s } condition: $s }" % txt)
        txt, ast = hexre.re_top(r, 2)
        seeds.append("rule t { strings: $s = /%s/ condition: $s }" % txt)
    cases = []
    budget = 220 if tier == "quick" else 4000
    for s in seeds:
        for kind, src in mutants(r, s, budget):
            cases.append((kind, src))
    for kind, src in oversize(r):
        cases.append(("oversize:" + kind, src))
        if kind.startswith("strict-escape") or kind.startswith("re-"):
            cases.append(("oversize:" + kind + " [strict]", src))       # these families are about strict escape checking: always also with it
    for kind, src in illtyped(r, tier):
        cases.append((kind, src))
    r.shuffle(cases)
    includes = ["include inc.yar " + yv.hx(b"rule incrule { condition: true }"),
                "include self.yar " + yv.hx(b'include "self.yar"'),
                ] + ["include deep%d.yar %s" % (d, yv.hx(('include "deep%d.yar"' % (d + 1)).encode() if d < 20 else b"rule deep { condition: true }")) for d in range(21)]
    health_src = 'rule healthy { strings: $a = "needle" condition: $a }'
    records, owners = [], []
    for ci in range(0, len(cases), 400):
        part = cases[ci:ci + 400]
        lines = ["init", "opt iterlog 0"] + includes
        # bystanders created before the failing compilations
        lines += ["compiler 5", "add 5 - " + yv.hx(health_src.encode()), "compiler 6", "add 6 - " + yv.hx(health_src.encode()), "getrules 6 6", "scanner 6 6", "data 2 " + yv.hx(b"a needle"), "leakcheck"]
        for k, (kind, src) in enumerate(part):
            via = ["add", "addfile", "addfd", "addbytes"][k % 4]
            if "[bytes]" in kind:
                via = ["addbytes", "addfile", "addfd"][k % 3]
            lines += ["note c%d" % k, "compiler 0", "cdefine 0 i ext_i 3", "cdefine 0 s ext_s 616263", "cdefine 0 b ext_b 1", "cdefine 0 f ext_f 0.5"]
            if k % 3 == 0 or kind.endswith("[strict]"):
                lines.append("strict 0 1")
            lines += ["%s 0 %s %s" % (via, "-" if k % 3 else "nsx", yv.hx(src.encode("latin-1", "replace"))), "cdestroy 0"]
            if k % 25 == 24:
                lines += ["data 2 " + yv.hx(b"a needle"), "scan 6 2 mem - - -", "leakcheck"]
        lines += ["data 2 " + yv.hx(b"a needle"), "scan 6 2 mem - - -", "getrules 5 5", "scanner 5 5", "scan 5 2 mem - - -", "sdestroy 5", "rdestroy 5", "cdestroy 5", "sdestroy 6", "rdestroy 6", "cdestroy 6", "finalize"]
        run = yv.run_script(exe, lines, wd, name="c07_%d" % ci, hang=60, timeout=1800)
        cur, per, leaks, healthy = None, {}, [], []
        for e in run.events:
            if e["e"] == "Note" and e["text"].startswith("c"):
                cur = int(e["text"][1:])
            elif e["e"] == "Compile" and e.get("cid") == 0 and cur is not None:
                per[cur] = e
            elif e["e"] == "LeakCheck":
                leaks.append((cur, e["bytes"]))
            elif e["e"] == "Cb" and e.get("msg") in ("match", "nomatch") and e.get("rule") == "healthy":
                healthy.append((cur, e["msg"]))
        if not run.complete:
            k = cur if cur is not None else 0
            kind, src = part[k] if k < len(part) else ("?", "?")
            res.violation("compiling a %s mutant crashed the process: %s ; source: %s" % (kind, yv.crash_summary(run), src[:300]),
                          yv.save_replay("C07", "crash_%d_%d" % (ci, k), {"kind": kind, "source": src, "via": ["add", "addfile", "addfd", "addbytes"][k % 4], "crash": yv.crash_summary(run)}))
        for k, (kind, src) in enumerate(part):
            e = per.get(k)
            if e is None or "skipped" in e:
                continue
            errs = [d for d in e["diag"] if d["lvl"] == "error"]
            records.append({"kind": "compile", "ret": e["ret"], "errors": e["errors"], "msgs": [len(d["msg"] or "") for d in errs], "lines": [d["line"] for d in errs]})
            owners.append((kind, src, e["ret"], [d["msg"] for d in errs][:3]))
            res.count(1, src)
        for (k, msg) in healthy:
            if msg != "match":
                res.violation("the bystander scanner stopped matching after failed compilations (around case %s)" % k, yv.save_replay("C07", "bystander_%d" % ci, {"around": k}))
        for (a, x), (b, y) in zip(leaks, leaks[1:]):
            if y > x:
                lo, hi = (a or 0), (b or 0)
                res.violation("memory leaked by failed compilations between cases %s and %s of batch %d (%d bytes): kinds %s" % (lo, hi, ci, y - x, sorted({part[j][0].split("@")[0] for j in range(lo, min(hi + 1, len(part)))})[:12]),
                              yv.save_replay("C07", "leak_%d_%s" % (ci, hi), {"sources": [part[j][1] for j in range(lo, min(hi + 1, len(part)))]}))
    # several independent errors in one source, one per rule, each on a known line of its own (ApiLifecycle!ErrLinesOK)
    ERR_RULES = [   # (lines of the rule text, index of the line that carries the error)
        (["rule %s {", "  strings:", "    $a = { 01 [5-2] 02 }", "  condition:", "    $a", "}"], 2),
        (["rule %s {", "  condition:", "    nosuch_identifier_%s == 1", "}"], 2),
        (["rule %s {", "  strings:", '    $a = "x"', '    $a = "y"', "  condition:", "    $a", "}"], 3),
        (["rule %s {", "  strings:", "    $a = /ab(cd/", "  condition:", "    $a", "}"], 2),
        (["rule %s {", "  condition:", '    "a" + 1 == 2', "}"], 2),
        (["rule %s {", "  strings:", '    $a = "x" xor nocase', "  condition:", "    $a", "}"], 2),
        (["rule %s {", "  condition:", "    1 << -1 == 0", "}"], 2),
        (["rule %s {", "  strings:", "    $a = { 41 ( 42 | ) }", "  condition:", "    $a", "}"], 2),
        (["rule %s {", "  condition:", "    for any i in (1..2) : ( j == 1 )", "}"], 2),
    ]
    OK_RULE = ["rule %s {", "  strings:", '    $s = "fine"', "  condition:", "    $s", "}"]
    el_cases = []
    for k in range(40 if tier == "quick" else 400):
        n = r.choice([2, 2, 3])
        lines_, expected = [], []
        for j in range(n):
            for _ in range(r.randint(0, 3)): lines_.append("")
            if r.random() < 0.4:
                lines_ += [x.replace("%s", "ok%d_%d" % (k, j)) for x in OK_RULE]
            tmpl, idx_ = r.choice(ERR_RULES)
            expected.append(len(lines_) + idx_ + 1)
            lines_ += [x.replace("%s", "e%d_%d" % (k, j)) for x in tmpl]
        el_cases.append(("\n".join(lines_) + "\n", expected))
    lines = ["init", "opt iterlog 0"]
    for k, (src, expected) in enumerate(el_cases):
        lines += ["note c%d" % k, "compiler 0", "%s 0 - %s" % (["add", "addfile", "addfd", "addbytes"][k % 4], yv.hx(src.encode())), "cdestroy 0"]
    lines += ["finalize"]
    run = yv.run_script(exe, lines, wd, name="c07_errlines", hang=60, timeout=600)
    if not run.complete:
        res.violation("sources with several errors: %s" % yv.crash_summary(run), yv.save_replay("C07", "errlines_crash", {"crash": yv.crash_summary(run), "script": run.script_path}))
    cur = None
    for e in run.events:
        if e["e"] == "Note" and e["text"].startswith("c"): cur = int(e["text"][1:])
        elif e["e"] == "Compile" and cur is not None and "skipped" not in e:
            src, expected = el_cases[cur]
            got = [d["line"] for d in e["diag"] if d["lvl"] == "error"]
            records.append({"kind": "errlines", "expected": expected, "got": got})
            owners.append(("several-errors", src, e["ret"], ["lines reported %s, errors planted on lines %s" % (got, expected)] + [d["msg"] for d in e["diag"] if d["lvl"] == "error"][:3]))
            res.count(1, src)
    # include directives served by the library's own include callback (real files): a directory, a device, a missing file, a file
    # that fails to compile, a file that includes a directory - every failure with a message and a line, no descriptor left open
    incdir = os.path.join(wd, "incfiles"); os.makedirs(incdir, exist_ok=True)
    open(os.path.join(incdir, "good.yar"), "w").write("rule incrule { condition: true }\n")
    open(os.path.join(incdir, "bad.yar"), "w").write("rule broken { condition: }\n")
    open(os.path.join(incdir, "nested.yar"), "w").write('include "%s"\n' % incdir)
    open(os.path.join(incdir, "nested_ok.yar"), "w").write('include "good.yar"\nrule n2 { condition: incrule }\n')
    os.makedirs(os.path.join(incdir, "sub.yar"), exist_ok=True)
    inc_cases = [("include-real-good", 'include "%s/good.yar"\nrule i { condition: incrule }' % incdir, True),
                 ("include-real-nested-good", 'include "%s/nested_ok.yar"\nrule i { condition: n2 }' % incdir, True)]
    for nmk, path in (("dir", incdir), ("dir-named-like-a-file", incdir + "/sub.yar"), ("root", "/"), ("device", "/dev/null"), ("procfd", "/proc/self/fd"),
                      ("missing", incdir + "/nosuch.yar"), ("bad", incdir + "/bad.yar"), ("nested-dir", incdir + "/nested.yar"), ("empty-name", "")):
        for rep in range(3):
            inc_cases.append(("include-real-" + nmk, 'rule before { condition: true }\ninclude "%s"\nrule after { condition: true }' % path, False))
    # relative include paths of every length around the 1024-byte path buffer of the lexer (joined to the directory of a source
    # that has a file name)
    for n in (10, 500, 900, 980, 1000, 1015, 1023, 1024, 1030, 1500, 3000, 8000):
        for rep in range(4):       # through all four entry points (the case index selects it)
            inc_cases.append(("include-relative-long-%d" % n, 'rule before { condition: true }\ninclude "%s.yar"\nrule after { condition: true }' % ("d/" * (n // 2 - 2) + "x" * (n % 2)), False))
    lines = ["init", "opt iterlog 0", "opt defaultinclude 1"]
    for k, (kind, src, good) in enumerate(inc_cases * (1 if tier == "quick" else 4)):
        lines += ["note c%d" % k, "compiler 0", "%s 0 - %s" % (["add", "addfile", "addfd", "addbytes"][k % 4], yv.hx(src.encode())), "cdestroy 0"]
    lines += ["finalize"]
    run = yv.run_script(exe, lines, wd, name="c07_realinc", hang=60, timeout=600)
    if not run.complete:
        res.violation("include directives served from real files: %s" % yv.crash_summary(run), yv.save_replay("C07", "realinc", {"crash": yv.crash_summary(run), "script": run.script_path}))
    cur = None
    for e in run.events:
        if e["e"] == "Note" and e["text"].startswith("c"): cur = int(e["text"][1:])
        elif e["e"] == "Compile" and cur is not None and "skipped" not in e:
            kind, src, good = inc_cases[cur % len(inc_cases)]
            errs = [d for d in e["diag"] if d["lvl"] == "error"]
            if good and e["ret"] != 0:
                res.violation("a valid include of a real file is rejected: %s" % json.dumps(errs)[:200], yv.save_replay("C07", "realinc_good_%d" % cur, {"source": src, "diag": errs}))
            if not good:
                records.append({"kind": "compile", "ret": e["ret"], "errors": e["errors"], "msgs": [len(d["msg"] or "") for d in errs], "lines": [d["line"] for d in errs]})
                owners.append((kind, src, e["ret"], [d["msg"] for d in errs][:3]))
            res.count(1, src)
    res.cov["parts"]["includes_of_real_files"] = len(inc_cases)
    bad, known, states = func.tlc_judge2(records, wd, "c07")
    res.cov["states"] += states; res.cov["transitions"] += states
    res.cov["traces_validated_against_impl"] += len(records) - len(bad)
    for b in bad[:200]:
        kind, src, ret, msgs = owners[b]
        res.violation("compile contract broken for a %s mutant: ret=%s, error messages %s ; source %s" % (kind, ret, msgs, src[:300]),
                      yv.save_replay("C07", "contract_%d" % b, {"kind": kind, "source": src, "record": records[b]}))
    if len(bad) > 200:
        res.cov["parts"]["further_rejected_cases"] = len(bad) - 200
    rej = sum(1 for rec in records if rec.get("ret", 0) > 0)
    res.cov["distinct_nontrivial"] = rej
    res.cov["parts"]["rejected_by_compiler"] = rej
    res.cov["parts"]["accepted_by_compiler"] = len(records) - rej
    res.sample({"mutant": cases[0][0], "source": cases[0][1][:300]})
    res.sample({"mutant": cases[1][0], "source": cases[1][1][:300]})
    res.level = "exploration"
    res.cov["rule"] = ("seeds (6 hand-written rules touching every construct + generated conditions / text / hex / regex rules) x every token position x {delete, duplicate, truncate, "
                       "swap, replace/insert a token of each class (keyword, punctuation, identifier, number, string, regexp, hex), damage/cut a character inside the token} + 38 "
                       "oversize / limit / include families; compiled through add_string / add_file / add_fd / add_bytes, with and without strict escapes; non-trivial = rejected by the compiler")
    res.assumptions += ["memory safety is observed through ASan/UBSan only where a mutant reaches the faulty path (exploration level)"]
