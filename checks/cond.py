"""C04: rule conditions evaluate per the documented semantics (Cond.tla is the oracle)."""
import os, sys, json, time
sys.path.insert(0, os.path.join(os.path.dirname(os.path.abspath(__file__)), "..", "gen"))
import yv, condgen as cg
from checks import func
from checks.hexre import judge_and_report, KNOWN_TEXT

KNOWN_TEXT["D19"] = "an undefined range bound (or quantifier) of for..in gives a defined result over an empty range"
KNOWN_TEXT["D15"] = "an undefined integer in a quantifier position (N of / for N of / for N x in) behaves as `all`"

PRELUDE = ('import "tests"\nrule r_true { condition: true }\nrule r_false { condition: false }\n'
           'rule r_true2 { condition: filesize >= 0 }\n')
EXT_DEFS = ["cdefine 0 i ext_i 3", "cdefine 0 i ext_j 0", "cdefine 0 s ext_s 6162", "cdefine 0 b ext_b 1", "cdefine 0 f ext_f 0.5"]
EXT_ENV = {"ext_i": {"ty": "i", "v": 3}, "ext_j": {"ty": "i", "v": 0}, "ext_s": {"ty": "s", "v": [0x61, 0x62]}, "ext_b": {"ty": "i", "v": 1},
           "ext_f": {"ty": "f", "v": 2}, "__undef": {"ty": "u"}}
FILL = [0x20, 0x2e, 0x30, 0x31, 0x00, 0x3f, 0x0a, 0x2d]


def cond_buffer(r, maxlen=48):
    buf = b""
    for _ in range(r.randint(0, 5)):
        buf += bytes(r.choice(FILL) for _ in range(r.randint(0, 4)))
        if r.random() < 0.8:
            buf += cg.STR_TEXT[r.choice(cg.STRS)]
    buf += bytes(r.choice(FILL) for _ in range(r.randint(0, 3)))
    return buf[:maxlen]


def rule_text(cond):
    strs = " ".join('%s = "%s"' % (k, cg.STR_TEXT[k].decode()) for k in cg.STRS)
    return PRELUDE + "rule t { strings: %s condition: %s }" % (strs, cond)


def occurrences(buf, pat):
    out, i = [], buf.find(pat)
    while i >= 0:
        out.append([i, len(pat)]); i = buf.find(pat, i + 1)
    return out


def has_u32(e):
    if isinstance(e, list): return any(has_u32(x) for x in e)
    if not isinstance(e, dict): return False
    if e.get("t") == "uint" and e.get("n") == 4 and not e.get("signed"): return True
    return any(has_u32(v) for v in e.values() if isinstance(v, (dict, list)))


def static_safe(e):
    """TLC's integers are 32-bit: a `static` record is produced only for conditions whose constant sub-expressions stay far inside
    that range (not an oracle: it only keeps Cond!CTV computable; conditions with larger constants are still judged on verdicts)"""
    ok = [True]
    def ct(x):
        if isinstance(x, list):
            for y in x: ct(y)
            return None
        if not isinstance(x, dict): return None
        t = x.get("t")
        if t == "int":
            if abs(x["v"]) >= 1 << 30: ok[0] = False
            return x["v"]
        if t == "paren": return ct(x["x"])
        if t in ("neg", "bnot"):
            v = ct(x["x"]); return None if v is None else (-v if t == "neg" else ~v)
        if t == "bin":
            l, r_ = ct(x["l"]), ct(x["r"])
            if x["op"] in ("<<", ">>") and r_ is not None and r_ >= 64: return 0
            if l is None or r_ is None: return None
            try:
                if x["op"] in ("<<", ">>") and not (0 <= r_ < 64): return None
                v = {"+": l + r_, "-": l - r_, "*": l * r_, "&": l & r_, "|": l | r_, "^": l ^ r_, "<<": l << max(0, min(r_, 63)), ">>": l >> max(0, min(r_, 63))}.get(x["op"])
            except Exception:
                v = None
            if x["op"] in ("\\", "%"): v = 0 if r_ == 0 else l      # magnitude only
            if v is None or abs(v) >= 1 << 30 or abs(l) >= 1 << 30 or abs(r_) >= 1 << 30: ok[0] = False
            return v
        for k, y in x.items():
            if isinstance(y, (dict, list)): ct(y)
        return None
    ct(e)
    return ok[0]


def make_records(res, prop, groups, metas, wd, name, variant="asan"):
    records, owners = [], []
    rejected = 0
    for ci in range(0, len(groups), 300):
        run, per = func.run_rule_cases(variant, groups[ci:ci + 300], wd, "%s_%d" % (name, ci))
        if not run.complete:
            rp = yv.save_replay(prop, "crash_%s_%d" % (name, ci), {"crash": yv.crash_summary(run), "script": run.script_path})
            res.violation("driver did not complete: " + yv.crash_summary(run), rp)
            continue
        for gi in range(len(groups[ci:ci + 300])):
            g = per.get(gi)
            text, ast = metas[ci + gi][:2]
            if g is not None and g["compile"] is not None:
                # the compiler's decision as far as the static range checks go (Cond!StaticRangeReject): judged for every condition
                dtxt = json.dumps(g["compile"].get("diag", ""))
                if (g["ok"] or "range lower bound" in dtxt) and static_safe(ast):
                    records.append({"kind": "static", "ast": cg.strip_for_tla(ast), "rejected": not g["ok"]})
                    owners.append((text, "", "rejected by the compiler: " + dtxt[:200] if not g["ok"] else "accepted by the compiler", {}))
            if g is None or not g["ok"]:
                rejected += 1
                diag = json.dumps(g["compile"]["diag"])[:300] if g and g["compile"] else "?"
                res.cov["parts"].setdefault("compile_rejections", [])
                if len(res.cov["parts"]["compile_rejections"]) < 10:
                    res.cov["parts"]["compile_rejections"].append({"cond": text[:200], "diag": diag})
                continue
            for bi, b in enumerate(groups[ci + gi]["bufs"]):
                if g["rets"][bi] != 0:
                    rp = yv.save_replay(prop, "scanerr_%d_%d" % (ci + gi, bi), {"cond": text, "buf": b.hex(), "ret": g["rets"][bi]})
                    res.violation("scan of a well-typed condition failed with error %d: %s" % (g["rets"][bi], text[:200]), rp)
                    continue
                sc = g["scans"][bi]
                reported = {k: [[o, l] for o, l, kk, p in sc["t"]["strings"].get(k, [])] for k in cg.STRS}
                # the oracle evaluates the condition on the TRUE occurrences of the three literal strings in the buffer, not on the
                # lists the scan reported: a shortcut that drops matches (fixed offset of `$a at <constant>`, fast mode) must not
                # change the verdict (C12); a reported match that is not an occurrence is a violation here as well
                m = {k: occurrences(b, cg.STR_TEXT[k]) for k in cg.STRS}
                for k in cg.STRS:
                    extra = [x for x in reported[k] if x not in m[k]]
                    if extra:
                        rp = yv.save_replay(prop, "invented_%d_%d" % (ci + gi, bi), {"cond": text, "buf": b.hex(), "string": k, "reported": reported[k], "occurrences": m[k]})
                        res.violation("the scan reported matches of %s that are not occurrences of it: %s (condition %s)" % (k, extra[:4], text[:120]), rp)
                if has_u32(ast) and any(x >= 0x80 for x in b):
                    # an unsigned 32-bit read of a byte with the top bit set leaves TLC's 32-bit integers: the pair is not judged
                    res.cov["parts"]["not_judged_u32_of_high_bytes"] = res.cov["parts"].get("not_judged_u32_of_high_bytes", 0) + 1
                    continue
                env = {"buf": list(b), "filesize": len(b), "entrypoint": -1, "m": m, "ext": metas[ci + gi][2] if len(metas[ci + gi]) > 2 else EXT_ENV,
                       "rules": {"r_true": True, "r_false": False, "r_true2": True}}
                records.append({"kind": "cond", "ast": cg.strip_for_tla(ast), "env": env, "obs": sc["t"]["verdict"]})
                owners.append((text, b.hex(), sc["t"]["verdict"], m))
                res.count(1, (text, b))
    res.cov["parts"][name + "_compile_rejected"] = rejected
    return records, owners


def signed_read_cond(r, g):
    def rd(n, be, k, signed=True):
        return {"t": "uint", "n": n, "be": be, "signed": signed, "x": {"t": "bin", "op": "-", "l": {"t": "filesize"}, "r": {"t": "int", "v": k}}}
    def one():
        n = r.choice([1, 2, 2, 4, 4]); be = r.random() < 0.6; k = r.choice([8, 8, 7, 6, 5])
        e = rd(n, be, k)
        c = r.random()
        if c < 0.35: return {"t": "cmp", "op": r.choice(["<", ">=", "<=", ">"]), "l": e, "r": {"t": "int", "v": r.choice([0, 0, 1, 127, 128, 255])}}
        if c < 0.55: return {"t": "cmp", "op": r.choice(["<", "=="]), "l": {"t": "bin", "op": r.choice(["+", "-"]), "l": e, "r": {"t": "int", "v": r.choice([1, 5, 256])}}, "r": {"t": "int", "v": r.choice([0, 1, 5])}}
        if c < 0.75: return {"t": "cmp", "op": r.choice(["<", "==", "!=", ">"]), "l": e, "r": rd(n, not be, k)}
        if c < 0.9: return {"t": "cmp", "op": r.choice(["==", "<"]), "l": e, "r": rd(n, be, k, signed=False) if n < 4 else {"t": "neg", "x": {"t": "int", "v": r.choice([1, 2, 100])}}}
        return {"t": "cmp", "op": "==", "l": {"t": "bin", "op": r.choice(["\\", "%", ">>", "&"]), "l": e, "r": {"t": "int", "v": r.choice([2, 3, 7])}}, "r": {"t": "int", "v": r.choice([0, 1, 2])}}
    a = one()
    if r.random() < 0.5:
        a = {"t": r.choice(["and", "or"]), "l": a, "r": r.choice([one(), g.bool_expr(1)])}
    return a


def c04(res, tier, seed):
    r = yv.rng(seed, "c04")
    wd = yv.workdir("C04")
    n = 2000 if tier == "quick" else 20000
    groups, metas = [], []
    for i in range(n):
        bufs = [cond_buffer(r) for _ in range(4 if tier == "quick" else 6)] + [b""]
        fs = len(bufs[0])
        g = cg.Gen(r, fs)
        if i % 12 == 5:
            # signed readers on bytes with the top bit set: an 8-byte tail H s s H s s s s (H >= 0x80) - every generated unsigned
            # 32-bit read stays below 2^31 (TLC integers), the signed 8/16/32-bit reads at filesize-8 .. filesize-5 are negative
            tail = lambda: bytes([r.choice([0x80, 0xff, 0xfe, 0x9c]), r.randrange(0x40), r.randrange(0x40), r.choice([0x80, 0xff, 0xc3]),
                                  r.randrange(0x40), r.randrange(0x40), r.randrange(0x40), r.randrange(0x40)])
            bufs = [(b if len(b) >= 12 else b + b"................"[:12 - len(b)]) + tail() for b in bufs[:-1]] + [b""]
            fs = len(bufs[0])
            g = cg.Gen(r, fs)
            ast = signed_read_cond(r, g)
        else:
            ast = g.bool_expr(r.choice([1, 2, 2, 3]))
        text = cg.show(ast)[0]
        groups.append({"src": rule_text(text), "bufs": bufs, "pre": EXT_DEFS})
        metas.append((text, ast))
    # `N of <set> in (lo..hi)`: every quantifier x ranges whose lower bound is exactly where a string matches, a string matching
    # several times inside the range, fewer distinct strings in the range than the quantifier asks for
    of_bufs = [b"#1#.....#1#", b".#1#..#1#...#1#", b"#1#+2+#1#", b"#1##1#", b"...#1#.....=3=", b"+2+#1#+2+..#1#", b""]
    nof = 0
    for q in (("all", None), ("any", None), ("none", None), ("n", 1), ("n", 2), ("n", 3), ("pct", 50)):
        for lo in (0, 1, 3):
            for hi in (5, 8, 11, 14):
                for sset in (["$_a", "$_b"], ["$_a", "$_b", "$_c"], ["$_a"]):
                    if tier == "quick" and r.random() < 0.6:
                        continue
                    e = {"t": "ofin", "q": q[0], "set": list(sset), "lo": {"t": "int", "v": lo}, "hi": {"t": "int", "v": hi}}
                    if q[1] is not None: e["qv"] = {"t": "int", "v": q[1]}
                    text = cg.show(e)[0]
                    groups.append({"src": rule_text(text), "bufs": of_bufs, "pre": EXT_DEFS}); metas.append((text, e)); nof += 1
    # the same kind of conditions on data handed over as 2-3 memory blocks (cut where no occurrence of a string straddles the cut):
    # offsets, counts and ranges are about positions in the DATA, whatever block a match was found in
    blk_bufs = [b"#1#.....#1#....#1#.+2+", b"..#1#.......=3=..#1#...#1#", b"+2+#1#......#1#=3=....#1#", b"#1#............#1#"]
    nblk = 0
    def cuts_for(bb):
        occ = [o for k in cg.STRS for o in occurrences(bb, cg.STR_TEXT[k])]
        safe = [c for c in range(4, len(bb) - 3) if not any(o[0] < c < o[0] + o[1] for o in occ)]
        return safe
    for e in ([{"t": "cmp", "op": "==", "l": {"t": "scountin", "s": "$_a", "lo": {"t": "int", "v": lo}, "hi": {"t": "int", "v": hi}}, "r": {"t": "int", "v": k}}
               for lo in (0, 3, 9) for hi in (6, 12, 18, 30) for k in (1, 2, 3)] +
              [{"t": "sin", "s": "$_a", "lo": {"t": "int", "v": lo}, "hi": {"t": "int", "v": hi}} for lo in (0, 9, 14) for hi in (10, 16, 30)] +
              [{"t": "sat", "s": "$_a", "x": {"t": "int", "v": x}} for x in (0, 8, 15, 17)] +
              [{"t": "cmp", "op": "==", "l": {"t": "soff", "s": "$_a", "i": {"t": "int", "v": i}}, "r": {"t": "int", "v": v}} for i in (1, 2, 3) for v in (0, 8, 15, 17, 23)] +
              [{"t": "ofin", "q": "n", "qv": {"t": "int", "v": 2}, "set": ["$_a", "$_b", "$_c"], "lo": {"t": "int", "v": lo}, "hi": {"t": "int", "v": hi}} for lo in (0, 9) for hi in (12, 20)]):
        if tier == "quick" and r.random() < 0.5:
            continue
        bufs_, specs_ = [], []
        for bb in blk_bufs:
            cs = cuts_for(bb)
            if not cs: continue
            for _ in range(2):
                c1 = r.choice(cs)
                c2 = r.choice([c for c in cs if c > c1 + 3] or [None])
                sizes = [c1, len(bb) - c1] if c2 is None or r.random() < 0.5 else [c1, c2 - c1, len(bb) - c2]
                bufs_.append(bb); specs_.append(",".join(map(str, sizes)))
        text = cg.show(e)[0]
        groups.append({"src": rule_text(text), "bufs": bufs_, "blocks": specs_, "pre": EXT_DEFS}); metas.append((text + "  [data in several blocks]", e)); nblk += 1
    res.cov["parts"]["conditions_on_multi_block_data"] = nblk
    res.cov["parts"]["of_in_range_family"] = nof
    records, owners = make_records(res, "C04", groups, metas, wd, "c04")
    judge_and_report(res, "C04", records, owners, lambda o: {"condition": o[0], "buf": o[1], "verdict": o[2], "matches": o[3]}, wd, "c04")
    for o in owners[:4]:
        res.sample({"condition": o[0], "buf": o[1], "verdict": o[2]})
    res.cov["rule"] = ("random well-typed condition trees (depth <= 3 + loops nested <= 3) over integer arithmetic/bitwise/shift, comparisons incl. float promotion, "
                       "and/or/not/defined, string operators, $ # @ ! at in, of / of..in / of..at / of rules with all/any/none/N/N%, for..of, for..in over ranges and "
                       "enumerations, intN/uintN[be], filesize, rule references, externals of 4 types, undefined module values; printed with minimal parentheses; "
                       "each (condition, buffer) verdict judged by Cond!Verdict in TLC on the observed match lists")
    res.assumptions += ["integer magnitudes are kept below 2^22 (TLC integers are 32-bit); 64-bit wrap-around is not modelled",
                        "the oracle evaluates conditions on the true occurrences of the literal strings (computed from the buffer); reported matches must be among them"]
