"""C20: external variables are typed, scoped and isolated (Externals.tla)."""
import os, sys, json, re, time
sys.path.insert(0, os.path.join(os.path.dirname(os.path.abspath(__file__)), "..", "gen"))
import yv

VARS = {"ia": "i", "ba": "b", "sa": "s", "fa": "f"}
DOM = {"i": [0, 1, 7], "b": [True, False], "s": ["", "a", "ab"], "f": [0, 2, 8]}     # floats in quarters
RET = {0: 0, 29: 29, 48: 48, 56: 56}


def lit(ty, v):
    if ty == "i": return str(v)
    if ty == "b": return "true" if v else "false"
    if ty == "s": return '"%s"' % v
    return "%.2f" % (v / 4.0)


def observer_rules():
    out = []
    for name, ty in VARS.items():
        if ty == "b":
            out.append("rule %s_T { condition: %s }" % (name, name))
        else:
            for k, v in enumerate(DOM[ty]):
                out.append("rule %s_%d { condition: %s == %s }" % (name, k, name, lit(ty, v)))
    return "\n".join(out)


def val_arg(ty, v):
    if ty == "i": return str(v)
    if ty == "b": return "1" if v else "0"
    if ty == "s": return yv.hx(v.encode())
    return "%.2f" % (v / 4.0)


def history(r, nops):
    """-> (script lines, abstract events without results)"""
    lines, evs = [], [{"e": "Reset"}]
    lines.append("compiler 0")
    # compile-time definitions: all four variables (some twice, some attempts duplicated with another value)
    order = list(VARS.items())
    r.shuffle(order)
    for name, ty in order:
        v = r.choice(DOM[ty])
        lines.append("cdefine 0 %s %s %s" % (ty, name, val_arg(ty, v))); evs.append({"e": "CDefine", "id": name, "ty": ty, "v": v})
        if r.random() < 0.3:
            ty2 = r.choice("ibsf"); v2 = r.choice(DOM[ty2])
            lines.append("cdefine 0 %s %s %s" % (ty2, name, val_arg(ty2, v2))); evs.append({"e": "CDefine", "id": name, "ty": ty2, "v": v2})
    lines.append("add 0 - " + yv.hx(observer_rules().encode()))
    lines.append("getrules 0 0"); evs.append({"e": "GetRules"})
    lines.append("cdestroy 0")
    alive = set()
    for _ in range(nops):
        c = r.random()
        name = r.choice(list(VARS) + ["nope"])
        ty = r.choice("ibsf") if r.random() < 0.35 else VARS.get(name, "i")
        v = r.choice(DOM[ty])
        if c < 0.25:
            lines.append("rdefine 0 %s %s %s" % (ty, name, val_arg(ty, v))); evs.append({"e": "RDefine", "id": name, "ty": ty, "v": v})
        elif c < 0.4 and len(alive) < 3:
            s = min(set([1, 2, 3]) - alive); alive.add(s)
            lines.append("scanner %d 0" % s); evs.append({"e": "ScannerCreate", "s": s})
        elif c < 0.65 and alive:
            s = r.choice(sorted(alive))
            if ty in "ib" and VARS.get(name) in ("i", "b") and VARS.get(name) != ty:
                v = r.choice([0, 1]) if ty == "i" else v      # int <-> bool at scanner level: keep to 0/1
            lines.append("sdefine %d %s %s %s" % (s, ty, name, val_arg(ty, v))); evs.append({"e": "SDefine", "s": s, "id": name, "ty": ty, "v": v})
        elif c < 0.92 and alive:
            s = r.choice(sorted(alive))
            lines.append("data 1 78"); lines.append("scan %d 1 mem - - -" % s); evs.append({"e": "Scan", "s": s})
        elif alive and c < 0.97:
            s = r.choice(sorted(alive)); alive.discard(s)
            lines.append("sdestroy %d" % s); evs.append({"e": "ScannerDestroy", "s": s})
    for s in sorted(alive):
        lines.append("data 1 78"); lines.append("scan %d 1 mem - - -" % s); evs.append({"e": "Scan", "s": s})
        lines.append("sdestroy %d" % s); evs.append({"e": "ScannerDestroy", "s": s})
    lines.append("rdestroy 0")
    return lines, evs


def observed_vals(matching):
    vals = {}
    for name, ty in VARS.items():
        if ty == "b":
            vals[name] = (name + "_T") in matching
        else:
            hits = [k for k in range(len(DOM[ty])) if "%s_%d" % (name, k) in matching]
            vals[name] = DOM[ty][hits[0]] if len(hits) == 1 else "ambiguous:%s" % hits
    return vals


def c20(res, tier, seed):
    wd = yv.workdir("C20")
    m = yv.tlc("ExternalsMC", "MC_Externals.cfg", wd, timeout=1200)
    if not m["violated"]:
        yv.require_tlc_ok(m, "MC_Externals.cfg")
    res.add_tlc("externals", m)
    if m["violated"]:
        res.violation("TLC: %s in MC_Externals.cfg" % m["violated"], yv.save_replay("C20", "model", {"tlc": m["out"][-4000:]}))
    v = yv.tlc("ExternalsMC", "MC_Externals_shared.cfg", wd, timeout=600, coverage=False)
    if not (v["violated"] and "RulesTableIsolated" in v["violated"]):
        raise yv.Broken("non-vacuity run MC_Externals_shared.cfg did not violate RulesTableIsolated")
    res.cov["parts"]["nonvacuity_shared_table"] = "violated as expected"
    r = yv.rng(seed, "c20")
    nh = 150 if tier == "quick" else 3000
    exe = yv.driver("asan")
    for ci in range(0, nh, 150):
        lines = ["init", "opt iterlog 0", "opt logmatches 0"]
        hists = []
        for hi in range(min(150, nh - ci)):
            ls, evs = history(r, r.randint(6, 25))
            lines.append("note h%d" % hi)
            lines += ls
            hists.append(evs)
        lines.append("finalize")
        run = yv.run_script(exe, lines, wd, name="c20_%d" % ci)
        if not run.complete:
            res.violation("driver did not complete: " + yv.crash_summary(run), yv.save_replay("C20", "crash_%d" % ci, {"crash": yv.crash_summary(run), "script": run.script_path}))
            continue
        # join results with the abstract events
        per, cur = {}, None
        for e in run.events:
            if e["e"] == "Note" and e["text"].startswith("h"):
                cur = per.setdefault(int(e["text"][1:]), [])
            elif cur is not None:
                cur.append(e)
        records, owner = [], []
        for hi, evs in enumerate(hists):
            rets = [e for e in per.get(hi, []) if e["e"] in ("CDefine", "RDefine", "SDefine")]
            scans = []
            curm = None
            for e in per.get(hi, []):
                if e["e"] == "ScanCall": curm = set()
                elif e["e"] == "Cb" and e["msg"] == "match" and curm is not None: curm.add(e["rule"])
                elif e["e"] == "ScanRet": scans.append((e["ret"], curm)); curm = None
            ri = si = 0
            for a in evs:
                rec = dict(a)
                if a["e"] in ("CDefine", "RDefine", "SDefine"):
                    rec["ret"] = rets[ri]["ret"]; ri += 1
                elif a["e"] == "Scan":
                    ret, matching = scans[si]; si += 1
                    if ret != 0:
                        res.violation("scan failed with %d in an externals history" % ret, yv.save_replay("C20", "scanret_%d_%d" % (ci, hi), {"events": evs}))
                    rec["vals"] = observed_vals(matching or set())
                records.append(rec); owner.append(hi)
            res.count(1, json.dumps(evs, sort_keys=True, default=str))
        attempt = 0
        while records and attempt < 6:
            attempt += 1
            tp = os.path.join(wd, "c20_%d_%d.ndjson" % (ci, attempt))
            yv.write_ndjson(tp, records)
            t = yv.tlc("ExternalsTrace", "ExternalsTrace.cfg", wd, env={"TRACE": tp}, workers=1, coverage=False)
            res.cov["parts"]["trace_states"] = res.cov["parts"].get("trace_states", 0) + t["distinct"]
            if t["violated"] and "NotAccepted" in t["violated"]:
                res.cov["traces_validated_against_impl"] += len(set(owner))
                break
            mm = re.search(r'"maxl", (\d+), "of", (\d+)', t["out"])
            if t["broken"] and not t["violated"] and not mm:
                raise yv.Broken("TLC failed on ExternalsTrace:\n" + t["out"][-3000:])
            maxl = min(int(mm.group(1)) if mm else 1, len(records))
            hi = owner[maxl - 1]
            lo = owner.index(hi); hi_end = len(owner) - owner[::-1].index(hi)
            why = t["violated"] or "event %s is not a step of Externals.tla" % json.dumps(records[maxl - 1])
            res.violation(why, yv.save_replay("C20", "hist_%d_%d" % (ci, hi), {"why": why, "trace": records[lo:hi_end], "rejected_at": maxl - lo}))
            res.cov["traces_validated_against_impl"] += len(set(owner[:lo]))
            records, owner = records[hi_end:], owner[hi_end:]
        if hists:
            res.sample({"history": hists[0][:12]})
    res.cov["rule"] = ("random histories: compile-time definitions of 4 variables (one per type, duplicates attempted), get-rules, then 6-25 operations over "
                       "rule-set level defines, up to 3 scanners created / defined on / scanned / destroyed, with unknown identifiers and wrong types; every result code "
                       "and every value observed by every scan (through one rule per (variable, value)) validated against Externals.tla; distinct = distinct histories")
    res.assumptions += ["scanner-level integer and boolean definitions are interchangeable (both are integer objects) - follows the code, manual silent",
                        "NULL identifiers / values are not passed (the driver passes C strings)"]
