"""C20: external variables are typed, scoped and isolated (Externals.tla)."""
import os, sys, json, re, time
sys.path.insert(0, os.path.join(os.path.dirname(os.path.abspath(__file__)), "..", "gen"))
import yv

VARS = {"ia": "i", "ba": "b", "sa": "s", "fa": "f"}
DOM = {"i": [0, 1, 7], "b": [True, False], "s": ["", "a", "ab"], "f": [0, 2, 8]}     # floats in quarters
RET = {0: 0, 29: 29, 48: 48, 56: 56}
# the identifiers the implementation sees: each a prefix of the next, the unknown ones ("zz" in the model, "nope" in the random
# histories) a prefix of all / an extension of one (identifiers are compared as whole strings, at every level)
NAME = {"ia": "lim", "ba": "limit", "sa": "limit_hi", "fa": "l", "zz": "li", "nope": "limit_"}
def nm(i): return NAME.get(i, i)


# the integer the implementation sees for the model's integer value: 7 stands for a value that needs more than 32 bits
IVAL = {0: 0, 1: 1, 7: 4294967303}


def lit(ty, v):
    if ty == "i": return str(IVAL.get(v, v))
    if ty == "b": return "true" if v else "false"
    if ty == "s": return '"%s"' % v
    return "%.2f" % (v / 4.0)


def observer_rules():
    out = []
    for name, ty in VARS.items():
        if ty == "b":
            out.append("rule %s_T { condition: %s }" % (name, nm(name)))
        else:
            for k, v in enumerate(DOM[ty]):
                out.append("rule %s_%d { condition: %s == %s }" % (name, k, nm(name), lit(ty, v)))
            if ty == "i":      # the same value used as an `of` quantifier over strings that never match: holds exactly for 0
                out.append('rule %s_Q { strings: $q1 = "never-in-the-data-1" $q2 = "never-in-the-data-2" condition: %s of them }' % (name, nm(name)))
                # the variable in every operand position of every integer operator (a literal would compile there: so must an external)
                out.append('rule %s_OPS { condition: (%s + 1) - %s * 2 >= 0 or %s \\ 3 %% 5 == 9 or (%s & 3 | 1 ^ 2) == 99 or (1 << (%s & 7)) < 0 or (8 >> %s) < 0 or (1 << %s) == 3 or (%s << 1) < 0 or (%s >> 1) < 0 or -%s > 0 or ~%s >= 0 or true }' % ((name,) + (nm(name),) * 11))
    return "\n".join(out)


def val_arg(ty, v):
    if ty == "i": return str(IVAL.get(v, v))
    if ty == "b": return "1" if v else "0"
    if ty == "s": return yv.hx(v.encode())
    return "%.2f" % (v / 4.0)


def history(r, nops):
    """-> (script lines, abstract events without results)"""
    lines, evs = [], [{"e": "Reset"}]
    lines.append("compiler 0")
    # compile-time definitions: all four variables (some twice, some attempts duplicated with another value)
    order = list(VARS.items())
    r.shuffle(order)
    bystander = None
    for name, ty in order:
        v = r.choice(DOM[ty])
        lines.append("cdefine 0 %s %s %s" % (ty, nm(name), val_arg(ty, v))); evs.append({"e": "CDefine", "id": name, "ty": ty, "v": v})
        if ty == "s" and bystander is None:
            # a bystander the model does not have: another string external with the SAME compile-time value, never redefined
            # (identical strings share their storage in the compiled rules); it must keep that value whatever happens to the others
            bystander = v
            lines.append("cdefine 0 s by_s %s" % val_arg("s", v))
        if r.random() < 0.3:
            ty2 = r.choice("ibsf"); v2 = r.choice(DOM[ty2])
            lines.append("cdefine 0 %s %s %s" % (ty2, nm(name), val_arg(ty2, v2))); evs.append({"e": "CDefine", "id": name, "ty": ty2, "v": v2})
    by_rule = '\nrule by_T : %s { meta: m = "%s" condition: by_s == "%s" }' % ("t_" + (bystander or "none"), bystander or "", bystander or "")
    lines.append("add 0 - " + yv.hx((observer_rules() + by_rule).encode()))
    lines.append("getrules 0 0"); evs.append({"e": "GetRules"})
    lines.append("cdestroy 0")
    alive = set()
    for _ in range(nops):
        c = r.random()
        name = r.choice(list(VARS) + ["nope"])
        ty = r.choice("ibsf") if r.random() < 0.35 else VARS.get(name, "i")
        v = r.choice(DOM[ty])
        if c < 0.25:
            lines.append("rdefine 0 %s %s %s" % (ty, nm(name), val_arg(ty, v))); evs.append({"e": "RDefine", "id": name, "ty": ty, "v": v})
        elif c < 0.4 and len(alive) < 3:
            s = min(set([1, 2, 3]) - alive); alive.add(s)
            lines.append("scanner %d 0" % s); evs.append({"e": "ScannerCreate", "s": s})
        elif c < 0.65 and alive:
            s = r.choice(sorted(alive))
            if ty in "ib" and VARS.get(name) in ("i", "b") and VARS.get(name) != ty:
                v = r.choice([0, 1]) if ty == "i" else v      # int <-> bool at scanner level: keep to 0/1
            lines.append("sdefine %d %s %s %s" % (s, ty, nm(name), val_arg(ty, v))); evs.append({"e": "SDefine", "s": s, "id": name, "ty": ty, "v": v})
        elif c < 0.92 and alive:
            s = r.choice(sorted(alive))
            lines.append("data 1 78"); lines.append("scan %d 1 mem - - -" % s); evs.append({"e": "Scan", "s": s})
        elif alive and c < 0.97:
            s = r.choice(sorted(alive)); alive.discard(s)
            lines.append("sdestroy %d" % s); evs.append({"e": "ScannerDestroy", "s": s})
    for s in sorted(alive):
        lines.append("data 1 78"); lines.append("scan %d 1 mem - - -" % s); evs.append({"e": "Scan", "s": s})
        lines.append("sdestroy %d" % s); evs.append({"e": "ScannerDestroy", "s": s})
    lines.append("rdestroy 0")
    return lines, evs


def observed_vals(matching, strict=False):
    """strict: every variable is defined in the rule set; a variable that shows none of the values of its domain gets a value
    outside the model's domain (of the same type, so that TLC can compare it)"""
    vals = {}
    for name, ty in VARS.items():
        if ty == "b":
            vals[name] = (name + "_T") in matching
        else:
            hits = [k for k in range(len(DOM[ty])) if "%s_%d" % (name, k) in matching]
            vals[name] = DOM[ty][hits[0]] if len(hits) == 1 else "ambiguous:%s" % hits
            if strict and len(hits) != 1:
                vals[name] = "<no value of the domain>" if ty == "s" else -999
            if ty == "i" and len(hits) == 1 and ((name + "_Q") in matching) != (vals[name] == 0):
                vals[name] = -999      # as an `of` quantifier the variable does not behave like its value: no value of the model's domain
    if strict and "by_T" not in matching:
        vals["sa"] = "<the bystander string variable lost its compile-time value>"
    return vals


# ----------------------------------------------------------------------------- spec -> implementation (TLC-generated behaviours)
def observer_rules_for(ids):
    out = ["rule none_ { condition: true }"]
    for name in sorted(ids):
        ty = VARS[name]
        if ty == "b":
            out.append("rule %s_T { condition: %s }" % (name, nm(name)))
        else:
            for k, v in enumerate(DOM[ty]):
                out.append("rule %s_%d { condition: %s == %s }" % (name, k, nm(name), lit(ty, v)))
            if ty == "i":      # the same value used as an `of` quantifier over strings that never match: holds exactly for 0
                out.append('rule %s_Q { strings: $q1 = "never-in-the-data-1" $q2 = "never-in-the-data-2" condition: %s of them }' % (name, nm(name)))
                # the variable in every operand position of every integer operator (a literal would compile there: so must an external)
                out.append('rule %s_OPS { condition: (%s + 1) - %s * 2 >= 0 or %s \\ 3 %% 5 == 9 or (%s & 3 | 1 ^ 2) == 99 or (1 << (%s & 7)) < 0 or (8 >> %s) < 0 or (1 << %s) == 3 or (%s << 1) < 0 or (%s >> 1) < 0 or -%s > 0 or ~%s >= 0 or true }' % ((name,) + (nm(name),) * 11))
    return "\n".join(out)


def fn(x):
    """ToJson prints the empty function as []"""
    return {} if x == [] else x


def act_lines(a, cenv_ids):
    op = a["op"]
    if op == "CDefine": return ["cdefine 0 %s %s %s" % (a["ty"], nm(a["id"]), val_arg(a["ty"], a["v"]))]
    if op == "GetRules": return ["add 0 - " + yv.hx(observer_rules_for(cenv_ids).encode()), "getrules 0 0", "cdestroy 0"]
    if op == "RDefine": return ["rdefine 0 %s %s %s" % (a["ty"], nm(a["id"]), val_arg(a["ty"], a["v"]))]
    if op == "ScannerCreate": return ["scanner %d 0" % a["s"]]
    if op == "ScannerDestroy": return ["sdestroy %d" % a["s"]]
    if op == "SDefine": return ["sdefine %d %s %s %s" % (a["s"], a["ty"], nm(a["id"]), val_arg(a["ty"], a["v"]))]
    raise ValueError(op)


def replay_model(res, tier, wd, exe):
    """every transition of the ExternalsMC state graph becomes one implementation test: the shortest path to its source state,
    the action, then an observation of the whole target state (every live scanner, and the rule set through a fresh scanner)"""
    import concurrent.futures as cf
    maxops = 6 if tier == "quick" else 7
    cfgp = os.path.join(wd, "ExternalsGen_%d.cfg" % maxops)
    open(cfgp, "w").write(open(os.path.join(yv.VERIF, "spec", "ExternalsGen.cfg")).read().replace("MaxOps = 5", "MaxOps = %d" % maxops))
    t = yv.tlc("ExternalsGen", cfgp, wd, workers=1, coverage=False, timeout=1800)
    if t["violated"] or t["broken"]:
        raise yv.Broken("ExternalsGen did not complete: %s" % (t["violated"] or t["out"][-1500:]))
    edges, parent, seen_edges = [], {}, set()
    key = lambda st: json.dumps(st, sort_keys=True)
    init = None
    for ln in t["out"].split("\n"):
        if not ln.startswith('"{'):
            continue
        e = json.loads(json.loads(ln))
        kf, kt = key(e["from"]), key(e["to"])
        if init is None:
            init = kf; parent[kf] = None
        if kf not in parent:
            raise yv.Broken("ExternalsGen printed a transition from a state not reached before (TLC must run with one worker)")
        if kt not in parent:
            parent[kt] = (kf, e["act"], e["to"])
        ek = (kf, json.dumps(e["act"], sort_keys=True))
        if ek not in seen_edges:
            seen_edges.add(ek); edges.append(e)
    res.cov["parts"]["model_states"] = len(parent); res.cov["parts"]["model_transitions"] = len(edges)

    def path_to(k):
        p = []
        while parent[k] is not None:
            kf, a, st = parent[k]
            p.append((a, st)); k = kf
        return p[::-1]

    def test_lines(e):
        steps = path_to(key(e["from"])) + [(e["act"], e["to"])]
        lines, expect = ["compiler 0"], []
        cenv_ids, compiled = set(), False
        for a, st in steps:
            lines += act_lines(a, cenv_ids)
            if a["op"] == "CDefine" and st["ret"] == 0: cenv_ids.add(a["id"])
            if a["op"] == "GetRules": compiled = True
            expect.append(("ret", a["op"], st["ret"]))
        to = e["to"]
        if not compiled:          # observe the compiler's environment through a rule set made from it
            lines += act_lines({"op": "GetRules"}, cenv_ids); expect.append(("ret", "GetRules", 0))
            renv = {k: v["v"] for k, v in fn(to["cenv"]).items()}
        else:
            renv = {k: v["v"] for k, v in fn(to["renv"]).items()}
        for s_ in sorted(to["alive"]):
            lines += ["data 1 78", "scan %d 1 mem - - -" % s_]
            expect.append(("seen", s_, {k: v["v"] for k, v in fn(to["senv"][s_ - 1]).items()}))
        lines += ["scanner 3 0", "data 1 78", "scan 3 1 mem - - -", "sdestroy 3"]       # the rule set itself, through a scanner the model does not have
        expect.append(("ret", "ScannerCreate", 0)); expect.append(("seen", 3, renv))
        for s_ in sorted(to["alive"]): lines.append("sdestroy %d" % s_)
        lines += ["rdestroy 0"]
        return lines, expect

    def run_batch(bi_part):
        bi, part = bi_part
        lines, expects = ["init", "opt iterlog 0", "opt logmatches 0"], []
        for ti, e in enumerate(part):
            ls, ex = test_lines(e)
            lines.append("note t%d" % ti); lines += ls; expects.append(ex)
        lines.append("finalize")
        run = yv.run_script(exe, lines, wd, name="c20_gen_%d" % bi, timeout=900)
        per, cur = {}, None
        for ev in run.events:
            if ev["e"] == "Note" and ev["text"].startswith("t"): cur = per.setdefault(int(ev["text"][1:]), [])
            elif cur is not None: cur.append(ev)
        out = []
        for ti, (e, ex) in enumerate(zip(part, expects)):
            obs, curm, sid = [], None, None
            for ev in per.get(ti, []):
                if ev["e"] in ("CDefine", "RDefine", "SDefine", "GetRules", "ScannerCreate", "ScannerDestroy") and not (ev["e"] == "ScannerDestroy"):
                    if ev["e"] == "ScannerCreate" or "ret" in ev: obs.append(("ret", ev["e"], ev.get("ret", 0)))
                elif ev["e"] == "ScanCall": curm, sid = set(), ev["sid"]
                elif ev["e"] == "Cb" and ev["msg"] == "match" and curm is not None: curm.add(ev["rule"])
                elif ev["e"] == "ScanRet":
                    vals = observed_vals(curm or set())
                    obs.append(("seen", sid, vals)); curm = None
            # ScannerDestroy has no result code in the API: dropped from both sides
            ex2 = [x for x in ex if not (x[0] == "ret" and x[1] == "ScannerDestroy")]
            ok = len(obs) == len(ex2)
            why = None if ok else "the implementation produced %d results, the model %d" % (len(obs), len(ex2))
            if ok:
                for o, x in zip(obs, ex2):
                    if x[0] == "ret" and (o[0] != "ret" or o[1] != x[1] or o[2] != x[2]):
                        why = "%s returned %s, the model says %s" % (x[1], o[2], x[2]); break
                    if x[0] == "seen":
                        got = {k: v for k, v in o[2].items() if k in x[2]}
                        extra = {k: v for k, v in o[2].items() if k not in x[2] and not (isinstance(v, str) and v.startswith("ambiguous:[]")) and v is not False}
                        if o[0] != "seen" or o[1] != x[1] or got != x[2] or extra:
                            why = "scanner %s observes %s, the model state says %s" % (x[1], o[2], x[2]); break
            out.append((e, why))
        return run.complete, yv.crash_summary(run) if not run.complete else "", out

    parts = [(bi, edges[i:i + 250]) for bi, i in enumerate(range(0, len(edges), 250))]
    nbad = 0
    with cf.ThreadPoolExecutor(max_workers=min(16, os.cpu_count() or 4)) as ex:
        for complete, crash, out in ex.map(run_batch, parts):
            if not complete:
                res.violation("driver did not complete a batch of model-generated tests: " + crash, yv.save_replay("C20", "gen_crash", {"crash": crash}))
            for e, why in out:
                res.count(1, ("gen", json.dumps(e["act"], sort_keys=True), key(e["from"])))
                if why is None:
                    res.cov["traces_validated_against_impl"] += 1
                else:
                    nbad += 1
                    if nbad <= 10:
                        steps = [a for a, _ in path_to(key(e["from"]))] + [e["act"]]
                        res.violation("model-generated behaviour %s: %s" % (json.dumps(steps)[:300], why),
                                      yv.save_replay("C20", "gen_%d" % nbad, {"steps": steps, "model_target_state": e["to"], "why": why}))
    if edges:
        res.sample({"model_generated_test": [a for a, _ in path_to(key(edges[len(edges) // 2]["from"]))] + [edges[len(edges) // 2]["act"]]})


def c20(res, tier, seed):
    wd = yv.workdir("C20")
    m = yv.tlc("ExternalsMC", "MC_Externals.cfg", wd, timeout=1200, tier=tier)
    if not m["violated"]:
        yv.require_tlc_ok(m, "MC_Externals.cfg")
    res.add_tlc("externals", m)
    if m["violated"]:
        res.violation("TLC: %s in MC_Externals.cfg" % m["violated"], yv.save_replay("C20", "model", {"tlc": m["out"][-4000:]}))
    v = yv.tlc("ExternalsMC", "MC_Externals_shared.cfg", wd, timeout=600, coverage=False)
    if not (v["violated"] and "RulesTableIsolated" in v["violated"]):
        raise yv.Broken("non-vacuity run MC_Externals_shared.cfg did not violate RulesTableIsolated")
    res.cov["parts"]["nonvacuity_shared_table"] = "violated as expected"
    r = yv.rng(seed, "c20")
    nh = 150 if tier == "quick" else 3000
    exe = yv.driver("asan")
    for ci in range(0, nh, 150):
        lines = ["init", "opt iterlog 0", "opt logmatches 0"]
        hists = []
        for hi in range(min(150, nh - ci)):
            ls, evs = history(r, r.randint(6, 25))
            lines.append("note h%d" % hi)
            lines += ls
            hists.append(evs)
        lines.append("finalize")
        run = yv.run_script(exe, lines, wd, name="c20_%d" % ci)
        if not run.complete:
            res.violation("driver did not complete: " + yv.crash_summary(run), yv.save_replay("C20", "crash_%d" % ci, {"crash": yv.crash_summary(run), "script": run.script_path}))
            continue
        # join results with the abstract events
        per, cur = {}, None
        for e in run.events:
            if e["e"] == "Note" and e["text"].startswith("h"):
                cur = per.setdefault(int(e["text"][1:]), [])
            elif cur is not None:
                cur.append(e)
        records, owner = [], []
        for hi, evs in enumerate(hists):
            rets = [e for e in per.get(hi, []) if e["e"] in ("CDefine", "RDefine", "SDefine") and e.get("id") != "by_s"]
            scans = []
            curm = None
            for e in per.get(hi, []):
                if e["e"] == "ScanCall": curm = set()
                elif e["e"] == "Cb" and e["msg"] == "match" and curm is not None: curm.add(e["rule"])
                elif e["e"] == "ScanRet": scans.append((e["ret"], curm)); curm = None
            ri = si = 0
            for a in evs:
                rec = dict(a)
                if a["e"] in ("CDefine", "RDefine", "SDefine"):
                    rec["ret"] = rets[ri]["ret"]; ri += 1
                elif a["e"] == "Scan":
                    ret, matching = scans[si]; si += 1
                    if ret != 0:
                        res.violation("scan failed with %d in an externals history" % ret, yv.save_replay("C20", "scanret_%d_%d" % (ci, hi), {"events": evs}))
                    rec["vals"] = observed_vals(matching or set(), strict=True)
                records.append(rec); owner.append(hi)
            res.count(1, json.dumps(evs, sort_keys=True, default=str))
        attempt = 0
        while records and attempt < 6:
            attempt += 1
            tp = os.path.join(wd, "c20_%d_%d.ndjson" % (ci, attempt))
            yv.write_ndjson(tp, records)
            t = yv.tlc("ExternalsTrace", "ExternalsTrace.cfg", wd, env={"TRACE": tp}, workers=1, coverage=False)
            res.cov["parts"]["trace_states"] = res.cov["parts"].get("trace_states", 0) + t["distinct"]
            if t["violated"] and "NotAccepted" in t["violated"]:
                res.cov["traces_validated_against_impl"] += len(set(owner))
                break
            mm = re.search(r'"maxl", (\d+), "of", (\d+)', t["out"])
            if t["broken"] and not t["violated"] and not mm:
                raise yv.Broken("TLC failed on ExternalsTrace:\n" + t["out"][-3000:])
            maxl = min(int(mm.group(1)) if mm else 1, len(records))
            hi = owner[maxl - 1]
            lo = owner.index(hi); hi_end = len(owner) - owner[::-1].index(hi)
            why = t["violated"] or "event %s is not a step of Externals.tla" % json.dumps(records[maxl - 1])
            res.violation(why, yv.save_replay("C20", "hist_%d_%d" % (ci, hi), {"why": why, "trace": records[lo:hi_end], "rejected_at": maxl - lo}))
            res.cov["traces_validated_against_impl"] += len(set(owner[:lo]))
            records, owner = records[hi_end:], owner[hi_end:]
        if hists:
            res.sample({"history": hists[0][:12]})
    replay_model(res, tier, wd, exe)
    res.cov["rule"] = ("(a) spec -> implementation: every transition of the ExternalsMC state graph (MaxOps 6, thorough 7; 2 scanners; 4 identifiers; 2 values per type; right and wrong "
                       "types) printed by TLC (ExternalsGen.tla) is replayed through the API along the shortest path to its source state; every result code and the whole target state "
                       "(each live scanner, and the rule set through a fresh scanner) compared with the model state. (b) implementation -> spec: random histories: compile-time definitions of 4 variables (one per type, duplicates attempted), get-rules, then 6-25 operations over "
                       "rule-set level defines, up to 3 scanners created / defined on / scanned / destroyed, with unknown identifiers and wrong types; every result code "
                       "and every value observed by every scan (through one rule per (variable, value)) validated against Externals.tla; distinct = distinct histories")
    res.assumptions += ["scanner-level integer and boolean definitions are interchangeable (both are integer objects) - follows the code, manual silent",
                        "NULL identifiers / values are not passed (the driver passes C strings)"]
