"""C16: allocation failure anywhere is reported, never suffered (ApiLifecycle.tla is the contract).

For every scenario a counting run measures N allocations; then the k-th allocation fails (single / sticky), for every k
(sampled in the quick tier).  Every operation's result is judged by ApiLifecycle!OpOK, every run by RunOK (health check
after the faults, heap back to its baseline), a crash / sanitizer report is a violation."""
import os, sys, json, re, time
sys.path.insert(0, os.path.join(os.path.dirname(os.path.abspath(__file__)), "..", "gen"))
import yv, scangen as sg
from checks import func

OPS = {"Init": "Init", "Finalize": "Finalize", "CompilerCreate": "CompilerCreate", "CDefine": "Define", "RDefine": "Define", "SDefine": "Define",
       "Compile": "AddSource", "GetRules": "GetRules", "Save": "Save", "Load": "Load", "ScannerCreate": "ScannerCreate", "ScanRet": "Scan",
       "Config": "Config"}
HEALTH_SRC = 'rule h { strings: $a = "needle" condition: $a and filesize == 12 }'
HEALTH = ["compiler 9", "add 9 - " + yv.hx(HEALTH_SRC.encode()), "getrules 9 9", "cdestroy 9", "scanner 9 9", "data 9 " + yv.hx(b"xxneedlexxxx"),
          "scan 9 9 mem - - -", "sdestroy 9", "rdestroy 9"]


def scenarios(wd):
    pe, _ = sg.minimal_pe()
    S = {}
    S["strings"] = ["compiler 0", "add 0 - " + yv.hx(b'rule a { strings: $a = "abcdef" wide ascii nocase $b = { 41 42 [2-4] 43 ( 44 | 45 46 ) } $c = /ab+c[0-9]{1,3}x/ $d = "xy" xor(1-20) fullword '
                                                     b'$e = { 61 62 63 [300-350] 64 65 66 } condition: any of them and #a < 10 }'),
                    "getrules 0 0", "cdestroy 0", "scanner 0 0", "data 1 " + yv.hx(b"..abcdef.ABxxCD.abbc12x." + b"abc" + b"z" * 310 + b"def"), "scan 0 1 mem - - -", "sdestroy 0", "rdestroy 0"]
    S["modules"] = ["compiler 0", "add 0 - " + yv.hx(b'import "pe"\nimport "hash"\nimport "math"\nimport "tests"\nimport "elf"\nimport "dotnet"\nimport "string"\n'
                                                     b'rule m { condition: pe.number_of_sections == 1 and hash.md5(0, filesize) != "" and math.entropy(0, filesize) >= 0.0 '
                                                     b'and tests.constants.one == 1 and not elf.number_of_sections > 0 and string.length("ab") == 2 and for any s in pe.sections : ( s.raw_data_size >= 0 ) }'),
                    "getrules 0 0", "cdestroy 0", "scanner 0 0", "data 1 " + yv.hx(pe), "scan 0 1 mem - - -", "scan 0 1 file - - -", "sdestroy 0", "rdestroy 0"]
    S["externals"] = ["compiler 0", "cdefine 0 i ei 3", "cdefine 0 s es 6162", "cdefine 0 b eb 1", "cdefine 0 f ef 0.5",
                      "add 0 - " + yv.hx(b'rule e { condition: ei == 7 and es == "xyz" and eb and ef > 0.1 }'), "getrules 0 0", "cdestroy 0",
                      "rdefine 0 i ei 7", "rdefine 0 s es 78797a", "rdefine 0 s es 78797a", "scanner 0 0", "sdefine 0 s es 78797a", "sdefine 0 i ei 7",
                      "data 1 78", "scan 0 1 mem - - -", "sdestroy 0", "rdestroy 0"]
    S["includes"] = ["include inc1.yar " + yv.hx(b'include "inc2.yar"\nrule i1 { condition: i2 }'), "include inc2.yar " + yv.hx(b'rule i2 { strings: $a = "inc" condition: $a }'),
                     "compiler 0", "add 0 nsa " + yv.hx(b'include "inc1.yar"\nrule top { condition: i1 }'), "add 0 nsb " + yv.hx(b'rule other : t1 t2 { meta: a = "b" n = 1 condition: true }'),
                     "getrules 0 0", "cdestroy 0", "scanner 0 0", "data 1 " + yv.hx(b"an inc here"), "scan 0 1 mem - - -", "sdestroy 0", "rdestroy 0"]
    S["saveload"] = ["compiler 0", "add 0 - " + yv.hx(b'rule s { strings: $a = "MK1;" $b = /a[bc]+d/ condition: $a or $b }'), "getrules 0 0", "cdestroy 0",
                     "save 0 %s/f.yarc" % wd, "savestream 0 %s/g.yarc" % wd, "rdestroy 0", "load 0 %s/f.yarc" % wd, "scanner 0 0", "data 1 " + yv.hx(b"..MK1;..abbcd"),
                     "scan 0 1 mem - - -", "sdestroy 0", "rdestroy 0", "loadstream 1 %s/g.yarc" % wd, "scanner 1 1", "scan 1 1 mem - - -", "sdestroy 1", "rdestroy 1"]
    S["blocks"] = ["compiler 0", "add 0 - " + yv.hx(b'import "hash"\nrule b { strings: $a = "MK1;" condition: #a == 2 and uint16(6) == 0x4b4d and hash.sha1(2, 8) != "" and for all i in (1..#a) : ( @a[i] >= 0 ) }'),
                   "getrules 0 0", "cdestroy 0", "scanner 0 0", "data 1 " + yv.hx(b"..MK1;MK1;......"), "scan 0 1 blocks 6,4,6 1 -", "scan 0 1 blocks 16 - 1:a", "sdestroy 0", "rdestroy 0"]
    S["abandon"] = ["compiler 0", "add 0 - " + yv.hx(b'rule b { strings: $a = "MK1;" $r = /M[A-Z]1;+/ condition: #a == 2 and #r > 0 }'),
                    "getrules 0 0", "cdestroy 0", "scanner 0 0", "data 1 " + yv.hx(b"..MK1;MK1;......"),
                    "scan 0 1 blocks 6,4,6 1 - 1", "scan 0 1 mem - - -", "scan 0 1 blocks 6,4,6 2 - 1", "scan 0 1 blocks 16 - -", "scan 0 1 blocks 6,4,6 1,2 -", "sdestroy 0", "rdestroy 0"]
    S["regex_heavy"] = ["compiler 0", "add 0 - " + yv.hx(b'rule r { strings: $a = /(abc|abd|aef)[a-z]{2,5}(x|yz)+q/ $b = /[0-9a-f]{4,8}-[0-9]{2}/ wide $c = /\\bfoo\\w+bar\\b/i condition: 2 of them or ext matches /a.*b/ }'),
                        "getrules 0 0", "cdestroy 0", "scanner 0 0", "data 1 " + yv.hx(b"abcdexyzq deadbeef-12 fooXXbar " + b"".join(bytes([c, 0]) for c in b"cafe01-77")),
                        "scan 0 1 mem - - -", "sdestroy 0", "rdestroy 0"]
    S["regex_heavy"].insert(1, "cdefine 0 s ext 6161626262")
    import base64 as _b64
    enc = lambda t, i: _b64.b64encode(b"Q" * i + t + b"QQQ")        # the text at each of the three alignments, inside a longer encoding
    wide = lambda t: b"".join(bytes([c, 0]) for c in t)
    b64data = b" ".join(enc(b"This prog", i) for i in range(3)) + b" " + b" ".join(wide(enc(b"This prog", i)) for i in range(3)) + b" " + enc(b"2nd text", 1)
    S["base64"] = ["compiler 0", "add 0 - " + yv.hx(b'rule b { strings: $a = "This prog" base64 base64wide $b = "2nd text" base64 condition: #a == 6 and #b == 1 }'),
                   "getrules 0 0", "cdestroy 0", "scanner 0 0", "data 1 " + yv.hx(b64data), "scan 0 1 mem - - -", "sdestroy 0", "rdestroy 0"]
    # module FUNCTIONS (a returned object is copied for the VM) called one after the other, in a loop and before `matches`: small enough
    # for every allocation of the scan to be failed in the quick tier
    S["modcalls"] = ["compiler 0", "cdefine 0 s ext 6161626262",
                     "add 0 - " + yv.hx(b'import "math"\nimport "string"\n'
                                        b'rule f1 { condition: math.abs(-1) == 1 or string.length("ab") != 2 }\n'          # a failed first call is followed by another call
                                        b'rule f2 { condition: math.to_string(5) == "5" or math.max(1, 2) != 2 or ext matches /zz/ }\n'
                                        b'rule f3 { condition: for all i in (1..3) : ( math.min(i, 9) == i ) }\n'          # ... by the next iteration
                                        b'rule f4 { condition: string.to_int("7") == 7 or ext matches /a+b+c/ }\n'          # ... by `matches`
                                        b'rule f5 { condition: math.abs(-1) == 1 and string.length("ab") == 2 and math.max(1, 2) == 2 }'),
                     "getrules 0 0", "cdestroy 0", "scanner 0 0", "data 1 " + yv.hx(b"some data"), "scan 0 1 mem - - -", "scan 0 1 mem - - -", "sdestroy 0", "rdestroy 0"]
    S["manyrules"] = ["compiler 0", "add 0 - " + yv.hx("\n".join('rule r%d : t%d { meta: i = %d strings: $a = "K%dQ" $b = { 4B %02X ?? 51 } condition: $a or $b }' % (i, i, i, i, i) for i in range(40)).encode()),
                      "getrules 0 0", "cdestroy 0", "scanner 0 0", "data 1 " + yv.hx(b"K7Q K\x05zQ K39Q"), "scan 0 1 mem - - -", "sdestroy 0", "rdestroy 0"]
    return S


def iteration(body, k, sticky, tag):
    return ["note " + tag, "opt failsticky %d" % sticky, "opt failat %d" % k] + body + ["opt failoff 0"] + \
           ["sdestroy 0", "sdestroy 1", "rdestroy 0", "rdestroy 1", "cdestroy 0"] + HEALTH + ["leakcheck"]


def parse_iterations(events):
    out, cur = {}, None
    for e in events:
        if e["e"] == "Note":
            cur = out.setdefault(e["text"], [])
        elif cur is not None:
            cur.append(e)
    return out


def op_results(evs):
    """[(op, ret, errors, skipped, fault_seen_before_or_during)] in order, plus health verdict and heap bytes"""
    res, faulted = [], False
    pend = None
    health, heap = None, None
    ops = []
    RESULTS = []
    for e in evs:
        if e["e"] == "Fault":
            faulted = True
            if ops: ops[-1]["fault"] = True
            continue
        if e["e"] == "LeakCheck":
            heap = e["bytes"]; continue
        if e["e"] == "Cb" and e.get("sid") == 9:
            health = e["msg"]; continue
        if e.get("sid") == 9 or e.get("cid") == 9 or e.get("rid") == 9:
            continue
        if e["e"] == "Cb":
            RESULTS.append(json.dumps([e.get("sid"), e.get("msg"), e.get("rule"), e.get("strings")], sort_keys=True))
        if e["e"] in OPS:
            ops.append({"op": OPS[e["e"]], "ev": e["e"], "ret": e.get("ret", 0), "errors": e.get("errors", 0), "skipped": "skipped" in e, "fault": faulted})
    if ops: ops[0]["results"] = RESULTS       # what the callbacks of the scenario's scans reported, in order
    return ops, health, heap


def run_chunk(exe, name, body, warm, chunk, wd, idx, kf):
    """the iterations of one chunk in one process (re-started after a crash); returns (records, owners, runs, crashes)"""
    records, owners, crashes, runs = [], [], [], 0
    pending = list(chunk)
    while pending:
        lines = ["init"] + warm + ["leakcheck"]
        for (k, s) in pending:
            lines += iteration(body, k, s, "k%d_s%d" % (k, s))
        lines.append("finalize")
        run = yv.run_script(exe, lines, wd, name="c16_%s_run%d" % (name, idx), timeout=900)
        its = parse_iterations(run.events)
        heap_prev = ([e["bytes"] for e in its.get("warmup", []) if e["e"] == "LeakCheck"] or [None])[0]
        done = 0
        for (k, s) in pending:
            evs = its.get("k%d_s%d" % (k, s))
            if evs is None:
                break
            ops, health, heap = op_results(evs)
            if heap is None:
                break
            done += 1
            runs += 1
            stack = next((e["stack"] for e in evs if e["e"] == "Fault"), "")
            bops = body["_bops"]
            for i, o in enumerate(ops):
                if o["skipped"] or i >= len(bops) or bops[i]["ev"] != o["ev"]:
                    continue
                records.append({"kind": "apiop", "op": o["op"], "ret": o["ret"], "normal": bops[i]["ret"], "errors": o["errors"], "fault": o["fault"], "allowed": [1]})
                owners.append((name, k, s, o["ev"], i, stack))
            # a failure that every operation absorbed (all results as in the fault-free run) must not change what the scans report
            core = lambda L_: [x for x in L_ if x["ev"] not in ("Init", "Finalize")]      # (the last iteration of a script also sees the final yr_finalize)
            absorbed = len(core(ops)) == len(core(bops)) and all((not o["skipped"]) and o["ev"] == b_["ev"] and o["ret"] == b_["ret"] for o, b_ in zip(core(ops), core(bops)))
            same = (ops[0].get("results") == bops[0].get("results")) if ops and bops else True
            records.append({"kind": "apirun", "health": health or "none", "health_normal": body["_bhealth"] or "none", "heap_delta": heap - heap_prev,
                            "absorbed": absorbed, "same_results": same})
            owners.append((name, k, s, "run", -1, stack))
            heap_prev = heap
        if done < len(pending):
            # the process died in iteration pending[done]: a crash is a violation; the remaining iterations are re-run
            k, s = pending[done]
            evs = its.get("k%d_s%d" % (k, s), [])
            stack = next((e["stack"] for e in evs if e["e"] in ("Fault", "FaultAt")), "")
            lastop = next((e["e"] for e in reversed(evs) if e["e"] in OPS), "?")
            crashes.append((name, k, s, stack, lastop, yv.crash_summary(run)))
            runs += 1
            pending = pending[done + 1:]
        else:
            pending = []
    return records, owners, runs, crashes


class Body(list):
    """a scenario script plus what its fault-free run returned"""
    def __getitem__(self, k):
        return self.__dict__[k] if isinstance(k, str) else list.__getitem__(self, k)


def c16(res, tier, seed):
    import concurrent.futures as cf
    wd = yv.workdir("C16")
    m = yv.tlc("ApiLifecycle", "MC_ApiLifecycle.cfg", wd, timeout=900)
    yv.require_tlc_ok(m, "MC_ApiLifecycle.cfg") if not m["violated"] else None
    res.add_tlc("lifecycle", m)
    if m["violated"]:
        res.violation("TLC: %s in MC_ApiLifecycle.cfg" % m["violated"], yv.save_replay("C16", "model", {"tlc": m["out"][-3000:]}))
    r = yv.rng(seed, "c16")
    exe = yv.fault_driver("asan")
    S = scenarios(wd)
    records, owners, crashes = [], [], []
    kf = {k["id"]: k for k in yv.known_findings("C16")}
    total_runs = 0
    jobs = []
    CAP = 8000          # thorough: every k when the scenario has at most CAP allocations, else CAP sampled ones + both ends
    exhaustive = {}
    for name, body0 in S.items():
        warm = iteration(body0, 0, 0, "warmup")[:-1]      # one-time initialisations (OpenSSL, module tables) happen before the baseline is taken
        base = yv.run_script(exe, ["init"] + warm + ["leakcheck"] + iteration(body0, 0, 0, "base") + ["allocs", "finalize"], wd, name="c16_%s_base" % name)
        if not base.complete:
            raise yv.Broken("scenario %s does not run fault-free: %s" % (name, yv.crash_summary(base)))
        its = parse_iterations(base.events)
        bops, bhealth, bheap = op_results(its["base"])
        heap0 = [e["bytes"] for e in its["warmup"] if e["e"] == "LeakCheck"][0]
        if bheap != heap0:
            raise yv.Broken("scenario %s leaks without any fault (%s vs %s)" % (name, bheap, heap0))
        # allocations of the scenario body alone (the health check's are not targets)
        body_only = yv.run_script(exe, ["init", "opt failat 0"] + body0 + ["allocs", "opt failoff 0", "sdestroy 0", "sdestroy 1", "rdestroy 0", "rdestroy 1", "cdestroy 0", "finalize"], wd, name="c16_%s_cnt" % name)
        N = [e for e in body_only.events if e["e"] == "Allocs"][0]["count"]
        res.cov["parts"]["allocs_" + name] = N
        ks = list(range(1, N + 1))
        if tier == "quick" and N > 800:
            ks = sorted(set(r.sample(ks, 400) + list(range(1, 12)) + list(range(N - 8, N + 1))))
        elif tier != "quick" and N > CAP:
            ks = sorted(set(r.sample(ks, CAP) + list(range(1, 200)) + list(range(N - 200, N + 1))))
        exhaustive[name] = len(ks) == N
        # quick tier: scenarios of up to 800 allocations get every k both as a single and as a persisting failure, larger ones alternate
        plan = [(k, s) for k in ks for s in (0, 1)] if (tier != "quick" or N <= 800) else [(k, k % 2 if k > 11 else 0) for k in ks] + [(k, 1) for k in ks[:11]]
        for ci in range(0, len(plan), 40):
            jobs.append((name, warm, plan[ci:ci + 40], bops, bhealth))
    def work(j):
        idx, (name, warm, chunk, bops, bhealth) = j
        sub = os.path.join(wd, "w%d" % idx)
        os.makedirs(sub, exist_ok=True)
        body = Body(scenarios(sub)[name]); body.__dict__["_bops"] = bops; body.__dict__["_bhealth"] = bhealth
        w = iteration(list(body), 0, 0, "warmup")[:-1]
        try:
            return run_chunk(exe, name, body, w, chunk, sub, idx, kf)
        finally:
            import shutil
            shutil.rmtree(sub, ignore_errors=True)
    with cf.ThreadPoolExecutor(max_workers=min(16, os.cpu_count() or 4)) as ex:
        for recs, own, runs, cr in ex.map(work, list(enumerate(jobs))):
            records += recs; owners += own; total_runs += runs; crashes += cr
            for o in own:
                if o[3] == "run":
                    res.count(1, (o[0], o[1], o[2]))
    for (name, k, s, stack, lastop, summary) in crashes:
        sig = crash_signature(stack)
        hit = [f for f in kf.values() if f.get("crash_site") and f["crash_site"] in stack]
        if hit:
            res.known_finding(hit[0]["id"], hit[0]["what"])
        else:
            res.violation("scenario %s: failing allocation %d (%s) crashed the process after %s; allocation site %s; %s" % (name, k, "sticky" if s else "single", lastop, sig, summary),
                          yv.save_replay("C16", "crash_%s_%d_%d" % (name, k, s), {"scenario": name, "k": k, "sticky": s, "stack": stack, "crash": summary, "script": S[name]}))
    res.cov["parts"]["runs"] = total_runs
    res.cov["parts"]["every_allocation_failed"] = exhaustive
    bad, known, states = func.tlc_judge2(records, wd, "c16")
    res.cov["states"] += states; res.cov["transitions"] += states
    res.cov["traces_validated_against_impl"] += total_runs
    seen = set()
    for b in bad:
        name, k, s, ev, i, stack = owners[b]
        body = S[name]
        site = crash_signature(stack)
        site2 = site_key(stack)
        if records[b]["kind"] == "apirun":
            res.cov["parts"].setdefault("leak_sites_seen", {})
            res.cov["parts"]["leak_sites_seen"][site2] = res.cov["parts"]["leak_sites_seen"].get(site2, 0) + 1
        hit = [f for f in kf.values() if site2 in f.get("leak_sites", []) and records[b]["kind"] == "apirun" and records[b]["health"] == records[b]["health_normal"]]
        if hit:
            res.known_finding(hit[0]["id"], hit[0]["what"]); continue
        key = (name, ev, site, records[b].get("ret"), records[b].get("heap_delta"))
        if key in seen:
            continue
        seen.add(key)
        what = ("heap grew by %s bytes / health check %s%s" % (records[b]["heap_delta"], records[b]["health"], " / every operation reported success but the scans report something else than without the failure" if records[b].get("absorbed") and not records[b].get("same_results") else "")) if ev == "run" else ("%s returned %s (fault-free: %s)" % (ev, records[b]["ret"], records[b]["normal"]))
        res.violation("scenario %s, allocation %d failing (%s): %s; allocation site %s" % (name, k, "sticky" if s else "single", what, site),
                      yv.save_replay("C16", "bad_%s_%d_%d_%s" % (name, k, s, ev), {"scenario": name, "k": k, "sticky": s, "record": records[b], "stack": stack, "script": body}))
    res.sample({"scenario": "strings", "script": S["strings"][:4], "allocations": res.cov["parts"].get("allocs_strings")})
    res.level = "fault_enumeration"
    res.cov["exhaustive"] = tier != "quick" and all(exhaustive.values())
    res.cov["rule"] = ("11 scenarios (strings of every kind incl. chains; base64 / base64wide strings; chains of module function calls; 7 modules on a PE; externals at 3 levels; nested includes / namespaces / tags / metas; save+load via file "
                       "and stream; block iterator with not-ready, abort, hashing; suspended scans abandoned and followed by new scans; heavy regexes + matches; 40 rules). For each: every k in 1..N (N = allocations of the scenario; "
                       "quick: every k up to 800 allocations, else 400 sampled + first 11 + last 9, alternating single / sticky; thorough: every k up to %d allocations, else %d sampled + 200 at both ends), single and sticky failure; each operation "
                       "judged by ApiLifecycle!OpOK, each run by RunOK; distinct = (scenario, k, mode)" % (CAP, CAP))
    res.assumptions += ["allocations made by libyara through malloc/calloc/realloc/strdup/strndup are failed (incl. the flex scanners'); OpenSSL's internal allocations are not",
                        "the heap baseline is ASan's current_allocated_bytes after destroying every object; a growth is attributed to the allocation site of the injected failure"]


def site_key(stack):
    """the function that made the failing allocation and its caller (libyara frames only)"""
    fr = [f for f in stack.split("<") if f and not f.startswith("__wrap") and f not in ("yr_malloc", "yr_calloc", "yr_realloc", "yr_strdup", "yr_strndup")]
    fr = [f for f in fr if f not in ("main", "__libc_start_main", "_start", "__libc_start_call_main")]
    return "<".join(fr[:2])


def crash_signature(stack):
    fr = [f for f in stack.split("<") if f and not f.startswith("__wrap") and f not in ("yr_malloc", "yr_calloc", "yr_realloc", "yr_strdup", "yr_strndup", "main")]
    return "<".join(fr[:3])
