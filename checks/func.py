"""Shared machinery of the functional checks (C01-C04...): run (rule, buffers) cases on the driver, join the observed
match lists with the case description, have TLC judge every case against the reference semantics (FuncTrace.tla)."""
import os, sys, json, re, time, concurrent.futures as cf
sys.path.insert(0, os.path.join(os.path.dirname(os.path.abspath(__file__)), "..", "gen"))
import yv


def run_rule_cases(variant, groups, wd, name, flags=0, extra_lines_before=(), hang=60, extra_cflags=""):
    """groups: list of dict(src=rule source text (bytes/str), ns=None, bufs=[bytes...], externals=[(t,id,val)]).
    Every group is compiled alone, every buffer scanned with yr_scanner_scan_mem.
    Returns (run, per_group) where per_group[g] = dict(compile=event, scans=[{rule name: {string id: [[off,len,key,priv]]}, ...}], rets=[..])."""
    exe = yv.driver(variant, extra_cflags)
    lines = ["init", "opt iterlog 0"]
    lines += list(extra_lines_before)
    for gi, g in enumerate(groups):
        lines.append("note g%d" % gi)
        for pre in g.get("pre", ()):
            if pre.startswith("__"):
                lines.append(pre[2:])         # options that must be in force before the compiler exists
        lines.append("compiler 0")
        for pre in g.get("pre", ()):
            if not pre.startswith("__"):
                lines.append(pre)
        src = g["src"] if isinstance(g["src"], bytes) else g["src"].encode("latin-1")
        lines.append("add 0 %s %s" % (g.get("ns") or "-", yv.hx(src)))
        lines.append("getrules 0 0")
        lines.append("cdestroy 0")
        for ln in g.get("post_rules", ()):
            lines.append(ln)
        lines.append("scanner 0 0")
        for ln in g.get("post_scanner", ()):
            lines.append(ln)
        if g.get("flags", flags):
            lines.append("sflags 0 %d" % g.get("flags", flags))
        for bi, b in enumerate(g["bufs"]):
            for ln in (g.get("scan_pre") or [[]] * len(g["bufs"]))[bi]:
                lines.append(ln)
            lines.append("data 1 %s" % yv.hx(b))
            spec = (g.get("blocks") or [None] * len(g["bufs"]))[bi]        # block sizes: the buffer handed over as several memory blocks
            lines.append("scan 0 1 blocks %s - -" % spec if spec else "scan 0 1 mem - - -")
        lines.append("sdestroy 0")
        lines.append("rdestroy 0")
    lines.append("finalize")
    run = yv.run_script(exe, lines, wd, name=name, hang=hang)
    per = {}
    cur = None
    for ev in run.events:
        e = ev["e"]
        if e == "Note" and ev["text"].startswith("g"):
            cur = per.setdefault(int(ev["text"][1:]), {"compile": None, "scans": [], "rets": [], "ok": True})
        elif cur is None:
            continue
        elif e == "Compile":
            cur["compile"] = ev
            if ev["ret"] != 0:
                cur["ok"] = False
        elif e == "GetRules" and ev["ret"] != 0:
            cur["ok"] = False
        elif e == "Atom":
            cur.setdefault("atoms", []).append({"s": ev["s"], "b": ev["b"], "bt": ev["bt"]})
        elif e == "ScanCall":
            cur["scans"].append({})
            cur.setdefault("chains", []).append({})
        elif e == "ChainCb" and cur.get("chains"):
            # hook H7: one record per chain (keyed by the index of its head), the calls in the order they were made
            ch = cur["chains"][-1].setdefault(ev["head"], {"n": ev["n"], "gaps": ev["gaps"], "cbs": []})
            ch["cbs"].append({"p": ev["p"], "off": ev["off"], "len": ev["len"], "unc": ev["unc"], "conf": ev["conf"]})
        elif e == "Cb" and ev["msg"] in ("match", "nomatch") and cur["scans"]:
            strs = {}
            for s in ev.get("strings", []):       # the pieces of a chained string share its identifier
                strs.setdefault(s["id"], [])
                strs[s["id"]] = strs[s["id"]] + s["m"]      # in the order of the scanner's own list (only the head of a chain has matches)
            cur["scans"][-1][ev["rule"]] = {"verdict": ev["msg"] == "match", "strings": strs}
        elif e == "ScanRet":
            cur["rets"].append(ev["ret"])
        elif e == "RelocAudit":
            cur.setdefault("audits", []).append(ev)
    return run, per


def run_rule_cases_fiber_retry(variant, groups, wd, name, stats, **kw):
    """run_rule_cases, then: scans that ended with ERROR_TOO_MANY_RE_FIBERS (46) are repeated in a build whose fiber pool is 256
    times larger.  A case that gets a verdict there had hit the documented complexity limit of the production build - outside what
    the regexp properties quantify over - and is judged on that verdict; a case that fails there too stays an error (runaway
    fiber creation exhausts any pool: D45)."""
    run, per = run_rule_cases(variant, groups, wd, name, **kw)
    if not run.complete:
        return run, per
    hit = [gi for gi, g in per.items() if g["ok"] and 46 in g["rets"]]
    for k, gi in enumerate(hit[:40]):          # one process per case: a runaway case overflows the stack with the large pool
        run2, per2 = run_rule_cases(variant, [groups[gi]], wd, "%s_bigpool%d" % (name, k), extra_cflags="-DRE_MAX_FIBERS=262144", **{kk: v for kk, v in kw.items() if kk != "extra_cflags"})
        g, g2 = per[gi], per2.get(0)
        nhit = sum(1 for x in g["rets"] if x == 46)
        stats["fiber_limit_hit"] = stats.get("fiber_limit_hit", 0) + nhit
        if not run2.complete or g2 is None or not g2["ok"] or len(g2["rets"]) != len(g["rets"]):
            stats["still_failing_with_the_large_pool"] = stats.get("still_failing_with_the_large_pool", 0) + nhit
            continue
        for bi, ret in enumerate(g["rets"]):
            if ret == 46 and g2["rets"][bi] == 0:
                g["rets"][bi] = 0; g["scans"][bi] = g2["scans"][bi]
                stats["judged_on_the_large_pool"] = stats.get("judged_on_the_large_pool", 0) + 1
            elif ret == 46:
                stats["still_failing_with_the_large_pool"] = stats.get("still_failing_with_the_large_pool", 0) + 1
    return run, per


def tlc_judge(records, wd, name, nproc=14):
    bad, known, states = tlc_judge2(records, wd, name, nproc)
    return sorted(bad + [i for i, k in known]), states


def tlc_judge2(records, wd, name, nproc=14):
    """Judge case records with FuncTrace.tla; returns (rejected indexes, [(index, known finding id)], states)."""
    if not records:
        return [], [], 0
    nproc = max(1, min(nproc, (len(records) + 199) // 200))
    chunks = [records[i::nproc] for i in range(nproc)]
    idx = [list(range(len(records)))[i::nproc] for i in range(nproc)]

    def one(ci):
        tp = os.path.join(wd, "%s_part%d.ndjson" % (name, ci))
        yv.write_ndjson(tp, chunks[ci])
        r = yv.tlc("FuncTrace", "FuncTrace.cfg", os.path.join(wd, "tlc_%s_%d" % (name, ci)), env={"TRACE": tp}, workers=1,
                   coverage=False, xmx="3g")
        m = re.search(r'<<\s*"BAD",\s*(\{[^}]*\})\s*>>', r["out"])
        if not m:
            raise yv.Broken("FuncTrace did not finish on %s:\n%s" % (tp, r["out"][-3000:]))
        s = m.group(1).strip("{} ")
        bad = [int(x) for x in s.split(",")] if s else []
        mk = re.search(r'<<\s*"KNOWN",\s*(\{.*?\})\s*>>\s*\n', r["out"], re.S)
        known = [(idx[ci][int(a) - 1], b) for a, b in re.findall(r'<<\s*(\d+),\s*"(\w+)"\s*>>', mk.group(1))] if mk else []
        return [idx[ci][b - 1] for b in bad], known, r["distinct"]

    allbad, allknown, states = [], [], 0
    with cf.ThreadPoolExecutor(nproc) as ex:
        for bad, known, st in ex.map(one, range(nproc)):
            allbad += bad
            allknown += known
            states += st
    return sorted(allbad), sorted(allknown), states
