"""C14: hash, math and string module functions compute their definitions.

HashRange.tla decides WHICH bytes a call addresses (or that it is undefined) and models the digest cache; the digest /
statistic of the spec-addressed bytes is then computed with hashlib/zlib/math and compared with what the library
returned through console.log."""
import os, sys, json, math, hashlib, zlib, re
sys.path.insert(0, os.path.join(os.path.dirname(os.path.abspath(__file__)), "..", "gen"))
import yv
from checks import func

PRE = 'import "hash"\nimport "math"\nimport "console"\nimport "string"\n'
UNDEFR = [[-1, -1]]


def simple_range(blocks, o, l):
    """the generator's CLAIM of the addressed segments - validated by HashRange!Addressed in TLC"""
    if not blocks or o < 0 or l < 0 or o < blocks[0]["base"]:
        return UNDEFR
    off, ln, past, acc = o, l, False, []
    for b in blocks:
        inb = b["base"] <= off < b["base"] + b["size"]
        if inb:
            dl = min(ln, b["size"] - (off - b["base"]))
            acc.append([b["doff"] + (off - b["base"]), dl])
            off += dl; ln -= dl
        elif past:
            return UNDEFR
        if b["base"] + b["size"] >= off + ln:
            return acc if (past or inb) else UNDEFR
        past = past or inb
    return acc if past else UNDEFR


def esc(b):
    return "".join(chr(x) if 0x20 <= x < 0x7f and x not in (0x22, 0x5c) else "\\x%02x" % x for x in b)


def entropy(bs):
    if not bs: return 0.0
    n = len(bs); e = 0.0
    for c in set(bs):
        x = bs.count(c) / n; e -= x * math.log2(x)
    return e


def gen_call(r, n):
    """-> (expression text, descriptor)"""
    c = r.random()
    o = r.choice([0, 0, 1, 2, n - 1, n, n + 1, n - 2, -1, r.randint(0, max(0, n))])
    l = r.choice([0, 1, 2, n, n - o if n - o >= 0 else 1, n + 5, -1, r.randint(0, max(1, n))])
    if c < 0.45:
        fn = r.choice(["md5", "sha1", "sha256", "crc32", "checksum32"])
        return "hash.%s(%d, %d)" % (fn, o, l), {"fn": fn, "o": o, "l": l, "type": "s" if fn in ("md5", "sha1", "sha256") else "i", "range": True}
    if c < 0.55:
        fn = r.choice(["md5", "sha1", "sha256", "crc32", "checksum32"])
        s = bytes(r.choice([0x61, 0x00, 0xff, 0x41, 0x20]) for _ in range(r.randint(0, 6)))
        return 'hash.%s("%s")' % (fn, esc(s)), {"fn": fn, "str": list(s), "type": "s" if fn in ("md5", "sha1", "sha256") else "i", "range": False}
    if c < 0.75:
        fn = r.choice(["entropy", "mean", "count", "mode", "percentage", "deviation", "serial_correlation", "monte_carlo_pi"])
        if fn == "count":
            b = r.choice([0x61, 0x00, 0x41, 0xff])
            return "math.count(%d, %d, %d)" % (b, o, l), {"fn": "count", "byte": b, "o": o, "l": l, "type": "i", "range": True}
        if fn == "percentage":
            b = r.choice([0x61, 0x00, 0x41, 0xff])
            return "math.percentage(%d, %d, %d)" % (b, o, l), {"fn": "percentage", "byte": b, "o": o, "l": l, "type": "f", "range": True}
        if fn == "deviation":
            return "math.deviation(%d, %d, 64.0)" % (o, l), {"fn": "deviation", "mean": 64.0, "o": o, "l": l, "type": "f", "range": True}
        return "math.%s(%d, %d)" % (fn, o, l), {"fn": fn, "o": o, "l": l, "type": "i" if fn == "mode" else "f", "range": True}
    if c < 0.85:
        fn = r.choice(["min", "max", "abs", "to_number", "in_range"])
        a, b = r.randint(-5, 9), r.randint(-5, 9)
        if fn == "abs":
            if r.random() < 0.5:       # magnitudes around and above 2^31 / 2^32: the argument is a 64-bit integer
                a = r.choice([1, -1]) * r.choice([2147483647, 2147483648, 2147483649, 4294967295, 4294967296, 4294967297, 1099511627776, 9223372036854775806])
            return "math.abs(%d)" % a, {"fn": "abs", "a": a, "type": "i", "range": False}
        if fn == "to_number": return "math.to_number(%s)" % ("true" if a > 0 else "false"), {"fn": "to_number", "a": a > 0, "type": "i", "range": False}
        if fn == "in_range": return "math.in_range(%d.0, %d.0, %d.0)" % (a, min(a, b), max(a, b) + 1), {"fn": "in_range", "type": "i", "range": False}
        return "math.%s(%d, %d)" % (fn, abs(a), abs(b)), {"fn": fn, "a": abs(a), "b": abs(b), "type": "i", "range": False}
    s = r.choice(["123", "-7", "0x1f", "077", "12a", "", " 5", "9223372036854775808", "ff", "+3", "0"])
    if r.random() < 0.5:
        return 'string.to_int("%s")' % s, {"fn": "to_int", "s": s, "base": None, "type": "i", "range": False}
    base = r.choice([0, 2, 8, 10, 16, 36, 1, 37])
    if r.random() < 0.3:
        return 'string.length("%s")' % esc(s.encode()), {"fn": "length", "s": s, "type": "i", "range": False}
    return 'string.to_int("%s", %d)' % (s, base), {"fn": "to_int", "s": s, "base": base, "type": "i", "range": False}


def to_int_ref(s, base):
    """C strtoll semantics as required by string.to_int: whole string, optional sign / prefix, in range"""
    if base is not None and not (base == 0 or 2 <= base <= 36):
        return None
    b = 0 if base is None else base
    t = s.lstrip(" \t\n\v\f\r")
    m = re.match(r"([+-]?)(.*)$", t)
    sign, rest = m.group(1), m.group(2)
    if (b in (0, 16)) and rest[:2].lower() == "0x" and len(rest) > 2 and rest[2].lower() in "0123456789abcdef":
        rest, bb = rest[2:], 16
    elif b == 0 and rest[:1] == "0" and len(rest) > 1:
        rest, bb = rest[1:], 8
    else:
        bb = 10 if b == 0 else b
    if not rest: return None
    v = 0
    for ch in rest.lower():
        d = "0123456789abcdefghijklmnopqrstuvwxyz".find(ch)
        if d < 0 or d >= bb: return None
        v = v * bb + d
    v = -v if sign == "-" else v
    if not (-2**63 <= v < 2**63): return None
    return v


def reference(d, data, seg):
    """value of the function on the spec-addressed bytes (seg) / literal arguments; None = undefined"""
    fn = d["fn"]
    if d["range"]:
        if seg == UNDEFR: return None
        bs = b"".join(data[a:a + n] for a, n in seg)
    elif "str" in d:
        bs = bytes(d["str"])
    if fn == "md5": return hashlib.md5(bs).hexdigest()
    if fn == "sha1": return hashlib.sha1(bs).hexdigest()
    if fn == "sha256": return hashlib.sha256(bs).hexdigest()
    if fn == "crc32": return zlib.crc32(bs)
    if fn == "checksum32": return sum(bs) & 0xffffffff
    if fn == "entropy": return entropy(bs)
    if fn == "mean": return (sum(bs) / len(bs)) if bs else float("nan")
    if fn == "count": return bs.count(bytes([d["byte"]]))
    if fn == "percentage": return (bs.count(bytes([d["byte"]])) / len(bs)) if bs else float("nan")
    if fn == "mode":
        if not bs: return 0
        best = max(range(256), key=lambda c: (bs.count(bytes([c])), -c))
        return best
    if fn == "deviation": return (sum(abs(x - d["mean"]) for x in bs) / len(bs)) if bs else float("nan")
    if fn == "monte_carlo_pi":
        # ent's Monte Carlo estimate: consecutive groups of 6 bytes are points (x, y) with 24-bit coordinates; the value is the
        # relative error of 4 * inside / points against pi; undefined without a complete group
        if d.get("multi_block"): return "skip"       # the library restarts the grouping at every block (follows the code; not judged)
        n = len(bs) // 6
        if n == 0: return None
        inc = (256.0 ** 3 - 1) ** 2
        inside = 0
        for k in range(n):
            g = bs[6 * k:6 * k + 6]
            mx = (g[0] * 256.0 + g[1]) * 256.0 + g[2]; my = (g[3] * 256.0 + g[4]) * 256.0 + g[5]
            if mx * mx + my * my <= inc: inside += 1
        return abs((4.0 * inside / n - math.pi) / math.pi)
    if fn == "serial_correlation": return "skip"
    if fn == "min": return min(d["a"], d["b"])
    if fn == "max": return max(d["a"], d["b"])
    if fn == "abs": return abs(d["a"])
    if fn == "to_number": return 1 if d["a"] else 0
    if fn == "in_range": return "skip"
    if fn == "to_int": return to_int_ref(d["s"], d["base"])
    if fn == "length": return len(d["s"])
    return "skip"


def c14(res, tier, seed):
    wd = yv.workdir("C14")
    m = yv.tlc("HashRange", "MC_Hash.cfg", wd, timeout=900)
    if not m["violated"]:
        yv.require_tlc_ok(m, "MC_Hash.cfg")
    res.add_tlc("hash_cache", m)
    if m["violated"]:
        res.violation("TLC: %s in MC_Hash.cfg" % m["violated"], yv.save_replay("C14", "model", {"tlc": m["out"][-3000:]}))
    for cfg in ("MC_Hash_noalg.cfg", "MC_Hash_walked.cfg"):
        v = yv.tlc("HashRange", cfg, wd, timeout=300, coverage=False)
        if not (v["violated"] and "CacheCoherent" in v["violated"]):
            raise yv.Broken("non-vacuity run %s did not violate CacheCoherent" % cfg)
        res.cov["parts"]["nonvacuity_" + cfg] = "violated as expected"
    r = yv.rng(seed, "c14")
    exe = yv.driver("asan")
    nscans = 150 if tier == "quick" else 2500
    lines = ["init", "opt iterlog 0", "opt logmatches 0", "opt quietnomatch 1"]
    plans = []
    for si in range(nscans):
        n = r.choice([0, 1, 2, 4, 7, 12, 12, 33])
        grid = si < 12 * (1 if tier == "quick" else 4)
        if grid: n = r.choice([6, 12])
        if grid and si % 12 == 11: n = 30
        data = bytes(r.choice([0x61, 0x62, 0x00, 0xff, 0x41, 0x20, 0x7a, r.randrange(256)]) for _ in range(n))
        if grid and si % 12 == 11:
            # 6-byte groups = points with 24-bit coordinates: some outside the quarter circle (a coordinate starting with a byte >= 0xB5), some inside
            data = b"".join(bytes([r.choice([0xf0, 0xff, 0xc0]), r.randrange(256), r.randrange(256), r.choice([0xe0, 0xff, 0x10]), r.randrange(256), r.randrange(256)]) if r.random() < 0.5
                            else bytes([r.randrange(0x60), r.randrange(256), r.randrange(256), r.randrange(0x60), r.randrange(256), r.randrange(256)]) for _ in range(5))
        layout = r.choice(["mem", "mem", "mem", "blocks2", "blocks3", "gap"])
        if n < 3 or (grid and (si % 2 == 0 or si % 12 == 11)): layout = "mem"
        if layout == "mem":
            blocks = [{"base": 0, "size": n, "doff": 0}]; spec = None
        else:
            k = 2 if layout != "blocks3" else 3
            cuts = sorted(r.sample(range(1, n), k - 1))
            sizes = [b - a for a, b in zip([0] + cuts, cuts + [n])]
            bases, acc, doff = [], 0, 0
            blocks = []
            for i, sz in enumerate(sizes):
                base = acc + (r.choice([1, 5]) if (layout == "gap" and i > 0) else 0)
                blocks.append({"base": base, "size": sz, "doff": doff})
                acc = base + sz; doff += sz
            spec = ",".join("%d@%d" % (b["size"], b["base"]) for b in blocks)
        calls = []
        ncalls = r.randint(3, 10)
        for ci in range(ncalls):
            if calls and r.random() < 0.35:
                # re-request: the same range, the adjacent range (o+n, l-n), or the same range through another algorithm
                prev = r.choice([c for c in calls if c[1].get("range")] or calls)
                if prev[1].get("range") and prev[1]["fn"] in ("md5", "sha1", "sha256", "crc32", "checksum32"):
                    o, l = prev[1]["o"], prev[1]["l"]
                    k = r.random()
                    seg = simple_range(blocks, o, l)
                    took = sum(x[1] for x in seg) if seg != UNDEFR else 0
                    if k < 0.4: o2, l2, fn2 = o, l, prev[1]["fn"]
                    elif k < 0.7: o2, l2, fn2 = o + took, l - took, prev[1]["fn"]
                    else: o2, l2, fn2 = o, l, r.choice(["md5", "sha1", "sha256", "crc32", "checksum32"])
                    calls.append(("hash.%s(%d, %d)" % (fn2, o2, l2), {"fn": fn2, "o": o2, "l": l2, "type": "s" if fn2 in ("md5", "sha1", "sha256") else "i", "range": True}))
                    continue
            calls.append(gen_call(r, n))
        GRID_FNS = ["mean", "entropy", "deviation", "percentage", "count", "mode", "md5", "crc32", "checksum32", "sha256", "sha1", "monte_carlo_pi"]
        if grid:
            # systematic part: one function x a grid of ranges - whole buffer, clipped at the end, starting at / past the end, empty
            fn = GRID_FNS[si % len(GRID_FNS)]
            calls = []
            for (o, l) in [(0, n), (3, n), (0, n + 5), (n - 1, 2), (n, 1), (n, 0), (1, n - 1), (n - 2, 5), (0, 0), (2, 1)]:
                if fn in ("count", "percentage"):
                    b = data[0]
                    calls.append(("math.%s(%d, %d, %d)" % (fn, b, o, l), {"fn": fn, "byte": b, "o": o, "l": l, "type": "i" if fn == "count" else "f", "range": True}))
                elif fn == "deviation":
                    calls.append(("math.deviation(%d, %d, 64.0)" % (o, l), {"fn": "deviation", "mean": 64.0, "o": o, "l": l, "type": "f", "range": True}))
                elif fn in ("mean", "entropy", "mode", "monte_carlo_pi"):
                    calls.append(("math.%s(%d, %d)" % (fn, o, l), {"fn": fn, "o": o, "l": l, "type": "i" if fn == "mode" else "f", "range": True}))
                else:
                    calls.append(("hash.%s(%d, %d)" % (fn, o, l), {"fn": fn, "o": o, "l": l, "type": "s" if fn in ("md5", "sha1", "sha256") else "i", "range": True}))
        bgrid = (not grid) and si < (12 + 12) * (1 if tier == "quick" else 4)
        if bgrid:
            # systematic part for several blocks: one function x every range that starts at / next to a block start and ends at / next
            # to a block end, over blocks that touch, blocks with a gap between them, and both (the range walk of hash.c / math.c)
            n = 14
            data = bytes(r.choice([0x61, 0x62, 0x00, 0xff, 0x41, 0x20, 0x7a, r.randrange(256)]) for _ in range(n))
            layout = ["touch+gap", "gap+touch", "gap+gap"][si % 3]
            sizes = [4, 6, 4] if si % 2 else [5, 3, 6]
            gaps = {"touch+gap": [0, r.choice([1, 40])], "gap+touch": [r.choice([1, 7]), 0], "gap+gap": [3, 48]}[layout]
            blocks, acc, doff = [], r.choice([0, 0, 16]), 0
            for i, sz in enumerate(sizes):
                base = acc + (gaps[i - 1] if i else 0)
                blocks.append({"base": base, "size": sz, "doff": doff}); acc = base + sz; doff += sz
            spec = ",".join("%d@%d" % (b["size"], b["base"]) for b in blocks)
            fn = ["md5", "sha1", "sha256", "crc32", "checksum32", "mean", "entropy", "count"][si % 8]
            starts = sorted({x for b in blocks for x in (b["base"], b["base"] + 1, b["base"] + b["size"] - 1)})
            ends = sorted({x for b in blocks for x in (b["base"] + b["size"], b["base"] + b["size"] - 1, b["base"] + b["size"] + 1, b["base"] + 1)})
            calls = []
            for o in starts:
                for e in ends:
                    if e >= o and (tier != "quick" or r.random() < 0.55 or e in [b["base"] + b["size"] for b in blocks]):
                        l = e - o
                        if fn == "count":
                            calls.append(("math.count(%d, %d, %d)" % (data[0], o, l), {"fn": "count", "byte": data[0], "o": o, "l": l, "type": "i", "range": True}))
                        elif fn in ("mean", "entropy"):
                            calls.append(("math.%s(%d, %d)" % (fn, o, l), {"fn": fn, "o": o, "l": l, "type": "f", "range": True}))
                        else:
                            calls.append(("hash.%s(%d, %d)" % (fn, o, l), {"fn": fn, "o": o, "l": l, "type": "s" if fn in ("md5", "sha1", "sha256") else "i", "range": True}))
        src = PRE + "\n".join('rule c%d { condition: console.log("c%d=", %s) }' % (i, i, txt) for i, (txt, d) in enumerate(calls))
        lines += ["note s%d" % si, "compiler 0", "add 0 - " + yv.hx(src.encode("latin-1")), "getrules 0 0", "cdestroy 0", "scanner 0 0", "data 1 " + yv.hx(data)]
        lines.append("scan 0 1 %s - -" % (("blocks " + spec) if spec else "mem -"))
        if r.random() < 0.3:
            lines.append("scan 0 1 %s - -" % (("blocks " + spec) if spec else "mem -"))      # the cache must not survive the scan
        lines += ["sdestroy 0", "rdestroy 0"]
        plans.append({"data": data, "blocks": blocks, "calls": calls, "layout": layout})
    lines.append("finalize")
    run = yv.run_script(exe, lines, wd, name="c14", timeout=1500)
    if not run.complete:
        res.violation("driver did not complete: " + yv.crash_summary(run), yv.save_replay("C14", "crash", {"crash": yv.crash_summary(run), "script": run.script_path}))
        return
    per, cur = {}, None
    for e in run.events:
        if e["e"] == "Note" and e["text"].startswith("s"):
            cur = per.setdefault(int(e["text"][1:]), {"scans": [], "ok": True})
        elif cur is None: continue
        elif e["e"] == "Compile" and e["ret"] != 0:
            cur["ok"] = False; cur["diag"] = e["diag"]
        elif e["e"] == "ScanCall": cur["scans"].append({})
        elif e["e"] == "Cb" and e["msg"] == "log" and cur["scans"]:
            mm = re.match(r"c(\d+)=(.*)$", e["text"], re.S)
            if mm: cur["scans"][-1][int(mm.group(1))] = mm.group(2)
    records, owners = [], []
    for si, p in enumerate(plans):
        g = per.get(si)
        if g is None or not g["ok"]:
            raise yv.Broken("generated module rules do not compile: %s" % json.dumps(g.get("diag") if g else None)[:400])
        for sci, logs in enumerate(g["scans"]):
            for ci, (txt, d) in enumerate(p["calls"]):
                obs = logs.get(ci)      # None: the function returned undefined (console.log was not invoked)
                seg = simple_range(p["blocks"], d["o"], d["l"]) if d["range"] else None
                if d["range"]:
                    records.append({"kind": "range", "blocks": p["blocks"], "o": d["o"], "l": d["l"], "claim": seg})
                    owners.append((txt, p["data"].hex(), p["layout"], obs))
                ref = reference(dict(d, multi_block=len(p["blocks"]) > 1), p["data"], seg)
                res.count(1, (txt, p["data"], json.dumps(p["blocks"])))
                if ref == "skip":
                    continue
                ok = True
                if ref is None or (isinstance(ref, float) and math.isnan(ref)):
                    ok = obs is None or (isinstance(ref, float) and obs.strip().lower() in ("nan", "-nan"))
                elif obs is None:
                    ok = False
                elif d["type"] == "s":
                    ok = obs == ref
                elif d["type"] == "i":
                    ok = obs.strip() == str(ref)
                else:
                    try: ok = abs(float(obs) - ref) <= 1e-5
                    except ValueError: ok = False
                if not ok:
                    res.violation("%s on %s (%s, scan %d of the scanner) returned %r, definition gives %r" % (txt, p["data"].hex(), p["layout"], sci + 1, obs, ref),
                                  yv.save_replay("C14", "call_%d_%d_%d" % (si, sci, ci), {"calls": [c[0] for c in p["calls"]], "data": p["data"].hex(), "blocks": p["blocks"], "call": txt, "observed": obs, "reference": ref}))
                else:
                    res.cov["traces_validated_against_impl"] += 1
    # TLC validates every claimed range against HashRange!Addressed
    bad, known, states = func.tlc_judge2(records, wd, "c14")
    res.cov["states"] += states; res.cov["transitions"] += states
    for b in bad[:5]:
        raise yv.Broken("the generator's range claim disagrees with HashRange!Addressed: %s" % json.dumps(records[b])[:400])
    if plans:
        res.sample({"data": plans[0]["data"].hex(), "blocks": plans[0]["blocks"], "calls": [c[0] for c in plans[0]["calls"]]})
    res.cov["rule"] = ("per scan: a buffer of 0-33 bytes (single block, 2-3 contiguous blocks, blocks with gaps) and 3-10 calls of hash.*/math.*/string.* with offsets and lengths "
                       "around 0, the end and past it, negative, and re-requests of the same / adjacent ((o+n, l-n)) range through the same or another algorithm; the addressed "
                       "segments are validated by HashRange!Addressed in TLC, the value by hashlib/zlib/math on exactly those bytes; some scanners scan twice")
    res.assumptions += ["float statistics are compared with tolerance 1e-5 through console.log's %f rendering; serial_correlation / monte_carlo_pi / in_range are exercised but not judged",
                        "ranges that cross a gap between blocks are undefined (follows the code; the property speaks of one buffer)"]
