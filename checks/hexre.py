"""C02 (hex strings) and C03 (regular expressions, `matches`): ReMatch.tla is the oracle."""
import os, sys, json, time
sys.path.insert(0, os.path.join(os.path.dirname(os.path.abspath(__file__)), "..", "gen"))
import yv
from checks import func

# ----------------------------------------------------------------------------- AST helpers
def lit(b): return {"t": "lit", "b": b}
def mask(v, m, neg=False): return {"t": "mask", "v": v, "m": m, "neg": neg}
def gap(lo, hi): return {"t": "gap", "lo": lo, "hi": hi}
def cat(xs): return {"t": "cat", "xs": xs}
def alt(xs): return {"t": "alt", "xs": xs}
def rep(x, lo, hi): return {"t": "rep", "x": x, "lo": lo, "hi": hi}
def cls(s, neg=False): return {"t": "class", "set": sorted(set(s)), "neg": neg}
ANY = {"t": "any"}


EXTREME = [0x00, 0xff, 0xff, 0xfe, 0x01, 0x7f, 0x80]


def sample(r, nd, filler, stress=None):
    """a byte string the node matches (best effort: anchors/boundaries ignored)"""
    t = nd["t"]
    if t == "lit": return bytes([nd["b"]])
    # bytes under a wildcard: the extreme values of the byte range as often as ordinary filler (the engine enumerates the values
    # a wildcard inside an atom can take: _yr_atoms_expand_wildcards)
    if t == "any": return bytes([r.choice(filler) if r.random() < 0.6 else r.choice(EXTREME)])
    if t == "mask":
        for _ in range(50):
            x = r.choice(filler + [nd["v"], nd["v"] | (~nd["m"] & 0xff & r.randrange(256)), nd["v"] | (~nd["m"] & 0xff), nd["v"] | (~nd["m"] & 0xfe)] + EXTREME)
            if ((x & nd["m"]) == nd["v"]) != nd["neg"]:
                return bytes([x])
        return bytes([nd["v"] ^ (0xff if nd["neg"] else 0)])
    if t == "class":
        if not nd["neg"] and nd["set"]: return bytes([r.choice(nd["set"])])
        cand = [x for x in filler + list(range(256)) if (x in nd["set"]) == (not nd["neg"])]
        return bytes([r.choice(cand[:20] or [0])])
    if t == "gap":
        hi = nd["hi"] if nd["hi"] >= 0 else nd["lo"] + r.choice([0, 1, 3, 50])
        k = r.choice([nd["lo"], hi, (nd["lo"] + hi) // 2])
        if stress == "under": k = max(0, nd["lo"] - 1)
        if stress == "over": k = hi + 1
        return bytes(r.choice(filler) for _ in range(k))
    if t == "cat": return b"".join(sample(r, x, filler, stress) for x in nd["xs"])
    if t == "alt": return sample(r, r.choice(nd["xs"]), filler, stress)
    if t == "rep":
        hi = nd["hi"] if nd["hi"] >= 0 else nd["lo"] + r.choice([0, 1, 2, 4])
        k = r.randint(nd["lo"], hi)
        return b"".join(sample(r, nd["x"], filler, stress) for _ in range(k))
    return b""


# ----------------------------------------------------------------------------- hex strings
def hex_token(r, vals):
    c = r.random()
    b = r.choice(vals)
    if c < 0.5: return "%02X" % b, lit(b)
    if c < 0.62: return "??", mask(0, 0)
    if c < 0.72: return "%X?" % (b >> 4), mask(b & 0xf0, 0xf0)
    if c < 0.82: return "?%X" % (b & 15), mask(b & 0x0f, 0x0f)
    if c < 0.9: return "~%02X" % b, mask(b, 0xff, True)
    if c < 0.95: return "~%X?" % (b >> 4), mask(b & 0xf0, 0xf0, True)
    return "~?%X" % (b & 15), mask(b & 0x0f, 0x0f, True)


def hex_jump(r, thresh, inside_alt, chain_prob):
    if not inside_alt and r.random() < chain_prob:
        T = thresh
        k = r.random()
        if k < 0.25: lo = hi = r.choice([T + 1, T + 2])
        elif k < 0.5: lo, hi = r.choice([0, 1, T - 1]), r.choice([T + 1, T + 3])
        elif k < 0.7: lo, hi = r.choice([T + 1, T]), -1
        elif k < 0.85: lo, hi = 0, -1
        else: lo, hi = r.choice([T, T + 1]), T + r.choice([1, 2, 5])
    else:
        T = thresh
        k = r.random()
        if k < 0.3: lo = hi = r.choice([1, 2, 3] if T < 10 else [1, 2, 3, 5, 16])
        elif k < 0.8:
            lo = r.choice([0, 1, 2]); hi = lo + r.choice([0, 1, 2] if T < 10 else [1, 2, 3, 10])
            hi = min(hi, T)
        elif k < 0.9 and not inside_alt: lo, hi = r.choice([0, 1, 2]), -1   # [n-]: unbounded is always chained
        else: lo, hi = min(T, r.choice([T - 1, T])), T                      # right at the threshold: not chained
        if lo > hi >= 0: lo = hi
    if lo == hi:
        if lo <= 0: lo = hi = 1
        txt = "[%d]" % lo
    elif hi < 0:
        txt = "[%d-]" % lo if (lo or r.random() < 0.5) else "[-]"
    else:
        txt = "[%d-%d]" % (lo, hi)
    node = mask(0, 0) if (lo == hi == 1) else gap(lo, hi)
    return txt, node


def hex_seq(r, vals, n, thresh, depth, inside_alt, chain_prob):
    toks, nodes = [], []
    for i in range(n):
        c = r.random()
        first_last = i == 0 or i == n - 1
        if c < 0.18 and not first_last and nodes and nodes[-1]["t"] != "gap" and not toks[-1].startswith("["):
            t, nd = hex_jump(r, thresh, inside_alt, chain_prob)
        elif c < 0.28 and depth > 0 and n > 1:
            k = r.randint(2, 3)
            branches = [hex_seq(r, vals, r.randint(1, 3), thresh, depth - 1, True, 0) for _ in range(k)]
            t = "( " + " | ".join(b[0] for b in branches) + " )"
            nd = alt([b[1] for b in branches])
        else:
            t, nd = hex_token(r, vals)
        toks.append(t); nodes.append(nd)
    return " ".join(toks), (cat(nodes) if len(nodes) != 1 else nodes[0])


def plant_buffer(r, ast, filler, maxlen, n=None):
    buf = b""
    n = r.randint(0, 4) if n is None else n
    for _ in range(n):
        buf += bytes(r.choice(filler) for _ in range(r.randint(0, 3)))
        s = sample(r, ast, filler, r.choice([None, None, None, "under", "over"]))
        c = r.random()
        if c < 0.15 and len(s) > 1: s = s[:-1]
        elif c < 0.3 and len(s) > 0:
            i = r.randrange(len(s)); s = s[:i] + bytes([r.choice(filler)]) + s[i + 1:]
        elif c < 0.4 and len(s) > 1:
            s = s + s[r.randint(1, len(s) - 1):]
        buf += s
    buf += bytes(r.choice(filler) for _ in range(r.randint(0, 2)))
    return buf[:maxlen]


def judge_and_report(res, prop, records, owners, describe, wd, name):
    t0 = time.time()
    bad, known, states = func.tlc_judge2(records, wd, name)
    res.cov["parts"][name + "_tlc_wall_s"] = round(time.time() - t0, 1)
    res.cov["states"] += states
    res.cov["transitions"] += states
    res.cov["traces_validated_against_impl"] += len(records) - len(bad)
    kf = {k["id"] for k in yv.all_known_findings()}
    for idx, fid in known:
        if fid in kf:
            res.known_finding(fid, KNOWN_TEXT[fid])
        else:
            bad.append(idx)
    for b in sorted(bad)[:200]:
        rp = yv.save_replay(prop, "%s_case_%d" % (name, b), {"case": describe(owners[b]), "record": records[b]})
        res.violation("observation is not what the reference semantics allows: %s" % json.dumps(describe(owners[b]))[:600], rp)
    if len(bad) > 200:
        res.cov["parts"][name + "_further_rejected_cases"] = len(bad) - 200


KNOWN_TEXT = {
    "D12": "chained string with a variable-length piece misses occurrences (unconfirmed-match pruning / first length only)",
    "D17": "fullword regular expression: only the engine's preferred match length is tested against the word boundaries",
    "D14": "zero-length matches of an expression that can match the empty string are reported",
    "D47": "counted repeat with an unbounded maximum over a body that can match the empty string: endless fiber creation, every scan ends with ERROR_TOO_MANY_RE_FIBERS",
    "D40": "counted repeat {n,m} (m >= 3 or unbounded) over a body that can match the empty string loses matches: (a*){3,6} never matches",
}


def c02(res, tier, seed):
    r = yv.rng(seed, "c02")
    wd = yv.workdir("C02")
    # the chain confirmation algorithm as built (Chain.tla): sound for every order of the callbacks, complete for the orders it relies on
    for cfg in ("MC_Chain.cfg", "MC_Chain3.cfg", "MC_Chain3_orderly.cfg", "MC_Chain4_orderly.cfg"):
        m = yv.tlc("ChainMC", cfg, wd, timeout=1500, coverage=False, tier=tier)
        if m["violated"]:
            res.violation("TLC: %s in %s" % (m["violated"], cfg), yv.save_replay("C02", "model_" + cfg, {"tlc": m["out"][-4000:]}))
        else:
            yv.require_tlc_ok(m, cfg)
        res.add_tlc("chain_" + cfg.split(".")[0], m)
    for cfg, inv in (("MC_Chain_D12.cfg", "CompleteA2A3"), ("MC_Chain_D13.cfg", "CompleteA1A2")):
        v = yv.tlc("ChainMC", cfg, wd, timeout=600, coverage=False)
        if not (v["violated"] and inv in v["violated"]):
            raise yv.Broken("non-vacuity run %s did not violate %s" % (cfg, inv))
        res.cov["parts"]["nonvacuity_" + cfg] = "violated as expected (%s: the algorithm as built is incomplete without this assumption on the order of the callbacks)" % inv
    for variant, thresh, npat, maxbuf in (("chain4", 4, 300 if tier == "quick" else 4000, 40),
                                          ("asan", 200, 120 if tier == "quick" else 1500, 700)):
        groups, metas = [], []
        for pi in range(npat):
            vals = r.sample([0x41, 0x42, 0x61, 0x00, 0x0a, 0xff, 0x10, 0x1f], 3)
            chainy = r.random() < (0.5 if variant == "small" else 0.6)
            if r.random() < 0.25:     # runs of bytes and wildcards without jumps: atom window selection / trimming
                toks = []
                for _ in range(r.randint(5, 10)):
                    c = r.random()
                    b = r.choice(vals + [0x11, 0x22, 0x33])
                    toks.append(("%02X" % b, lit(b)) if c < 0.65 else (("??", mask(0, 0)) if c < 0.9 else hex_token(r, vals)))
                txt, ast = " ".join(t[0] for t in toks), cat([t[1] for t in toks])
            else:
                txt, ast = hex_seq(r, vals, r.randint(2, 7), thresh, 2, False, 0.6 if chainy else 0.0)
            src = "rule t { strings: $s = { %s } condition: #s >= 0 }" % txt
            filler = vals + [0x0a, 0x7a]
            nb = 10 if tier == "quick" else 24
            bufs = [plant_buffer(r, ast, filler, maxbuf) for _ in range(nb)] + [b"", sample(r, ast, filler)[:maxbuf]]
            groups.append({"src": src, "bufs": bufs})
            metas.append((txt, ast))
        # chains of three and more fixed-length pieces with several candidate heads / middles / tails at distances around the bounds
        for pi in range(max(12, npat // 8)):
            npieces = r.choice([3, 3, 4])
            lits = r.sample([0x11, 0x22, 0x33, 0x44, 0x55, 0x66, 0x77, 0x88, 0x99, 0xaa, 0xbb, 0xcc], 2 * npieces)
            pieces = [[lits[2 * k], lits[2 * k + 1]] + ([r.choice(lits)] if r.random() < 0.5 else []) for k in range(npieces)]
            jumps = []
            for k in range(npieces - 1):
                lo = r.choice([0, 1, thresh - 1]); hi = thresh + r.choice([1, 2, 4, 30 if thresh > 10 else 3])
                jumps.append((lo, hi))
            toks, nodes = [], []
            for k, pc in enumerate(pieces):
                toks += ["%02X" % b for b in pc]; nodes += [lit(b) for b in pc]
                if k < npieces - 1:
                    toks.append("[%d-%d]" % jumps[k]); nodes.append(gap(*jumps[k]))
            txt, ast = " ".join(toks), cat(nodes)
            src = "rule t { strings: $s = { %s } condition: #s >= 0 }" % txt
            bufs = []
            for _ in range(8):
                b = bytes(r.choice([0x00, 0x7a]) for _ in range(r.randint(0, 3)))
                for k, pc in enumerate(pieces):
                    reps = r.choice([1, 1, 2, 2, 3])          # several candidates for this piece
                    for q in range(reps):
                        b += bytes(pc)
                        lo, hi = jumps[min(k, npieces - 2)]
                        d = r.choice([lo, hi, hi + 1, max(0, lo - 1), (lo + hi) // 2, hi - len(pc), hi + len(pc)])
                        b += bytes(0x7a for _ in range(max(0, d)))
                bufs.append(b[:maxbuf * 3])
            groups.append({"src": src, "bufs": bufs})
            metas.append((txt, ast))
        records, owners = [], []
        skipped = 0
        scan_errors = {}
        nchain = ncb = 0
        vals_of = {}
        for ci in range(0, len(groups), 400):
            run, per = func.run_rule_cases("asan", groups[ci:ci + 400], wd, "c02_%s_%d" % (variant, ci), extra_lines_before=["opt chainhook 1", "opt atomhook 1"],
                                           extra_cflags="-DYR_STRING_CHAINING_THRESHOLD=4" if variant == "chain4" else "")
            if not run.complete:
                rp = yv.save_replay("C02", "crash_%s_%d" % (variant, ci), {"crash": yv.crash_summary(run), "script": run.script_path})
                res.violation("driver did not complete: " + yv.crash_summary(run), rp)
                continue
            for gi in range(len(groups[ci:ci + 400])):
                g = per.get(gi)
                if g is None or not g["ok"]:
                    skipped += 1      # patterns the compiler rejects are counted and skipped, not judged
                    continue
                txt, ast = metas[ci + gi]
                # the atoms of a string that is not chained are necessary for each of its occurrences (Atoms.tla, hook H3)
                ats = g.get("atoms", [])
                if ats and len({a["s"] for a in ats}) == 1 and len(ats) <= 1500:
                    samples = []
                    for _ in range(10):
                        v = sample(r, ast, vals_of.get(ci + gi, [0x41, 0x7a]) + [0x0a, 0x7a])
                        if v not in samples and 0 < len(v) <= 150: samples.append(v)
                    records.append({"kind": "atoms", "sort": "re", "ast": ast, "ascii": True, "wide": False, "nocase": False, "dotall": True, "fullword": False,
                                    "atoms": [{"b": a["b"], "bt": a["bt"]} for a in ats], "samples": [list(v) for v in samples]})
                    owners.append((variant, txt, "atoms", ats[:8]))
                for bi, b in enumerate(groups[ci + gi]["bufs"]):
                    if g["rets"][bi] != 0:
                        scan_errors[g["rets"][bi]] = scan_errors.get(g["rets"][bi], 0) + 1
                        continue
                    sc = g["scans"][bi]["t"]["strings"]["$s"]
                    records.append({"kind": "re", "ast": ast, "buf": list(b), "obs": [[o, l] for o, l, k, p in sc], "ascii": True,
                                    "wide": False, "nocase": False, "dotall": True, "fullword": False, "thresh": thresh})
                    chains = list(g.get("chains", [{}] * len(g["scans"]))[bi].values())
                    if chains and sum(len(c["cbs"]) for c in chains) <= 60:
                        records[-1]["chain"] = chains
                        nchain += 1; ncb += sum(len(c["cbs"]) for c in chains)
                    owners.append((variant, txt, b.hex(), sc))
                    res.count(1, (variant, txt, b) if sc else None)
        res.cov["parts"]["compile_rejected_" + variant] = skipped
        res.cov["parts"]["scan_errors_" + variant] = {str(k): v for k, v in scan_errors.items()}
        res.cov["parts"]["chain_runs_" + variant] = {"scans_with_a_recorded_chain": nchain, "calls_of_the_confirmation_algorithm": ncb}
        judge_and_report(res, "C02", records, owners, lambda o: {"variant": o[0], "hex": o[1], "buf": o[2][:400], "observed": o[3]}, wd, "c02_" + variant)
        for o in owners[:3]:
            res.sample({"variant": o[0], "hex": "{ %s }" % o[1], "buf": o[2][:200], "obs": o[3]})
    res.cov["rule"] = ("random hex strings (2-7 tokens: bytes, ?? X? ?X masks, ~ negations, jumps [n] [n-m] [n-] [-] on both sides of the chaining "
                       "threshold, alternatives nested to depth 2) x buffers planted with matching / truncated / corrupted / overlapping / gap-1 / gap+1 "
                       "sequences; run on the scaled build (threshold 4) and the production build (threshold 200); judged by ReMatch!StringObsOK in TLC; "
                       "non-trivial = at least one match reported")
    res.assumptions += ["patterns rejected by the compiler are counted and skipped", "buffers stay below the engine's per-match scan window in the production build"]


# ----------------------------------------------------------------------------- regular expressions
SAFE = [0x61, 0x62, 0x41, 0x31, 0x20, 0x0a, 0x5f, 0x7a]


def re_lit(b):
    if (0x30 <= b <= 0x39) or (0x41 <= b <= 0x5a) or (0x61 <= b <= 0x7a) or b in (0x20, 0x5f):
        return chr(b)
    return "\\x%02x" % b


def re_atom(r, depth):
    c = r.random()
    if c < 0.45:
        b = r.choice(SAFE)
        return re_lit(b), lit(b)
    if c < 0.55: return ".", dict(ANY)
    if c < 0.7:
        members = r.sample([0x61, 0x62, 0x63, 0x41, 0x31, 0x32, 0x20, 0x0a, 0x5f], r.randint(1, 3))
        neg = r.random() < 0.3
        if r.random() < 0.3:
            lo = r.choice([0x61, 0x41, 0x30]); hi = lo + r.randint(1, 3)
            return "[%s%s-%s]" % ("^" if neg else "", chr(lo), chr(hi)), cls(range(lo, hi + 1), neg)
        return "[%s%s]" % ("^" if neg else "", "".join(re_lit(m) for m in members)), cls(members, neg)
    if c < 0.8:
        k = r.choice("wWdDsS")
        word = [x for x in range(256) if chr(x).isalnum() and x < 128 or x == 0x5f]
        sets = {"w": (word, False), "W": (word, True), "d": (list(range(48, 58)), False), "D": (list(range(48, 58)), True),
                "s": ([32, 9, 10, 11, 12, 13], False), "S": ([32, 9, 10, 11, 12, 13], True)}
        s, neg = sets[k]
        return "\\" + k, cls(s, neg)
    if depth > 0:
        t, nd = re_expr(r, depth - 1)
        if nd["t"] == "any":
            nd = dict(nd); nd["grp"] = True      # (.){n,m} is a generic repeat for the engine, .{n,m} is REPEAT_ANY
        return "(" + t + ")", nd
    b = r.choice(SAFE)
    return re_lit(b), lit(b)


def re_piece(r, depth, lazy):
    t, nd = re_atom(r, depth)
    c = r.random()
    q = None
    if c < 0.1: q = ("*", 0, -1)
    elif c < 0.2: q = ("+", 1, -1)
    elif c < 0.3: q = ("?", 0, 1)
    elif c < 0.45:
        lo = r.randint(0, 3); hi = lo + r.randint(0, 3)
        k = r.random()
        if k < 0.25: q = ("{%d}" % lo, lo, lo) if lo else ("{1}", 1, 1)
        elif k < 0.4: q = ("{%d,}" % lo, lo, -1)
        elif k < 0.5: q = ("{,%d}" % hi, 0, hi)
        else: q = ("{%d,%d}" % (lo, hi), lo, hi)
    if q:
        node = rep(nd, q[1], q[2])
        node["lz"] = bool(lazy)
        if q[0].startswith("{"): node["brace"] = True
        return t + q[0] + ("?" if lazy else ""), node
    return t, nd


def re_seq(r, depth, lazy):
    n = r.randint(1, 4)
    ps = [re_piece(r, depth, lazy) for _ in range(n)]
    txt = "".join(p[0] for p in ps)
    nodes = [p[1] for p in ps]
    return txt, (cat(nodes) if len(nodes) > 1 else nodes[0])


def re_expr(r, depth, lazy=None):
    lazy = r.random() < 0.5 if lazy is None else lazy
    if r.random() < 0.3:
        k = r.randint(2, 3)
        bs = [re_seq(r, depth, lazy) for _ in range(k)]
        if r.random() < 0.1:
            bs.append(("", {"t": "empty"}))
        return "|".join(b[0] for b in bs), alt([b[1] for b in bs])
    return re_seq(r, depth, lazy)


def re_family(r, lazy):
    """shapes that exercise the atom extractor and the counted-repeat emitter"""
    c = r.random()
    if c < 0.5:      # long runs of literals and dots: sliding atom window, trimmed leading dots
        n = r.randint(5, 10)
        ps = []
        for _ in range(n):
            if r.random() < 0.3: ps.append((".", dict(ANY)))
            else:
                b = r.choice(SAFE + [0x63, 0x64, 0x65, 0x66]); ps.append((re_lit(b), lit(b)))
        return "".join(p[0] for p in ps), cat([p[1] for p in ps])
    # counted repeat over a body of variable length, between literal anchors
    k = r.randint(2, 3)
    alts = []
    for _ in range(k):
        m = r.randint(1, 3)
        bs = [r.choice([0x61, 0x62]) for _ in range(m)]
        alts.append(("".join(re_lit(b) for b in bs), cat([lit(b) for b in bs]) if m > 1 else lit(bs[0])))
    lo = r.randint(1, 4); hi = lo + r.randint(0, 2)
    pre = r.choice(SAFE); post = r.choice(SAFE)
    body = alt([a[1] for a in alts])
    txt = "%s(%s){%d,%d}%s%s" % (re_lit(pre), "|".join(a[0] for a in alts), lo, hi, "?" if lazy else "", re_lit(post))
    node = rep(body, lo, hi); node["brace"] = True; node["lz"] = bool(lazy)
    return txt, cat([lit(pre), node, lit(post)])


def re_loopy(r):
    """loops whose body can match nothing, behind zero-width assertions and around . with ? / {n,m}: the shapes where the
    engine's guard against endless loops, its repeat counters and the nested syncs of REPEAT_ANY interact (D38, D40, D44, D45)"""
    lz = r.random() < 0.5
    q = "?" if lz else ""
    a, b = r.sample([0x61, 0x62, 0x5f, 0x31], 2)
    def opt(x): n = rep(lit(x), 0, 1); n["lz"] = lz; return re_lit(x) + "?" + q, n
    def star(x): n = rep(lit(x), 0, -1); n["lz"] = lz; return re_lit(x) + "*" + q, n
    def anyq():
        lo, hi = r.choice([(0, 1), (0, 2), (1, 2), (0, 3)])
        n = rep(dict(ANY), lo, hi); n["lz"] = lz
        if (lo, hi) == (0, 1): return ".?" + q, n
        n["brace"] = True
        return ".{%d,%d}%s" % (lo, hi, q), n
    inner = r.choice([lambda: opt(a), lambda: star(a), anyq, lambda: (lambda p1, p2: (p1[0] + p2[0], cat([p1[1], p2[1]])))(opt(a), opt(b)),
                      lambda: (lambda p1, p2: (p1[0] + p2[0], cat([p1[1], p2[1]])))(anyq(), opt(b))])()
    form = r.choice(["*", "+", "{2,3}", "{3,}", "{0,4}", "{2}"])
    if form == "*": outer = rep(inner[1], 0, -1)
    elif form == "+": outer = rep(inner[1], 1, -1)
    else:
        lo, hi = {"{2,3}": (2, 3), "{3,}": (3, -1), "{0,4}": (0, 4), "{2}": (2, 2)}[form]
        outer = rep(inner[1], lo, hi); outer["brace"] = True
    outer["lz"] = lz
    pre = r.choice([("", None), ("\\b", {"t": "wb"}), ("^", {"t": "bol"}), ("\\B", {"t": "nwb"}), (re_lit(b), lit(b)), (re_lit(b) + "\\b", None)])
    post = r.choice([(re_lit(0x7a), lit(0x7a)), (re_lit(a), lit(a)), ("$", {"t": "eol"}), (re_lit(0x7a) + "$", None)])
    nodes, txt = [], ""
    if pre[0]:
        txt += pre[0]; nodes += [pre[1]] if pre[1] else [lit(b), {"t": "wb"}]
    txt += "(" + inner[0] + ")" + form + q
    nodes.append(outer)
    txt += post[0]; nodes += [post[1]] if post[1] else [lit(0x7a), {"t": "eol"}]
    return txt, cat(nodes)


def re_counted_in_loop(r):
    """a loop ( * + {n,m} ) whose body BEGINS with / ends with / is a counted repeat e{lo,hi} (lo 0 or 1, hi 2..3): the loop jumps back to
    the first instruction of its body, which for e{lo,hi} is the start of its own prolog / repeat section (re.c _yr_re_emit)"""
    lz = r.random() < 0.5
    q = "?" if lz else ""
    a, b, c = r.sample([0x61, 0x62, 0x63, 0x31, 0x5f], 3)
    lo, hi = r.choice([(0, 2), (0, 3), (1, 2), (1, 3), (0, 1), (2, 3)])
    inner = rep(lit(b), lo, hi); inner["lz"] = lz; inner["brace"] = True
    itxt = "%s{%d,%d}%s" % (re_lit(b), lo, hi, q)
    shape = r.choice(["ET", "TE", "E", "ETE"])
    if shape == "ET": body, btxt = cat([inner, lit(c)]), itxt + re_lit(c)
    elif shape == "TE": body, btxt = cat([lit(c), inner]), re_lit(c) + itxt
    elif shape == "E": body, btxt = inner, itxt
    else: body, btxt = cat([inner, lit(c), dict(inner)]), itxt + re_lit(c) + itxt
    form = r.choice(["+", "+", "*", "{2,3}", "{1,}"])
    if form == "*": outer = rep(body, 0, -1)
    elif form == "+": outer = rep(body, 1, -1)
    else:
        olo, ohi = {"{2,3}": (2, 3), "{1,}": (1, -1)}[form]
        outer = rep(body, olo, ohi); outer["brace"] = True
    outer["lz"] = lz
    end = r.choice([(re_lit(0x7a), [lit(0x7a)]), ("$", [{"t": "eol"}]), (re_lit(a), [lit(a)])])
    return re_lit(a) + "(" + btxt + ")" + form + q + end[0], cat([lit(a), outer] + end[1])


def re_top(r, depth, anchors=True):
    if anchors and r.random() < 0.12:
        return re_loopy(r)
    if r.random() < 0.08:
        return re_counted_in_loop(r)
    lazy = r.random() < 0.5
    if r.random() < 0.3:
        t, nd = re_family(r, lazy)
    else:
        t, nd = re_expr(r, depth, lazy)
    if anchors:
        c = r.random()
        if c < 0.08: t, nd = "^(" + t + ")", cat([{"t": "bol"}, nd])
        elif c < 0.16: t, nd = "(" + t + ")$", cat([nd, {"t": "eol"}])
        elif c < 0.24: t, nd = "\\b(" + t + ")", cat([{"t": "wb"}, nd])
        elif c < 0.30: t, nd = "(" + t + ")\\b", cat([nd, {"t": "wb"}])
        elif c < 0.34: t, nd = "(" + t + ")\\B", cat([nd, {"t": "nwb"}])
    return t, nd


def ast_size(nd):
    if nd["t"] in ("cat", "alt"): return 1 + sum(ast_size(x) for x in nd["xs"])
    if nd["t"] == "rep": return 1 + ast_size(nd["x"])
    return 1


def c03(res, tier, seed):
    vm_budget = [2500 if tier == "quick" else 12000]
    r = yv.rng(seed, "c03")
    wd = yv.workdir("C03")
    # the engine as built (ReVM.tla) against the documented semantics (ReMatch.tla) on all small expressions
    for cfg in ("MC_ReVM.cfg", "MC_ReVM_any.cfg", "MC_ReVM_keyed.cfg"):
        m = yv.tlc("ReVMMC", cfg, wd, timeout=1500, coverage=False, tier=tier)
        if m["violated"]:
            res.violation("TLC: %s in %s" % (m["violated"], cfg), yv.save_replay("C03", "model_" + cfg, {"tlc": m["out"][-4000:]}))
        else:
            yv.require_tlc_ok(m, cfg)
        res.add_tlc("revm_" + cfg.split(".")[0], m)
    v = yv.tlc("ReVMMC", "MC_ReVM_D40.cfg", wd, timeout=600, coverage=False)
    if not (v["violated"] and "Equivalent" in v["violated"]):
        raise yv.Broken("non-vacuity run MC_ReVM_D40.cfg did not violate Equivalent")
    res.cov["parts"]["nonvacuity_MC_ReVM_D40.cfg"] = "violated as expected (D40)"
    npat = 500 if tier == "quick" else 6000
    groups, metas = [], []
    for pi in range(npat):
        txt, ast = re_top(r, 2)
        fi = r.random() < 0.2
        fs = r.random() < 0.3
        m = {"nocase": r.random() < 0.15, "wide": r.random() < 0.2, "ascii": False, "fullword": r.random() < 0.15}
        if m["wide"] and r.random() < 0.4: m["ascii"] = True
        mods = " ".join(k for k in ("nocase", "wide", "ascii", "fullword") if m[k])
        src = "rule t { strings: $s = /%s/%s%s %s condition: #s >= 0 }" % (txt, "i" if fi else "", "s" if fs else "", mods)
        flags = {"nocase": m["nocase"] or fi, "dotall": fs, "ascii": m["ascii"] or not m["wide"], "wide": m["wide"], "fullword": m["fullword"]}
        filler = SAFE + [0x63, 0x32, 0x42]
        bufs = []
        for _ in range(8 if tier == "quick" else 20):
            b = plant_buffer(r, ast, filler, 60)
            if flags["wide"] and r.random() < 0.7:
                b = b"".join(bytes([x, 0]) for x in b)[:120]
            bufs.append(b)
        bufs += [b"", sample(r, ast, filler)[:60]]
        groups.append({"src": src, "bufs": bufs})
        metas.append((src, ast, flags))
    records, owners = [], []
    skipped = 0
    fiber_stats = {}
    for ci in range(0, len(groups), 400):
        run, per = func.run_rule_cases_fiber_retry("asan", groups[ci:ci + 400], wd, "c03_%d" % ci, fiber_stats, extra_lines_before=["opt atomhook 1"])
        if not run.complete:
            rp = yv.save_replay("C03", "crash_%d" % ci, {"crash": yv.crash_summary(run), "script": run.script_path})
            res.violation("driver did not complete: " + yv.crash_summary(run), rp)
            continue
        for gi in range(len(groups[ci:ci + 400])):
            g = per.get(gi)
            if g is None or not g["ok"]:
                skipped += 1
                continue
            src, ast, fl = metas[ci + gi]
            # the atoms of an expression that is not chained are necessary for each of its occurrences (Atoms.tla, hook H3)
            ats = g.get("atoms", [])
            if ats and len({a["s"] for a in ats}) == 1 and len(ats) <= 1500:
                samples = []
                for _ in range(10):
                    v = sample(r, ast, SAFE + [0x63, 0x32, 0x42])
                    if fl["nocase"] and r.random() < 0.5:
                        v = bytes((x ^ 0x20) if (65 <= x <= 90 or 97 <= x <= 122) and r.random() < 0.5 else x for x in v)
                    for w in ([v] if fl["ascii"] else []) + ([b"".join(bytes([x, 0]) for x in v)] if fl["wide"] else []):
                        if w not in samples and 0 < len(w) <= 150: samples.append(w)
                records.append({"kind": "atoms", "sort": "re", "ast": ast, "ascii": fl["ascii"], "wide": fl["wide"], "nocase": fl["nocase"], "dotall": fl["dotall"], "fullword": False,
                                "atoms": [{"b": a["b"], "bt": a["bt"]} for a in ats], "samples": [list(v) for v in samples[:14]]})
                owners.append((src, "atoms", ats[:8]))
            for bi, b in enumerate(groups[ci + gi]["bufs"]):
                if g["rets"][bi] != 0:
                    # a scan error on a small expression and buffer is not a verdict (D45 showed up as ERROR_TOO_MANY_RE_FIBERS)
                    skipped += 1
                    records.append({"kind": "rescanerr", "ast": ast, "ret": g["rets"][bi]})
                    owners.append((src, b.hex(), "scan returned %d" % g["rets"][bi]))
                    continue
                sc = g["scans"][bi]["t"]["strings"]["$s"]
                records.append({"kind": "re", "ast": ast, "buf": list(b), "obs": [[o, l] for o, l, k, p in sc], "ascii": fl["ascii"],
                                "wide": fl["wide"], "nocase": fl["nocase"], "dotall": fl["dotall"], "fullword": fl["fullword"], "thresh": 200})
                owners.append((src, b.hex(), sc))
                res.count(1, (src, b) if sc else None)
    res.cov["parts"]["compile_or_scan_rejected"] = skipped
    res.cov["parts"]["fiber_limit"] = fiber_stats
    judge_and_report(res, "C03", records, owners, lambda o: {"rule": o[0], "buf": o[1], "observed": o[2]}, wd, "c03_strings")
    for o in owners[:3]:
        res.sample({"rule": o[0], "buf": o[1], "obs": o[2]})
    # ---- the `matches` operator on an external string variable
    groups, metas = [], []
    nm = 150 if tier == "quick" else 2000
    for pi in range(nm):
        txt, ast = re_top(r, 2)
        fi = r.random() < 0.2
        fs = r.random() < 0.3
        src = "rule t { condition: ext matches /%s/%s%s }" % (txt, "i" if fi else "", "s" if fs else "")
        filler = [x for x in SAFE + [0x63, 0x32, 0x42]]
        if pi % 4 == 3:
            # the operand as a string literal of the rule text: it can contain NUL bytes (an external variable cannot); one rule
            # per operand, all evaluated by one scan
            ops = [plant_buffer(r, ast, filler + [0, 0], 40) for _ in range(8)] + [b"", b"\0", b"a\0"]
            esc = lambda o: "".join("\\x%02x" % x for x in o)
            src = "\n".join('rule t%d { condition: "%s" matches /%s/%s%s }' % (k, esc(o), txt, "i" if fi else "", "s" if fs else "") for k, o in enumerate(ops))
            groups.append({"src": src, "bufs": [b"x"], "pre": ["cdefine 0 s ext -"], "literal_ops": True})
            metas.append((src, ast, {"nocase": fi, "dotall": fs}, ops))
            continue
        ops = [bytes(x for x in plant_buffer(r, ast, filler, 40) if x != 0) for _ in range(8)] + [b""]
        groups.append({"src": src, "bufs": [b"x"] * len(ops), "pre": ["cdefine 0 s ext -"], "scan_pre": [["sdefine 0 s ext %s" % yv.hx(o)] for o in ops]})
        metas.append((src, ast, {"nocase": fi, "dotall": fs}, ops))
    records, owners = [], []
    for ci in range(0, len(groups), 400):
        run, per = func.run_rule_cases_fiber_retry("asan", groups[ci:ci + 400], wd, "c03m_%d" % ci, fiber_stats)
        if not run.complete:
            rp = yv.save_replay("C03", "crashm_%d" % ci, {"crash": yv.crash_summary(run), "script": run.script_path})
            res.violation("driver did not complete: " + yv.crash_summary(run), rp)
            continue
        for gi in range(len(groups[ci:ci + 400])):
            g = per.get(gi)
            if g is None or not g["ok"]:
                continue
            src, ast, fl, ops = metas[ci + gi]
            literal = groups[ci + gi].get("literal_ops")
            for bi, o in enumerate(ops):
                if literal:
                    if g["rets"][0] != 0 or ("t%d" % bi) not in g["scans"][0]:
                        records.append({"kind": "rescanerr", "ast": ast, "ret": g["rets"][0]})
                        owners.append((src.split("\n")[bi], o.hex(), "scan returned %d" % g["rets"][0]))
                        continue
                    v = g["scans"][0]["t%d" % bi]["verdict"]
                    records.append({"kind": "matches", "ast": ast, "buf": list(o), "obs": v, "nocase": fl["nocase"], "dotall": fl["dotall"]})
                    if vm_budget[0] > 0 and ast_size(ast) <= 14 and len(o) <= 24:
                        records[-1]["vm"] = True; vm_budget[0] -= 1
                    owners.append((src.split("\n")[bi], o.hex(), v))
                    res.count(1, (src, o))
                    continue
                if g["rets"][bi] != 0:
                    records.append({"kind": "rescanerr", "ast": ast, "ret": g["rets"][bi]})
                    owners.append((src, o.hex(), "scan returned %d" % g["rets"][bi]))
                    continue
                v = g["scans"][bi]["t"]["verdict"]
                records.append({"kind": "matches", "ast": ast, "buf": list(o), "obs": v, "nocase": fl["nocase"], "dotall": fl["dotall"]})
                # the engine model (ReVM.tla) is evaluated by TLC on the smaller cases (cost grows with code size x operand length)
                if vm_budget[0] > 0 and ast_size(ast) <= 14 and len(o) <= 24:
                    records[-1]["vm"] = True; vm_budget[0] -= 1
                owners.append((src, o.hex(), v))
                res.count(1, (src, o))
    judge_and_report(res, "C03", records, owners, lambda o: {"rule": o[0], "operand": o[1], "verdict": o[2]}, wd, "c03_matches")
    res.cov["rule"] = ("random regular expressions (depth <= 2: literals, escapes, classes incl. negated/ranges/\\w\\d\\s, dot, groups, alternation incl. empty "
                       "branch, * + ? {n,m} {n,} {,m} all-greedy or all-lazy, ^ $ \\b \\B, /i /s, nocase/wide/ascii/fullword) x planted buffers <= 120 bytes, and the "
                       "`matches` operator on an external string; judged by ReMatch.tla in TLC; non-trivial = at least one match / distinct operand")
    res.assumptions += ["expressions rejected by the compiler are counted and skipped; a scan that ends with ERROR_TOO_MANY_RE_FIBERS is repeated with a 256 times larger fiber pool and judged on that verdict (the production limit is a documented complexity limit); an error there too is a violation",
                        "greedy and lazy quantifiers have the same match sets; any matching length may be the reported one"]
