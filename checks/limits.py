"""C15: exceeding engine limits yields the documented error, not a crash or hang (Limits.tla + Scan.tla)."""
import os, sys, json, time
sys.path.insert(0, os.path.join(os.path.dirname(os.path.abspath(__file__)), "..", "gen"))
import yv, scangen as sg
from checks import func, scan as scanmod
from checks.scangen_helpers import flood_file


def loops(depth):
    c = "true"
    for d in range(depth):
        c = "for any i%d in (1..2) : ( %s )" % (d, c)
    return "rule a { condition: %s }" % c


def nested_sum(depth):
    e = "1"
    for _ in range(depth):
        e = "1 + (%s)" % e
    return "rule a { condition: %s > 0 }" % e


def c15(res, tier, seed):
    wd = yv.workdir("C15")
    r = yv.rng(seed, "c15")
    scanmod.model_check(res, [("cap", "MC_Scan_cap.cfg")])
    exe = yv.driver("asan")
    records, owners = [], []
    # ------------------------------------------------------------------ compile-time limits: L-1, L, L+1, far beyond
    cases = []
    for n in (3, 4, 5, 6, 12):
        cases.append(("loop_nesting", n, 4, loops(n), []))
    for n in (15, 16, 17, 18, 40):
        pre = ["include d%d.yar %s" % (k, yv.hx(('include "d%d.yar"' % (k + 1)).encode() if k < n else b"rule leaf { condition: true }")) for k in range(1, n + 1)]
        cases.append(("include_depth", n, 16, 'include "d1.yar"' if n else "rule leaf { condition: true }", pre))
    for n in (127, 128, 129, 130, 5000):
        cases.append(("ident_len", n, 128, "rule %s { condition: true }" % ("a" * n), []))
    for n in (8189, 8190, 8191, 8192, 100000):
        cases.append(("lex_buf", n, 8190, 'rule a { strings: $a = "%s" condition: $a }' % ("A" * n), []))
    for n in (32766, 32767, 32768, 32769, 1000000):
        cases.append(("re_repeat", n, 32767, "rule a { strings: $a = /ab{1,%d}/ condition: $a }" % n, []))
    for n, lit in ((-1, "9223372036854775806"), (0, "9223372036854775807"), (1, "9223372036854775808"), (2, "9223372036854775809"), (1000, "99999999999999999999999")):
        cases.append(("int_literal", n, 0, "rule a { condition: %s > 0 }" % lit, []))
    # the largest literal and the first one beyond it in every base, interleaved: a literal that is in range is accepted whatever
    # was compiled before it
    for n, lit in ((0, "0o777777777777777777777"), (1, "0o1000000000000000000000"), (0, "0o777777777777777777777"), (0, "0x7FFFFFFFFFFFFFFF"), (1, "0x8000000000000000"),
                   (0, "0x7FFFFFFFFFFFFFFF"), (0, "0o777777777777777777777"), (1, "9223372036854775808"), (0, "0o777777777777777777777"), (0, "9223372036854775807"),
                   (1, "0xFFFFFFFFFFFFFFFFF"), (0, "0o1"), (0, "1KB"), (1, "9223372036854775807KB"), (0, "8388607MB"), (1, "8796093022208MB")):
        cases.append(("int_literal", n, 0, "rule a { condition: %s > 0 }" % lit, []))
    for L in (10000, 5, 1):
        for n in (L - 1, L, L + 1, L + 2, 10 * L + 3):
            if n < 1: continue
            cases.append(("strings_per_rule", n, L, "rule a { strings: %s condition: any of them }" % " ".join('$s%d = "v%dw"' % (i, i) for i in range(n)), ["config maxstr %d" % L]))
    lines = ["init", "opt iterlog 0"]
    for k, (name, n, L, src, pre) in enumerate(cases):
        lines += ["note k%d" % k] + [p for p in pre if p.startswith("config")] + [p for p in pre if not p.startswith("config")]
        # every entry point of the compiler in turn (sources that come with a file name go through other bookkeeping)
        # (not for the include depth: a source that has a file name occupies one level of the include stack itself)
        lines += ["compiler 0", "%s 0 - %s" % ("add" if name == "include_depth" else ["addfile", "add", "addfd", "addbytes"][k % 4], yv.hx(src.encode())), "cdestroy 0",
                  # after the limit error the library remains usable: a fresh compiler compiles a plain rule
                  "compiler 1", "add 1 - " + yv.hx(b"rule ok { condition: true }"), "cdestroy 1", "config maxstr 10000", "leakcheck"]
    lines.append("finalize")
    run = yv.run_script(exe, lines, wd, name="c15_compile", hang=120, timeout=1500)
    cur, per = None, {}
    for e in run.events:
        if e["e"] == "Note" and e["text"].startswith("k"):
            cur = int(e["text"][1:]); per[cur] = {}
        elif e["e"] == "Compile" and cur is not None:
            per[cur][e["cid"]] = e
        elif e["e"] == "LeakCheck" and cur is not None:
            per[cur]["leak"] = e["bytes"]
    prevb = None
    for k in sorted(per):
        b = per[k].get("leak")
        if prevb is not None and b is not None and b > prevb:
            res.violation("limit case %s n=%d leaks %d bytes (compiler destroyed)" % (cases[k][0], cases[k][1], b - prevb),
                          yv.save_replay("C15", "leak_compile_%d" % k, {"limit": cases[k][0], "n": cases[k][1], "source": cases[k][3][:500]}))
        prevb = b if b is not None else prevb
    if not run.complete:
        k = cur or 0
        res.violation("limit case %s n=%d crashed / hung the compiler: %s" % (cases[k][0], cases[k][1], yv.crash_summary(run)),
                      yv.save_replay("C15", "crash_compile_%d" % k, {"limit": cases[k][0], "n": cases[k][1], "crash": yv.crash_summary(run)}))
    for k, (name, n, L, src, pre) in enumerate(cases):
        p = per.get(k, {})
        if 0 not in p: continue
        e = p[0]
        records.append({"kind": "limit", "name": name, "n": n, "L": L, "outcome": e.get("code", 0) if e["ret"] > 0 else 0})
        owners.append((name, n, L, [d["msg"] for d in e["diag"] if d["lvl"] == "error"][:2]))
        if 1 in p:
            records.append({"kind": "recovered", "after": p[1]["ret"], "after_normal": 0})
            owners.append((name, n, L, "compiler after the limit error: ret=%d" % p[1]["ret"]))
        res.count(1, (name, n, L))
    # ------------------------------------------------------------------ scan-time limits: evaluation stack, regexp fibers; the scanner stays usable
    lines = ["init", "opt iterlog 0"]
    scases = []
    for L in (64, 256):
        for n in (L // 2, L - 2, L + 8, 3 * L):
            scases.append(("stack", n, L, nested_sum(n), b"x", ["config stack %d" % L]))
    scases.append(("fibers", 2, 1024, "rule a { strings: $a = /x(a|aa|aaa){1,3}y/ condition: $a }\nrule light { strings: $b = /fo+1/ condition: $b }", b"xaaay..foo1", []))
    for bomb in ("/x(a|aa|aaa){1,200}y/", "/x(a\\B|aa\\B|aaa\\B){1,200}y/", "/abcd(x{1,60}){1,60}y/"):
        data = b"x" + b"a" * 3000 + b"y" if "abcd" not in bomb else b"abcd" + b"x" * 300 + b"y"
        scases.append(("fibers", 2000, 1024, "rule a { strings: $a = %s condition: $a }\nrule light { strings: $b = /fo+1/ condition: $b }" % bomb, data, []))
    for k, (name, n, L, src, data, pre) in enumerate(scases):
        lines += ["note s%d" % k] + pre + ["compiler 0", "add 0 - " + yv.hx(src.encode()), "getrules 0 0", "cdestroy 0", "scanner 0 0", "data 1 " + yv.hx(data), "scan 0 1 mem - - -",
                  "config stack 16384", "data 2 " + yv.hx(b"hello foo1 world x1y")] + (["sdestroy 0", "scanner 0 0"] if name == "stack" else []) + [
                  "scan 0 2 mem - - -", "scan 0 2 mem - - -", "sdestroy 0", "rdestroy 0", "leakcheck"]
    lines.append("finalize")
    run = yv.run_script(exe, lines, wd, name="c15_scan", hang=120, timeout=1500)
    cur, per = None, {}
    for e in run.events:
        if e["e"] == "Note" and e["text"].startswith("s"):
            cur = int(e["text"][1:]); per[cur] = {"rets": [], "light": [], "leak": None, "compile": None}
        elif cur is None: continue
        elif e["e"] == "Compile": per[cur]["compile"] = e
        elif e["e"] == "ScanRet": per[cur]["rets"].append(e["ret"])
        elif e["e"] == "Cb" and e.get("rule") == "light": per[cur]["light"].append(e["msg"])
        elif e["e"] == "LeakCheck": per[cur]["leak"] = e["bytes"]
    if not run.complete:
        k = cur or 0
        res.violation("limit case %s n=%d crashed / hung the scanner: %s" % (scases[k][0], scases[k][1], yv.crash_summary(run)),
                      yv.save_replay("C15", "crash_scan_%d" % k, {"limit": scases[k][0], "n": scases[k][1], "crash": yv.crash_summary(run)}))
    prev_leak = None
    for k, (name, n, L, src, data, pre) in enumerate(scases):
        p = per.get(k)
        if not p or len(p["rets"]) < 3: continue
        if p["compile"] and p["compile"]["ret"] > 0:
            raise yv.Broken("scan-limit scenario does not compile: %s" % json.dumps(p["compile"]["diag"])[:300])
        records.append({"kind": "limit", "name": name, "n": n, "L": L, "outcome": p["rets"][0]})
        owners.append((name, n, L, "first scan ret=%d" % p["rets"][0]))
        # the two follow-up scans on the SAME scanner must be normal: success, and `light` matches where the rule set has it
        normal = 0
        records.append({"kind": "recovered", "after": p["rets"][1] * 100 + p["rets"][2], "after_normal": normal})
        owners.append((name, n, L, "follow-up scans on the same scanner: rets=%s" % p["rets"][1:]))
        if "light" in src:
            ok = p["light"][-2:] == ["match", "match"]
            records.append({"kind": "recovered", "after": 1 if ok else 0, "after_normal": 1})
            owners.append((name, n, L, "rule `light` on the follow-up scans: %s" % p["light"]))
        if prev_leak is not None and p["leak"] is not None and p["leak"] > prev_leak:
            res.violation("memory leaked by the scan-limit scenario %s n=%d (%d bytes after destroying the scanner)" % (name, n, p["leak"] - prev_leak),
                          yv.save_replay("C15", "leak_scan_%d" % k, {"limit": name, "n": n, "source": src}))
        prev_leak = p["leak"] if p["leak"] is not None else prev_leak
        res.count(1, (name, n, L, src))
    # ------------------------------------------------------------------ evaluation stack: every iterator kind x every small stack size
    import pegen
    pe_img, _ = pegen.build(nkeys=3)
    sweeps = [("dict iterator", 'import "pe"\nrule a { condition: for any k, v in pe.version_info : ( k == "K1" ) }'),
              ("array iterator", 'import "pe"\nrule a { condition: for any s in pe.sections : ( s.raw_data_size >= 0 ) }'),
              ("range iterator", 'rule a { condition: for any i in (0..3) : ( i == 2 ) }'),
              ("enum iterator", 'rule a { condition: for any i in (1, 2, 3) : ( i == 2 ) }'),
              ("string set iterator", 'rule a { strings: $a = "MZ" $b = "PE" condition: for any of them : ( # > 0 ) }'),
              ("text set iterator", 'rule a { condition: for any s in ("a", "MZ") : ( s == "MZ" ) }'),
              ("nested dict in range", 'import "pe"\nrule a { condition: for any i in (0..1) : ( for any k, v in pe.version_info : ( k == "K1" and i >= 0 ) ) }'),
              ("of and arithmetic", 'rule a { strings: $a = "MZ" $b = "PE" condition: 1 of them and 1 + 2 * (3 + 4 * (5 + 6)) > 0 }')]
    sizes = list(range(1, 17))
    lines = ["init", "opt iterlog 0", "opt logmatches 0", "data 1 " + yv.hx(pe_img)]
    for k, (what, src) in enumerate(sweeps):
        lines += ["note w%d" % k, "compiler 0", "add 0 - " + yv.hx(src.encode()), "getrules 0 0", "cdestroy 0"]
        for n in sizes:
            lines += ["config stack %d" % n, "scanner 0 0", "scan 0 1 mem - - -", "sdestroy 0"]
        lines += ["config stack 16384", "rdestroy 0"]
    lines.append("finalize")
    run = yv.run_script(exe, lines, wd, name="c15_sweep", hang=60, timeout=900)
    cur, per = None, {}
    for e in run.events:
        if e["e"] == "Note" and e["text"].startswith("w"):
            cur = int(e["text"][1:]); per[cur] = []
        elif e["e"] == "ScanRet" and cur is not None:
            per[cur].append(e["ret"])
    if not run.complete:
        k = cur or 0
        res.violation("stack sweep `%s`: stack size %d crashed the scanner: %s" % (sweeps[k][0], len(per.get(k, [])) + 1, yv.crash_summary(run)),
                      yv.save_replay("C15", "sweep_crash_%d" % k, {"rule": sweeps[k][1], "stack_size": len(per.get(k, [])) + 1, "crash": yv.crash_summary(run)}))
    for k, (what, src) in enumerate(sweeps):
        rets = per.get(k, [])
        if len(rets) == len(sizes):
            records.append({"kind": "stacksweep", "rets": rets})
            owners.append(("stack sweep", what, sizes, "rets=%s" % rets))
            res.count(1, ("sweep", what))
    # ------------------------------------------------------------------ size of regexp code: shapes whose jumps span a body of growing size
    shapes = [("alt-left", "x(%s|zz)y", b"xzzy"), ("alt-right", "x(zz|%s)y", b"xzzy"), ("star", "x(%s)*y", b"xy"), ("plus", "x(%s)+y", None),
              ("optional", "x(%s)?y", b"xy"), ("counted", "x(%s){1,2}y", None), ("lazy-star", "x(%s)*?y", b"xy")]
    sizes = [100, 600, 900, 960, 980, 1000, 1100, 2000] if tier == "quick" else [100, 300, 600, 800, 900, 940, 960, 965, 970, 975, 980, 985, 990, 995, 1000, 1010, 1100, 1500, 2000]
    from checks import func as _func
    rgroups = []
    for nm, shape, small in shapes:
        for n in sizes:
            body = "[ab]" * n
            d1 = b"..x" + (b"ab" * n)[:n] + b"y.."
            bufs = [d1] + ([b"." + small + b"."] if small else [])
            rgroups.append({"src": "rule t { strings: $s = /%s/ condition: #s >= 0 }" % (shape % body), "bufs": bufs})
    rrun, rper = _func.run_rule_cases("asan", rgroups, wd, "c15_resize", hang=120)
    if not rrun.complete:
        res.violation("a regular expression near the code size limit crashed the compiler / scanner: %s" % yv.crash_summary(rrun),
                      yv.save_replay("C15", "crash_resize", {"crash": yv.crash_summary(rrun), "script": rrun.script_path}))
    gi = 0
    for nm, shape, small in shapes:
        steps = []
        for n in sizes:
            g = rper.get(gi); gi += 1
            if g is None or g["compile"] is None: continue
            code = g["compile"].get("code", 0) if g["compile"]["ret"] > 0 else 0
            hit = False
            if code == 0 and g["ok"] and len(g["rets"]) >= 1 and all(x == 0 for x in g["rets"]):
                m1 = g["scans"][0].get("t", {}).get("strings", {}).get("$s", [])
                hit = [2, n + 2] in [[o, l] for o, l, kk, pp in m1]
                if small:
                    m2 = g["scans"][1].get("t", {}).get("strings", {}).get("$s", [])
                    hit = hit and [1, len(small)] in [[o, l] for o, l, kk, pp in m2]
            steps.append({"n": n, "outcome": code, "hit": hit})
            res.count(1, ("resize", nm, n))
        records.append({"kind": "resize", "shape": nm, "steps": steps})
        owners.append(("regexp code size", nm, sizes, "outcomes=%s hits=%s" % ([x["outcome"] for x in steps], [x["hit"] for x in steps])))
    # ------------------------------------------------------------------ match cap in the production build: isolation of the other strings (Scan.tla trace)
    execs = []
    for flood, others in ((1000001, [1, 2]), (1000000, [1, 1]), (1000050, [2, 0])):
        rules = [scanmod.rule(1, False, False, 1, sg.C("Cnt", 0, others[0])), scanmod.rule(1, False, False, 2, sg.C("M")), scanmod.rule(2, False, False, 1, sg.C("M")),
                 scanmod.rule(2, True, False, 1, sg.C("NM")), scanmod.rule(1, False, False, 2, sg.C("Cnt", 0, 3))]
        f, lines_data = flood_file(1, [others[0], flood], tail_counts=[others[1], 0])
        for plan in ([], [(0, "a")], [(0, "e")]):
            s = scanmod.scan(f, b"", [f["size"]], plan=plan)
            s["data_lines"] = lines_data
            execs.append({"rules": rules, "scans": [s, dict(s, plan=[])], "kind": "c15-cap-production"})
    scanmod.run_chunks(res, "C15", execs, "asan", "c15_cap", chunk=3)
    # the scaled build: cap 6, many shapes
    execs = []
    for hi in range(12 if tier == "quick" else 150):
        # every other rule set pads its rules with 63-130 strings that never match: the capped strings then sit at string indexes
        # beyond the first 64-bit word of the per-string tables (a string disabled by the cap must be enabled again for the next scan)
        rules = scanmod.random_ruleset(r, r.randint(2, 7), r.randint(1, 2), 2, ["M", "NM", "Cnt", "Cnt", "Ref", "T"], padprob=0.7 if hi % 2 else 0.0)
        scans = []
        for k in range(3):
            spec = [{"mk": [r.choice([0, 3, 6, 7, 9]), r.choice([0, 1, 6, 8])], "filler": 4, "gap": 1} for _ in range(r.choice([1, 2, 3]))]
            f, data, sizes = sg.make_file(100 * hi + k + 1, "text", spec, False, 2)
            plan = [(r.randint(0, 2), r.choice("ae"))] if r.random() < 0.5 else []
            scans.append(scanmod.scan(f, data, sizes, mode="blocks" if len(sizes) > 1 else "mem", plan=plan))
        execs.append({"rules": rules, "scans": scans, "kind": "c15-cap-scaled"})
    scanmod.run_chunks(res, "C15", execs, "small", "c15_cap_small")
    # ------------------------------------------------------------------ timeouts: every rule shape that can run long returns within the bound
    tcases = [
        ("nested loops", "rule a { condition: for all a in (0..100000) : ( for all b in (0..100000) : ( for all c in (0..1000) : ( for all d in (0..1000) : ( a + b + c + d >= 0 ) ) ) ) }", 1000),
        ("hash in a loop", 'import "hash"\nrule a { condition: for all i in (0..1000000) : ( hash.md5(i, 4096) != "x" ) }', 1 << 20),
        ("math in a loop", 'import "math"\nrule a { condition: for all i in (0..100000000) : ( math.entropy(0, filesize) >= 0.0 ) }', 1 << 16),
        ("pathological regexp on a large buffer", "rule a { strings: $a = /a.*b.*c.*d/s condition: #a > 100000000 }", 8 << 20),
        ("short atoms everywhere", 'rule a { strings: $a = "a" $b = { 61 ?? 61 } condition: #a + #b < 0 }', 8 << 20),
    ]
    # the VM looks at the clock every 100 instructions: a loop of 10 instructions per iteration entered at each of the 10 possible
    # phases (k trivial rules in front shift the phase by one instruction pair each)
    for k in range(10):
        pre = "\n".join("rule p%d { condition: true }" % j for j in range(k))
        tcases.append(("loop of 10 instructions entered at phase %d" % k, pre + "\nrule a { condition: for all i in (0..4000000000) : ( true ) }", 64))
        if tier != "quick" or k % 3 == 0:
            tcases.append(("loop of 12 instructions entered at phase %d" % k, pre + "\nrule a { condition: for all i in (0..4000000000) : ( i >= 0 ) }", 64))
    lines = ["init", "opt iterlog 0", "opt logmatches 0", "opt hang 60"]
    for k, (what, src, size) in enumerate(tcases):
        lines += ["note t%d" % k, "compiler 0", "add 0 - " + yv.hx(src.encode()), "getrules 0 0", "cdestroy 0", "scanner 0 0", "stimeout 0 1",
                  "datarep 1 %s %d" % (yv.hx(b"abca"), size // 4), "scan 0 1 mem - - 0:c,1:c,2:c,3:c", "scan 0 1 mem - - -", "sdestroy 0", "rdestroy 0"]
    lines.append("finalize")
    run = yv.run_script(exe, lines, wd, name="c15_timeout", hang=60, timeout=900)
    cur, per = None, {}
    for e in run.events:
        if e["e"] == "Note" and e["text"].startswith("t"):
            cur = int(e["text"][1:]); per[cur] = []
        elif e["e"] == "ScanRet" and cur is not None:
            per[cur].append(e)
    if not run.complete:
        k = cur or 0
        res.violation("timeout scenario `%s` did not return (hang) or crashed: %s" % (tcases[k][0], yv.crash_summary(run)), yv.save_replay("C15", "timeout_hang_%d" % k, {"rule": tcases[k][1], "crash": yv.crash_summary(run)}))
    for k, (what, src, size) in enumerate(tcases):
        p = per.get(k, [])
        if len(p) < 2: continue
        records.append({"kind": "timeout", "ret": p[0]["ret"], "ms": p[0]["ms"], "timeout": 1, "slack_ms": 4000})
        owners.append(("timeout", what, p[0]["ms"], "ret=%d" % p[0]["ret"]))
        records.append({"kind": "timeout", "ret": p[1]["ret"], "ms": p[1]["ms"], "timeout": 1, "slack_ms": 4000})
        owners.append(("timeout", what, p[1]["ms"], "scanner reused after the timeout: ret=%d" % p[1]["ret"]))
        res.count(1, ("timeout", what))
    # the deadline of a scan that is suspended (block not ready) and repeated: the time limit is for the scan, not for each call -
    # 12 blocks that take 700 ms each to arrive, not-ready before every one of them, 1 s timeout
    lines = ["init", "opt iterlog 0", "opt logmatches 0", "opt hang 120", "compiler 0", "add 0 - " + yv.hx(b'rule a { strings: $a = "needle" condition: $a }'), "getrules 0 0", "cdestroy 0",
             "scanner 0 0", "stimeout 0 1", "datarep 1 %s %d" % (yv.hx(b"abcd"), 12 * 1024), "opt itersleep 700",
             "scan 0 1 blocks %s %s -" % (",".join(["4096"] * 12), ",".join(str(2 * k) for k in range(13))), "opt itersleep 0", "stimeout 0 0", "scan 0 1 mem - - -", "sdestroy 0", "rdestroy 0", "finalize"]
    run = yv.run_script(exe, lines, wd, name="c15_timeout_resume", hang=120, timeout=300)
    rets = [e for e in run.events if e["e"] == "ScanRet"]
    # the same source delivering blocks of 2048 bytes without ever answering not-ready: the deadline holds for small blocks too
    lines2 = ["init", "opt iterlog 0", "opt logmatches 0", "opt hang 120", "compiler 0", "add 0 - " + yv.hx(b'rule a { strings: $a = "needle" condition: $a }'), "getrules 0 0", "cdestroy 0",
              "scanner 0 0", "stimeout 0 1", "datarep 1 %s %d" % (yv.hx(b"abcd"), 12 * 512), "opt itersleep 700",
              "scan 0 1 blocks %s - -" % ",".join(["2048"] * 12), "opt itersleep 0", "stimeout 0 0", "scan 0 1 mem - - -", "sdestroy 0", "rdestroy 0", "finalize"]
    run2 = yv.run_script(exe, lines2, wd, name="c15_timeout_smallblocks", hang=120, timeout=300)
    rets2 = [e for e in run2.events if e["e"] == "ScanRet"]
    if not run2.complete or len(rets2) < 2:
        res.violation("timeout of a scan over small slow blocks: %s" % yv.crash_summary(run2), yv.save_replay("C15", "timeout_smallblocks_crash", {"crash": yv.crash_summary(run2)}))
    else:
        records.append({"kind": "timeout", "ret": rets2[0]["ret"], "ms": rets2[0]["ms"], "timeout": 1, "slack_ms": 4000})
        owners.append(("timeout", "12 blocks of 2048 bytes that take 700 ms each to arrive", rets2[0]["ms"], "ret=%d" % rets2[0]["ret"]))
        res.count(1, ("timeout", "small blocks"))
    if not run.complete or len(rets) < 2:
        res.violation("timeout of a suspended and repeated scan: %s" % yv.crash_summary(run), yv.save_replay("C15", "timeout_resume_crash", {"crash": yv.crash_summary(run)}))
    else:
        records.append({"kind": "timeout", "ret": rets[0]["ret"], "ms": rets[0]["ms"], "timeout": 1, "slack_ms": 4000})
        owners.append(("timeout", "scan suspended before each of 12 slow blocks and repeated (%d calls)" % rets[0]["calls"], rets[0]["ms"], "ret=%d" % rets[0]["ret"]))
        records.append({"kind": "recovered", "after": rets[1]["ret"], "after_normal": 0})
        owners.append(("timeout", "scanner reused after it", rets[1]["ms"], "ret=%d" % rets[1]["ret"]))
        res.count(1, ("timeout", "resumed"))
    bad, known, states = func.tlc_judge2(records, wd, "c15")
    res.cov["states"] += states; res.cov["transitions"] += states
    res.cov["traces_validated_against_impl"] += len(records) - len(bad)
    for b in bad:
        res.violation("limit contract broken: %s -> %s" % (json.dumps(owners[b])[:300], json.dumps(records[b])), yv.save_replay("C15", "limit_%d" % b, {"case": owners[b], "record": records[b]}))
    res.sample({"limit": "loop_nesting", "cases": [3, 4, 5, 6, 12], "documented": 4})
    res.sample({"timeout": tcases[0][0], "rule": tcases[0][1]})
    res.cov["rule"] = ("per limit (loop nesting, include depth, identifier length, lexer buffer, regexp repeat, integer literal, strings per rule at 3 settings, function arguments, evaluation "
                       "stack at 2 settings, regexp fibers with 3 bombs): cases at L-1, L, L+1, L+2 and far beyond, judged by Limits!LimitOK, each followed by a recovery check on the same "
                       "objects; match cap: production build (1,000,000) and scaled build (6) validated against Scan.tla incl. continue/abort/error replies; 5 long-running rule shapes "
                       "with a 1 s timeout judged by TimeoutOK (slack 4 s) and scanner reuse")
    res.assumptions += ["the timeliness bound is measured (slack 4 s); everything else is discrete", "the scaled build sets YR_MAX_STRING_MATCHES=6 so that the cap path is reachable with small data"]
