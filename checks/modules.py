"""C06: scanning arbitrary bytes with any module is memory-safe and terminates (exploration level).

The specification contributes (i) the contract of a scan for EVERY input (ModScanOK: success, one import + one imported
message per module, finished last) and (ii) the definition of the mutant space (FieldMut.tla: every byte position of every
seed treated as a potential offset / size / count field of width 1, 2, 4, 8 in both byte orders, set to the boundary values
relative to the file length; every truncation).  Memory errors are observed because the driver is ASan/UBSan-built; a
sanitizer report, a non-zero scan result or a hang is a violation."""
import os, sys, json, glob, time
sys.path.insert(0, os.path.join(os.path.dirname(os.path.abspath(__file__)), "..", "gen"))
import yv, scangen as sg
from checks import func

REPO = yv.REPO
MODS = ["pe", "elf", "dotnet", "macho", "dex", "math", "hash", "string", "time", "console", "tests"]

RULES = r'''
import "pe" import "elf" import "dotnet" import "macho" import "dex" import "math" import "hash" import "string" import "time" import "console" import "tests"
rule pe_fn { condition: pe.imphash() != "x" or pe.calculate_checksum() >= 0 or pe.exports("a") or pe.exports(/a/) or pe.exports(1) or pe.exports_index("a") >= 0
  or pe.imports("kernel32.dll") or pe.imports("kernel32.dll", "ExitProcess") or pe.imports(/k/, /E/) > 0 or pe.imports(pe.IMPORT_DELAYED, "a.dll") or pe.imports(pe.IMPORT_ANY, /a/, /b/) > 0
  or pe.import_rva("a.dll", "b") >= 0 or pe.delayed_import_rva("a.dll", "b") >= 0 or pe.locale(0x0409) or pe.language(0x09) or pe.is_dll() or pe.is_32bit() or pe.is_64bit()
  or pe.section_index(".text") >= 0 or pe.section_index(pe.entry_point) >= 0 or pe.rva_to_offset(pe.entry_point) >= 0 or pe.rva_to_offset(0x1000) >= 0 or pe.is_pe
  or pe.rich_signature.toolid(1) >= 0 or pe.rich_signature.version(1) >= 0 or pe.rich_signature.toolid(1, 2) >= 0 or pe.exports_index(1) >= 0 or pe.exports_index(/a/) >= 0 or pe.imports("a.dll", 1) or pe.import_rva("a.dll", 1) >= 0
  or for any s in pe.sections : ( s.raw_data_offset >= 0 and math.entropy(s.raw_data_offset, s.raw_data_size) >= 0.0 and hash.md5(s.raw_data_offset, s.raw_data_size) != "" )
  or for any r in pe.resources : ( r.offset >= 0 and hash.sha1(r.offset, r.length) != "" ) }
rule elf_fn { condition: for any s in elf.sections : ( hash.crc32(s.offset, s.size) >= 0 ) or for any p in elf.segments : ( math.mean(p.offset, p.file_size) >= 0.0 ) }
rule macho_fn { condition: macho.file_index_for_arch(7) >= 0 or macho.file_index_for_arch(7, 3) >= 0 or macho.entry_point_for_arch(7) >= 0 or macho.entry_point_for_arch(7, 3) >= 0 }
rule dex_fn { condition: dex.has_method("a") or dex.has_method("a", "b") or dex.has_method(/a/) or dex.has_method(/a/, /b/) or dex.has_class("a") or dex.has_class(/a/) }
rule misc_fn { condition: hash.md5(0, filesize) != "" or hash.sha256(0, filesize) != "" or hash.checksum32(0, filesize) >= 0 or hash.crc32(filesize - 1, 5) >= 0 or math.entropy(0, filesize) >= 0.0
  or math.deviation(0, filesize, 64.0) >= 0.0 or math.serial_correlation(0, filesize) >= -2.0 or math.monte_carlo_pi(0, filesize) >= 0.0 or math.mode() >= 0 or math.count(0) >= 0
  or math.percentage(0) >= 0.0 or string.to_int("1") == 1 or time.now() > 0 or uint32(filesize - 4) >= 0 or uint16be(filesize - 1) >= 0 or int8(filesize) >= 0 }
'''


def seeds(tier):
    paths = sorted(glob.glob(os.path.join(REPO, "tests/oss-fuzz/*_fuzzer_corpus/*")) + glob.glob(os.path.join(REPO, "tests/data/*")))
    out = []
    for p in paths:
        if not os.path.isfile(p) or "rules_fuzzer" in p or p.endswith((".yar", ".out", ".notes", "x.txt", "test-pb.data", ".bin", "base64")):
            continue
        sz = os.path.getsize(p)
        if sz > (40000 if tier == "quick" else 400000):
            continue
        out.append(p)
    return out


WARMUP = sg.minimal_pe()[0]


def anchor_positions(path, n):
    """positions right behind the structures the header of the seed points to: .NET metadata root / stream headers / table stream,
    DEX id tables, map list and class definitions, ELF section and program headers, PE data directories' targets are found by
    signature or by reading the seed's own header fields (no parsing beyond that)"""
    import struct
    try:
        d = open(path, "rb").read()
    except OSError:
        return []
    out = set()
    def span(o, k=96):
        if 0 <= o < n: out.update(range(o, min(n, o + k)))
    for sig in (b"BSJB", b"#~\0", b"#-\0", b"#Strings\0", b"#US\0", b"#GUID\0", b"#Blob\0"):
        i = d.find(sig)
        while i >= 0 and len(out) < 4000:
            span(i, 64); i = d.find(sig, i + 1)
    i = d.find(b"BSJB")
    if i >= 0 and i + 20 <= n:
        # .NET metadata root: follow the stream headers into the streams (#~ rows, #Blob signatures, #Strings, #US): positions spread
        # over each stream's content (deterministic: every k-th byte, k from the stream size)
        try:
            vlen = struct.unpack_from("<I", d, i + 12)[0]
            p = i + 16 + vlen + 2
            ns = struct.unpack_from("<H", d, p)[0]; p += 2
            for _ in range(min(ns, 8)):
                so, ss = struct.unpack_from("<II", d, p); p += 8
                e = d.index(b"\0", p); name = d[p:e]; p = (e + 4) & ~3
                base = i + so
                if 0 <= base < n and ss > 0:
                    span(base, 32)
                    step = max(1, min(ss, n - base) // (260 if name in (b"#~", b"#-", b"#Blob") else 60))
                    out.update(range(base, min(n, base + ss), step))
        except (struct.error, ValueError):
            pass
    if d[:3] == b"dex" and n >= 112:
        for off in range(0x34, 0x70, 4):                      # map_off and the (size, off) pairs of the id tables / class_defs / data
            v = struct.unpack_from("<I", d, off)[0]
            span(v, 64)
        cls_size, cls_off = struct.unpack_from("<II", d, 0x60)
        for k in range(min(cls_size, 4)):
            if cls_off + 32 * k + 32 <= n:
                for fo in (24, 12, 20, 28):                   # class_data_off, interfaces_off, annotations_off, static_values_off
                    span(struct.unpack_from("<I", d, cls_off + 32 * k + fo)[0], 48)
    if d[:4] == b"\x7fELF" and n >= 64:
        le = d[5] == 1
        if d[4] == 2:
            span(struct.unpack_from("<Q" if le else ">Q", d, 0x20)[0], 128); span(struct.unpack_from("<Q" if le else ">Q", d, 0x28)[0], 192)
        else:
            span(struct.unpack_from("<I" if le else ">I", d, 0x1c)[0], 96); span(struct.unpack_from("<I" if le else ">I", d, 0x20)[0], 160)
    if d[:2] == b"MZ" and n >= 0x40:
        pe = struct.unpack_from("<I", d, 0x3c)[0]
        if pe + 0x108 <= n and d[pe:pe + 4] == b"PE\0\0":
            span(pe, 0x108)
            nsec = struct.unpack_from("<H", d, pe + 6)[0]
            opt = struct.unpack_from("<H", d, pe + 20)[0]
            sec = pe + 24 + opt
            secs = []
            for k in range(min(nsec, 16)):
                if sec + 40 * k + 40 <= n:
                    va, rsz, roff = struct.unpack_from("<I", d, sec + 40 * k + 12)[0], struct.unpack_from("<I", d, sec + 40 * k + 16)[0], struct.unpack_from("<I", d, sec + 40 * k + 20)[0]
                    secs.append((va, rsz, roff))
            span(sec, 40 * min(nsec, 8))
            ddir = pe + 24 + (96 if struct.unpack_from("<H", d, pe + 24)[0] == 0x10b else 112)
            for k in range(16):
                if ddir + 8 * k + 8 > n: break
                rva = struct.unpack_from("<I", d, ddir + 8 * k)[0]
                for va, rsz, roff in secs:
                    if va <= rva < va + max(rsz, 1):
                        span(roff + rva - va, 72)
    return sorted(out)


def boundary_values(n, width):
    vals = {0, 1, n - 1, n, n + 1, 0x7fff, 0xffff, 0x7fffffff, 0x80000000, 0xffffffff, (1 << (8 * width)) - 1}
    return sorted(v for v in vals if 0 <= v < (1 << (8 * width)))


def c06(res, tier, seed):
    wd = yv.workdir("C06")
    r = yv.rng(seed, "c06")
    exe = yv.driver("asan")
    sds = seeds(tier)
    budget_per_seed = 400 if tier == "quick" else 8000
    records, owners = [], []
    sigs = set()
    evaluations = 0
    # per-seed random choices are drawn up front so that the batches can run in parallel and stay reproducible
    import concurrent.futures as cf, random as _random
    batch_seeds = {bi: r.getrandbits(48) for bi in range(0, len(sds), 3)}

    def run_batch(batch_i, subset=None):
        batch = subset or sds[batch_i:batch_i + 3]
        l_records, l_owners, l_sigs, l_eval, l_viol = [], [], set(), [0], []
        lines = ["init", "opt iterlog 0", "opt logmatches 0", "opt walkmodules 1", "opt flushscan 1", "opt hang 20", "compiler 0", "add 0 - " + yv.hx(RULES.encode()), "getrules 0 0", "cdestroy 0", "scanner 0 0"]
        plan = []
        for si, path in enumerate(batch):
            r = _random.Random("%d/%s" % (batch_seeds[batch_i], os.path.basename(path)))      # per seed: the same mutants when the seed is re-run alone
            n = os.path.getsize(path)
            lines.append("datafile %d %s" % (10 + si, path))
            muts = [("orig", 0, 0, 0, 0)]
            # every truncation (stride for large files)
            step = max(1, n // (40 if tier == "quick" else 400))
            for t in sorted(set(list(range(0, min(n, 80 if tier != "quick" else 24))) + list(range(0, n, step)) + [n - 1, n - 2])):
                if 0 <= t < n:
                    muts.append(("trunc", t, 0, 0, 0))
            # every byte position (header region exhaustively, stride sampling above) as a potential field
            positions = list(range(0, min(n, 512))) + list(range(512, n, max(1, n // 400)))
            anchors = anchor_positions(path, n)
            field = []
            # the tables a format points to from its header (found by following the seed's own offsets / signatures): half of the
            # budget goes to the bytes right behind them
            afield = []
            for p in anchors:
                for w in (1, 2, 4):
                    if p + w > n: continue
                    for v in boundary_values(n, w):
                        afield.append(("field", p, w, v, 0))
            if len(afield) > budget_per_seed // 2:
                afield = r.sample(afield, budget_per_seed // 2)
            muts += afield
            for p in positions:
                for w in (1, 2, 4, 8):
                    if p + w > n: continue
                    for v in boundary_values(n, w):
                        field.append(("field", p, w, v, 0))
                        if w > 1: field.append(("field", p, w, v, 1))
            if len(field) > budget_per_seed:
                field = r.sample(field, budget_per_seed)
            muts += field
            for m in muts:
                kind, a, w, v, be = m
                if kind == "orig": lines.append("scan 0 %d mem - - -" % (10 + si))
                elif kind == "trunc": lines += ["truncate %d 1 %d" % (10 + si, a), "scan 0 1 mem - - -"]
                else: lines += ["mutate %d 1 %d %d %d %d" % (10 + si, a, w, v, be), "scan 0 1 mem - - -"]
                plan.append((path, m))
        lines += ["sdestroy 0", "rdestroy 0", "leakcheck", "finalize"]
        run = yv.run_script(exe, lines, wd, name="c06_%d%s" % (batch_i, "_only" if subset else ""), hang=20, timeout=3000, parse=True)
        k = -1
        cur = None
        for e in run.events:
            if e["e"] == "Compile" and e["ret"] != 0:
                raise yv.Broken("module rule set does not compile: %s" % json.dumps(e["diag"])[:500])
            if e["e"] == "ScanCall":
                k += 1; cur = {"imp": 0, "imped": 0, "fin": 0, "sig": []}
            elif e["e"] == "Cb" and cur is not None:
                if e["msg"] == "import": cur["imp"] += 1
                elif e["msg"] == "imported": cur["imped"] += 1
                elif e["msg"] == "finished": cur["fin"] += 1
                elif e["msg"] in ("match", "nomatch"): cur["sig"].append(e["msg"][0])
            elif e["e"] == "ScanRet" and cur is not None and k < len(plan):
                l_records.append({"kind": "modscan", "ret": e["ret"], "nimport": cur["imp"], "nimported": cur["imped"], "finished": cur["fin"], "nmods": len(MODS)})
                l_owners.append(plan[k])
                l_sigs.add((os.path.basename(plan[k][0]), "".join(cur["sig"])))
                l_eval[0] += 1
                cur = None
        leaked_at_exit = (not run.complete) and "LeakSanitizer" in (run.stderr or "") and any(e["e"] == "End" for e in run.events)
        if leaked_at_exit and subset is None and len(batch) > 1:
            # memory was still allocated when the process ended: every seed of the batch is re-run alone to say which one leaks
            for path in batch:
                sub = run_batch(batch_i, [path])
                l_viol += sub[4]
        elif leaked_at_exit:
            frames = [ln.strip() for ln in (run.stderr or "").split("\n") if " in " in ln and "/repo/" in ln][:4]
            l_viol.append(("scanning the mutants of %s leaked memory (LeakSanitizer at exit): %s" % (os.path.basename(batch[0]), " < ".join(f.split(" in ", 1)[1] for f in frames)),
                           ("leak_%d_%s" % (batch_i, os.path.basename(batch[0])[:20]), {"seed": batch[0], "stderr": (run.stderr or "")[-4000:]})))
        elif not run.complete:
            bad = plan[k] if (cur is not None and 0 <= k < len(plan)) else (plan[k + 1] if 0 <= k + 1 < len(plan) else ("?", "?"))
            l_viol.append(("scanning a mutant of %s (%s) crashed / hung / leaked: %s" % (os.path.basename(bad[0]), bad[1], yv.crash_summary(run)),
                           ("crash_%d_%d" % (batch_i, k + 1), {"seed": bad[0], "mutation": bad[1], "crash": yv.crash_summary(run), "stderr": (run.stderr or "")[-3000:]})))
        return l_records, l_owners, l_sigs, l_eval[0], l_viol

    with cf.ThreadPoolExecutor(max_workers=min(12, os.cpu_count() or 4)) as ex:
        for l_records, l_owners, l_sigs, l_ev, l_viol in ex.map(run_batch, sorted(batch_seeds)):
            records += l_records; owners += l_owners; sigs |= l_sigs; evaluations += l_ev
            for msg, (rname, robj) in l_viol:
                res.violation(msg, yv.save_replay("C06", rname, robj))
    # ---- structured family (gen/pegen.py): every table of a generated PE placed last in the file, cut inside it, counts inflated
    import pegen, elfgen, machogen, dexgen, dotnetgen
    fam_pe = pegen.family(r, tier)
    fam_elf = [("ELF " + l, d) for l, d in elfgen.family(r, tier)]
    res.cov["parts"]["structured_pe_mutants"] = len(fam_pe)
    res.cov["parts"]["structured_elf_mutants"] = len(fam_elf)
    fam_macho = [("Mach-O " + l, d) for l, d in machogen.family(r, tier)]
    res.cov["parts"]["structured_macho_mutants"] = len(fam_macho)
    fam_dex = [("DEX " + l, d) for l, d in dexgen.family(r, tier)]
    res.cov["parts"]["structured_dex_mutants"] = len(fam_dex)
    fam_net = [(".NET " + l, d) for l, d in dotnetgen.family(r, tier)]
    res.cov["parts"]["structured_dotnet_mutants"] = len(fam_net)
    fam = fam_pe + fam_elf + fam_macho + fam_dex + fam_net
    queue = [fam[bi:bi + 400] for bi in range(0, len(fam), 400)]
    bi = -1
    while queue:
        part = queue.pop(0); bi += 1
        lines = ["init", "opt iterlog 0", "opt logmatches 0", "opt walkmodules 1", "opt flushscan 1", "opt hang 20", "compiler 0", "add 0 - " + yv.hx(RULES.encode()), "getrules 0 0", "cdestroy 0", "scanner 0 0"]
        for label, data in part:
            lines += ["data 1 " + yv.hx(data), "scan 0 1 mem - - -"]
        lines += ["sdestroy 0", "rdestroy 0", "leakcheck", "finalize"]
        run = yv.run_script(exe, lines, wd, name="c06_pe_%d" % bi, hang=20, timeout=3000, parse=True)
        k, cur = -1, None
        for e in run.events:
            if e["e"] == "ScanCall":
                k += 1; cur = {"imp": 0, "imped": 0, "fin": 0, "sig": []}
            elif e["e"] == "Cb" and cur is not None:
                if e["msg"] == "import": cur["imp"] += 1
                elif e["msg"] == "imported": cur["imped"] += 1
                elif e["msg"] == "finished": cur["fin"] += 1
                elif e["msg"] in ("match", "nomatch"): cur["sig"].append(e["msg"][0])
            elif e["e"] == "ScanRet" and cur is not None and k < len(part):
                records.append({"kind": "modscan", "ret": e["ret"], "nimport": cur["imp"], "nimported": cur["imped"], "finished": cur["fin"], "nmods": len(MODS)})
                owners.append(("generated executable", part[k][0]))
                sigs.add(("pegen", part[k][0].split(" cut=")[0], "".join(cur["sig"])))
                evaluations += 1
                cur = None
        ended = any(e["e"] == "End" for e in run.events)
        if not run.complete and ended and "LeakSanitizer" in (run.stderr or ""):
            # every scan returned, memory was still allocated at exit: bisect the batch for one input that leaks on its own
            def leaks(sub):
                ls = lines[:11]
                for label, data in sub: ls += ["data 1 " + yv.hx(data), "scan 0 1 mem - - -"]
                rr = yv.run_script(exe, ls + ["sdestroy 0", "rdestroy 0", "finalize"], wd, name="c06_bisect", hang=20, timeout=900, parse=False)
                return (not rr.complete) and "LeakSanitizer" in (rr.stderr or ""), rr
            sub, last = part, run
            while len(sub) > 1:
                half = sub[:len(sub) // 2]
                l1, r1 = leaks(half)
                if l1: sub, last = half, r1
                else:
                    l2, r2 = leaks(sub[len(sub) // 2:])
                    if not l2: break
                    sub, last = sub[len(sub) // 2:], r2
            frames = [ln.strip().split(" in ", 1)[1] for ln in (last.stderr or "").split("\n") if " in " in ln and "/repo/" in ln][:4]
            res.violation("scanning a generated executable (%s) leaked memory (LeakSanitizer): %s" % (sub[0][0] if len(sub) == 1 else "one of %d inputs" % len(sub), " < ".join(frames)),
                          yv.save_replay("C06", "pegen_leak_%d" % bi, {"generated": sub[0][0], "data_hex": sub[0][1].hex(), "stderr": (last.stderr or "")[-4000:]}))
        elif not run.complete:
            kk = k if cur is not None else k + 1
            label = part[kk][0] if 0 <= kk < len(part) else "?"
            res.violation("scanning a generated executable (%s) crashed / hung / leaked: %s" % (label, yv.crash_summary(run)),
                          yv.save_replay("C06", "pegen_%d_%d" % (bi, kk), {"generated": label, "data_hex": part[kk][1].hex() if 0 <= kk < len(part) else "", "crash": yv.crash_summary(run), "stderr": (run.stderr or "")[-3000:]}))
            if 0 <= kk < len(part) - 1 and bi < 60:
                queue.insert(0, part[kk + 1:])          # the mutants after the crashing one are still scanned
    bad, known, states = func.tlc_judge2(records, wd, "c06")
    res.cov["states"] += states; res.cov["transitions"] += states
    res.cov["traces_validated_against_impl"] += len(records) - len(bad)
    for b in bad[:10]:
        res.violation("scan contract broken on a mutant of %s (%s): %s" % (os.path.basename(owners[b][0]), owners[b][1], json.dumps(records[b])),
                      yv.save_replay("C06", "contract_%d" % b, {"seed": owners[b][0], "mutation": owners[b][1], "record": records[b]}))
    res.level = "exploration"
    res.cov["evaluations"] = evaluations
    res.cov["distinct_nontrivial"] = len(sigs)
    res.cov["parts"]["seeds"] = len(sds)
    res.sample({"seed": os.path.basename(sds[0]) if sds else None, "mutation": "field: 4 bytes at offset 60 := file length + 1 (little endian)"})
    res.sample({"rules": RULES[:400]})
    res.cov["rule"] = ("seeds = tests/data + tests/oss-fuzz corpora (PE, ELF, .NET, Mach-O, DEX); mutants per FieldMut.tla: every truncation length (stride for large files), every byte "
                       "position of the first 512 bytes and a stride above as a field of width 1/2/4/8, both byte orders, set to {0, 1, n-1, n, n+1, 2^15-1, 2^16-1, 2^31-1, 2^31, 2^32-1, "
                       "all-ones}; scanned with a rule set calling every function of every module while the imported-module callback walks the whole object tree; distinct_nontrivial = "
                       "distinct (seed, verdict vector) signatures = mutants that changed what the modules parsed; plus the structured family of gen/pegen.py: a generated PE32 with "
                       "exports (named, ordinal-only, forwarded), imports, delayed imports, a resource tree with a version block of 0..300 (thorough 1000) keys, debug/CodeView, Rich header "
                       "and certificate table, with every chunk placed last in the file x cuts inside it x every count field inflated; and of gen/elfgen.py: a generated ELF64 (both byte orders) with "
                       "program headers, .dynamic, .dynstr, .dynsym, .symtab, .strtab, .shstrtab and section headers, every chunk last x cuts, unterminated string tables at the end of the file, "
                       "every count / size / offset / name-index field set to boundary values relative to the file length; and of gen/machogen.py: thin 32/64-bit Mach-O images in both byte "
                       "orders (segments with sections, LC_UNIXTHREAD, LC_MAIN, an unknown command) and fat files with 32/64-bit arch tables, cut at every length near the end, load commands "
                       "ending exactly at the end of the file, every count / size / offset field at boundary values; and of gen/dexgen.py: a complete small DEX (id tables, class definition, class "
                       "data with padded ULEB128 values, code items, map list), every chunk last x cuts, every header / table / ULEB field at boundary values; and of gen/dotnetgen.py: a PE32 with CLI "
                       "header, metadata root, the five streams and 13 metadata tables: method signature blobs over every element type (nested, truncated, huge compressed integers) x ParamList "
                       "inside / past the Param table, every CLI / root / stream / table-header field at boundary values, wide heap indexes, tables declared but absent, list indexes past "
                       "their tables, metadata at the end of the file cut at every length")
    res.assumptions += ["memory safety for ALL byte strings is not decidable by this technique; a removed bounds check is detected iff a scheduled mutant reaches it (DESIGN.md section 6)"]
