from checks import scan
CHECKS = {
    "C10": scan.c10,
    "C11": scan.c11,
    "C13": scan.c13,
}
