from checks import scan, text, hexre
CHECKS = {
    "C02": hexre.c02,
    "C03": hexre.c03,
    "C01": text.c01,
    "C10": scan.c10,
    "C11": scan.c11,
    "C13": scan.c13,
}
