from checks import scan, text, hexre, cond, shortcuts, externals, arena, company, hashmath, faults, compilefuzz
CHECKS = {
    "C07": compilefuzz.c07,
    "C16": faults.c16,
    "C14": hashmath.c14,
    "C05": company.c05,
    "C08": arena.c08,
    "C17": arena.c17,
    "C19": arena.c19,
    "C20": externals.c20,
    "C12": shortcuts.c12,
    "C04": cond.c04,
    "C02": hexre.c02,
    "C03": hexre.c03,
    "C01": text.c01,
    "C10": scan.c10,
    "C11": scan.c11,
    "C13": scan.c13,
}
