from checks import scan, text
CHECKS = {
    "C01": text.c01,
    "C10": scan.c10,
    "C11": scan.c11,
    "C13": scan.c13,
}
