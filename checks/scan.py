"""C10 / C11 / C13 (+ the Scan.tla part of C15): scanner life cycle.

TLC model-checks Scan.tla (ScanMC configurations), then executions of the real library are recorded and validated
as behaviours of Scan.tla (ScanTrace.tla), all invariants on."""
import os, sys, json, itertools, time
sys.path.insert(0, os.path.join(os.path.dirname(os.path.abspath(__file__)), "..", "gen"))
import yv, scangen as sg
from scangen import C

F_MATCH, F_NOMATCH = 8, 16


# ----------------------------------------------------------------------------- generators
def rule(ns, glob, priv, mk, cond):
    return {"ns": ns, "global": glob, "private": priv, "mk": mk, "cond": cond}


def random_ruleset(r, nrules, nns, nmarkers, kinds, pglobal=0.2, pprivate=0.2, padprob=0.0):
    rules = []
    for i in range(1, nrules + 1):
        k = r.choice(kinds)
        mk = 0
        if k in ("M", "NM"):
            c = C(k); mk = r.randint(1, nmarkers)
        elif k == "Cnt":
            c = C(k, 0, r.randint(0, 3)); mk = r.randint(1, nmarkers)
        elif k in ("Ref", "NRef"):
            c = None   # resolved below: rule identifiers are visible inside their namespace only
        elif k == "FS":
            c = C(k, r.choice([0, 8, 64, 1024, 1100]))
        elif k == "EPV":
            c = C(k, r.choice([0x210, 0x90, 5]))
        else:
            c = C(k)
        ns = r.randint(1, nns)
        if c is None:
            earlier = [j + 1 for j, q in enumerate(rules) if q["ns"] == ns]
            c = C(k, r.choice(earlier)) if earlier else C("T")
        rules.append(rule(ns, r.random() < pglobal, r.random() < pprivate, mk, c))
        if mk and padprob and r.random() < padprob:
            rules[-1]["pad"] = r.choice([63, 64, 70, 130])
    # namespaces must appear as contiguous runs for "ns" to be the namespace index of the compiled rules:
    # sort by first appearance is not needed (any interleaving is legal: add_string may revisit a namespace)
    return rules


ALL_KINDS = ["T", "F", "M", "M", "NM", "Cnt", "Ref", "NRef", "EP", "EPV", "FS", "U8", "Undef", "Mod", "PeSec"]


def random_file(r, fid, nmarkers, nblocks=None, kind=None, u8=None):
    kind = kind or r.choice(["text", "text", "pe", "elf", "empty"])
    nblocks = nblocks or r.choice([1, 1, 2, 3, 4])
    if kind == "empty":
        spec = [{"mk": [0] * nmarkers, "filler": 0} for _ in range(nblocks)]
        return sg.make_file(fid, kind, spec, False, nmarkers)
    spec = []
    for b in range(nblocks):
        mk = [r.choice([0, 0, 1, 1, 2, 3]) for _ in range(nmarkers)]
        bs = {"mk": mk, "filler": r.choice([0, 1, 4, 7, 16]), "gap": r.choice([1, 2])}
        if r.random() < 0.15:
            bs = {"mk": [0] * nmarkers, "filler": 0}      # an empty block in the middle
        spec.append(bs)
    if kind in ("pe", "elf"):
        spec[0]["exe"] = kind
    if spec[-1].get("filler", 0) < 4:
        spec[-1]["filler"] = 4
    return sg.make_file(fid, kind, spec, r.random() < 0.5 if u8 is None else u8, nmarkers)


# ----------------------------------------------------------------------------- running a batch of executions
def script_for(execs):
    lines = ["init", "leakcheck"]
    did = 0
    for xi, x in enumerate(execs):
        lines.append("note exec%d" % xi)
        srcs, imports = sg.sources(x["rules"], x.get("extra_imports", ()))
        x["imports"] = imports
        lines.append("opt freshit 0")
        for o in x.get("pre_opts", ()):
            lines.append(o)
        lines.append("compiler 0")
        for ns, txt in srcs:
            lines.append("add 0 %s %s" % (ns, yv.hx(txt.encode())))
        lines.append("getrules 0 0")
        lines.append("cdestroy 0")
        if x.get("via_save"):
            lines += ["save 0 %s" % x["via_save"], "rdestroy 0", "load 0 %s" % x["via_save"]]
        lines.append("rinfo 0")
        for ri in x.get("disable", ()):
            lines.append("rdisable 0 %d" % ri)
        if x.get("api") != "rules":
            lines.append("scanner 0 0")
        for s in x["scans"]:
            did = (did + 1) % 4000
            if s.get("data_lines"):
                lines += s["data_lines"]       # the data is assembled by the driver in slot 1
                did = 1
            else:
                lines.append("data %d %s" % (did, yv.hx(s["data"])))
            fl = (F_MATCH if "match" in s["flags"] else 0) | (F_NOMATCH if "nomatch" in s["flags"] else 0)
            plan = ",".join("%d:%s" % (k, a) for k, a in s.get("plan", [])) or "-"
            if x.get("api") == "rules":
                lines.append("rscan 0 %d %s %d 0 %s" % (did, s["mode"], fl, plan))
                continue
            lines.append("sflags 0 %d" % fl)
            lines.append("stimeoutns 0 %d" % (1 if s["timeout"] else 0))
            blocks = ",".join(str(z) for z in s["sizes"]) if s["mode"] in ("blocks", "blocksnofs") else "-"
            nr = ",".join(str(z) for z in s.get("nr", [])) or "-"
            lines.append("scan 0 %d %s %s %s %s %d" % (did, s["mode"], blocks, nr, plan, s.get("maxcalls", 100)))
        if x.get("api") != "rules":
            lines.append("sdestroy 0")
        lines.append("rdestroy 0")
        lines.append("leakcheck")
    lines.append("finalize")
    return lines


def split_events(events):
    per = {}
    cur = None
    for ev in events:
        if ev["e"] == "Note" and ev["text"].startswith("exec"):
            cur = int(ev["text"][4:])
            per[cur] = []
        elif cur is not None:
            per[cur].append(ev)
    return per


def check_rules_info(x, evs):
    """The compiled rule table must be the abstract rule set (binding of rule indices / flags)."""
    for ev in evs:
        if ev["e"] == "Compile" and ev["ret"] != 0:
            return "generated rule text does not compile: %s" % json.dumps(ev["diag"])[:400]
        if ev["e"] == "RulesInfo":
            got = [(r["name"], r["global"], r["private"]) for r in ev["rules"]]
            exp = [(sg.rule_name(i + 1), int(r["global"]), int(r["private"])) for i, r in enumerate(x["rules"])]
            if got != exp:
                return "rule table differs from the abstract rule set: %s vs %s" % (got[:8], exp[:8])
            return None
    return "no RulesInfo event"


def validate(res, prop, execs, variant, name, tolerate_d9=True):
    """Run the executions, validate their traces against ScanTrace.tla. Returns number accepted."""
    wd = yv.workdir(prop)
    exe = yv.driver(variant)
    maxm = 6 if variant == "small" else 1000000
    run = yv.run_script(exe, script_for(execs), wd, name=name)
    per = split_events(run.events)
    if not run.complete:
        # the execution in progress when the driver died is the culprit
        bad = max(per) if per else 0
        rp = yv.save_replay(prop, "%s_crash_exec%d" % (name, bad), {"exec": strip(execs[bad]) if bad < len(execs) else None,
                            "variant": variant, "crash": yv.crash_summary(run), "script": run.script_path})
        res.violation("driver run did not complete (crash / sanitizer report / hang) in execution %d: %s" % (bad, yv.crash_summary(run)), rp)
        return 0
    records = []
    owner = []    # trace line -> execution index
    base = [ev["bytes"] for ev in run.events[:3] if ev["e"] == "LeakCheck"]
    heap = {"bytes": base[0] if base else None}
    for xi, x in enumerate(execs):
        evs = per.get(xi, [])
        lc = [ev["bytes"] for ev in evs if ev["e"] == "LeakCheck"]
        prev = heap.get("bytes")
        if lc:
            heap["bytes"] = lc[-1]
        if lc and prev is not None and lc[-1] > prev:
            rp = yv.save_replay(prop, "%s_leak_exec%d" % (name, xi), {"exec": strip(x), "variant": variant, "stderr": run.stderr[-3000:]})
            res.violation("memory leaked by execution %d (kind=%s): every object was destroyed but the live heap grew by %d bytes" % (xi, x.get("kind"), lc[-1] - prev), rp)
        msg = check_rules_info(x, evs)
        if msg:
            raise yv.Broken("execution %d (%s): %s" % (xi, x.get("kind"), msg))
        t = sg.to_trace(x.get("model_rules", x["rules"]), x["imports"], x["scans"], evs, maxm)
        if x.get("api") == "rules":
            for rec in t:
                if rec["e"] == "Ret":
                    rec["full"] = False
        records.extend(t)
        owner.extend([xi] * len(t))
    for rec in records:
        if rec["e"] == "Ret" and "full" not in rec:
            rec["full"] = True
    accepted = 0
    remaining = list(range(len(execs)))
    attempt = 0
    while records and attempt < 6:
        attempt += 1
        tp = os.path.join(wd, "%s_%d.ndjson" % (name, attempt))
        yv.write_ndjson(tp, records)
        r = yv.tlc("ScanTrace", "ScanTrace.cfg", wd, env={"TRACE": tp, "MAXM": maxm}, workers=1, coverage=False)
        res.cov["parts"].setdefault("trace_validation_states", 0)
        res.cov["parts"]["trace_validation_states"] += r["distinct"]
        if r["violated"] and "NotAccepted" in r["violated"]:
            accepted += len(set(owner))
            break
        import re
        m = re.search(r'"maxl", (\d+), "of", (\d+)', r["out"])
        if r["broken"] and not r["violated"] and not m:
            raise yv.Broken("TLC failed on ScanTrace (%s):\n%s" % (tp, r["out"][-3000:]))
        maxl = int(m.group(1)) if m else 1
        maxl = min(maxl, len(records))
        xi = owner[maxl - 1]
        x = execs[xi]
        lo = owner.index(xi)
        hi = len(owner) - owner[::-1].index(xi)
        sub = records[lo:hi]
        why = r["violated"] or ("trace line %d (%s) is not a step of Scan.tla" % (maxl - lo, json.dumps(records[maxl - 1])[:300]))
        # known finding D9: not-ready answered to an iterator call made during rule evaluation
        d9 = tolerate_d9 and any(rec["e"] == "Iter" and rec["ans"] == "notready" and in_exec for rec, in_exec in exec_phase_marks(sub))
        handled = False
        if d9 and yv.known_findings(prop_for_d9(prop)):
            tp2 = os.path.join(wd, "%s_%d_d9.ndjson" % (name, attempt))
            yv.write_ndjson(tp2, sub)
            r2 = yv.tlc("ScanTrace", "ScanTrace_D9.cfg", wd, env={"TRACE": tp2, "MAXM": maxm}, workers=1, coverage=False)
            if r2["violated"] and "NotAccepted" in r2["violated"]:
                res.known_finding("D9", "a not-ready answer given during rule evaluation is swallowed; the value read through the iterator is undefined")
                handled = True
        if not handled:
            rp = yv.save_replay(prop, "%s_exec%d" % (name, xi), {"exec": strip(x), "variant": variant, "why": why, "trace": sub,
                                                                   "rejected_at_line": maxl - lo})
            res.violation("%s [%s, execution kind=%s]" % (why, variant, x.get("kind")), rp)
        accepted += len(set(owner[:lo]))
        records = records[hi:]
        owner = owner[hi:]
    return accepted


def prop_for_d9(prop):
    return "C13"


def exec_phase_marks(trace):
    """Yield (record, in_exec_phase) - exec phase = after the null answer of the block loop, until Ret."""
    in_exec = False
    for rec in trace:
        if rec["e"] in ("Scan", "Resume"):
            in_exec = False
        yield rec, in_exec
        if rec["e"] == "Iter" and rec["ans"] == "null" and not in_exec:
            in_exec = True
        if rec["e"] == "Ret":
            in_exec = False


def strip(x):
    y = dict(x)
    y["scans"] = [{k: (v.hex() if isinstance(v, (bytes, bytearray)) else v) for k, v in s.items()} for s in x["scans"]]
    return y


def scan(file, data, sizes, flags=("match", "nomatch"), timeout=False, mode="mem", nr=(), plan=(), maxcalls=100):
    return {"file": file, "data": data, "sizes": sizes, "flags": list(flags), "timeout": timeout, "mode": mode,
            "nr": list(nr), "plan": list(plan), "maxcalls": maxcalls}


def model_check(res, cfgs, timeout=1500):
    for name, cfg in cfgs:
        r = yv.tlc("ScanMC", cfg, yv.workdir(res.prop), timeout=timeout, tier=res.tier)
        yv.require_tlc_ok(r, cfg) if not r["violated"] else None
        res.add_tlc(name, r)
        if r["violated"]:
            rp = yv.save_replay(res.prop, "model_" + name, {"cfg": cfg, "tlc_output": r["out"][-6000:]})
            res.violation("TLC: %s in %s (design-level counterexample)" % (r["violated"], cfg), rp)


def expect_model_violation(res, cfgs):
    """Non-vacuity: the model with the defect switched back in must violate the invariant."""
    for name, cfg, inv in cfgs:
        r = yv.tlc("ScanMC", cfg, yv.workdir(res.prop), timeout=600, coverage=False)
        ok = r["violated"] is not None and inv in r["violated"]
        res.cov["parts"]["nonvacuity_" + name] = "violated as expected" if ok else "NOT violated"
        if not ok:
            raise yv.Broken("non-vacuity run %s did not produce the expected violation of %s:\n%s" % (cfg, inv, r["out"][-2000:]))


# ----------------------------------------------------------------------------- C11
def c11(res, tier, seed):
    model_check(res, [("protocol", "MC_Scan_protocol.cfg")])
    r = yv.rng(seed, "c11")
    execs = []
    nsets = 40 if tier == "quick" else 400
    for si in range(nsets):
        big = si % 8 == 7
        nrules = r.randint(66, 80) if big else r.randint(1, 9)
        nns = r.randint(9, 14) if si % 4 == 3 else r.randint(1, 3)
        if si % 10 == 6:
            # more namespaces than the bits of half a word / a word of the per-namespace table, three rules each on average
            nns = r.choice([33, 40, 64, 65, 70]); nrules = 3 * nns; big = True
        rules = random_ruleset(r, nrules, nns, 2, ALL_KINDS, pglobal=0.25, pprivate=0.25)
        f, data, sizes = random_file(r, si + 1, 2, nblocks=1)
        # dry message count upper bound: 2 per import + rules + finished
        nmsg = 2 * 2 + nrules + 1
        for flags in (("match", "nomatch"), ("match",), ("nomatch",)):
            plans = [[]]
            ks = range(nmsg) if (nrules <= 9 and tier != "quick") else sorted(set(r.randrange(nmsg) for _ in range(3)))
            for k in ks:
                for a in "ae":
                    plans.append([(k, a)])
            scans = [scan(f, data, sizes, flags=flags, plan=p) for p in plans]
            if si % 2 == 0:
                # the protocol of a scan does not depend on how the previous call on the scanner ended: in every other execution a
                # scan through the block iterator is suspended (not-ready) and abandoned before some of the planned scans
                f2, data2, sizes2 = random_file(r, 1000 + si, 2, nblocks=2)
                mixed = []
                for sc_ in scans:
                    if r.random() < 0.4:
                        mixed.append(scan(f2, data2, sizes2, flags=flags, mode="blocks", nr=[r.randint(0, len(sizes2))], maxcalls=1))
                    mixed.append(sc_)
                scans = mixed
            execs.append({"rules": rules, "scans": scans, "kind": "c11-plans", "extra_imports": ["tests"] if si % 3 == 0 else []})
        globs = [j for j, q in enumerate(rules) if q["global"]]
        if globs and not big:
            # a rule disabled with yr_rule_disable is a rule whose condition is false: the scan of the real rules with some global
            # rules disabled must be a behaviour of the model for the rule set in which those conditions are `false` (a disabled
            # global rule keeps its namespace from matching, whether or not its strings occur in the data)
            dis = sorted(set(r.choice(globs) for _ in range(2)))
            mrules = [dict(q, cond=C("F")) if j in dis else q for j, q in enumerate(rules)]
            execs.append({"rules": rules, "model_rules": mrules, "disable": dis, "scans": [scan(f, data, sizes, flags=fl) for fl in (("match", "nomatch"), ("match",))],
                          "kind": "c11-disabled-globals"})
    run_chunks(res, "C11", execs, "asan", "c11")
    proc_endings(res, tier, yv.workdir("C11"))
    res.cov["rule"] = ("random rule sets (1-9 rules, every 8th 66-80 rules; 1-14 namespaces; global/private/global+private; "
                       "conditions over markers, rule references, entrypoint, filesize, uint8, undefined, tests/pe modules) x 3 "
                       "report-flag settings x callback plans (abort/error at message k); distinct = (rule set, flags, plan)")
    res.assumptions += ["CALLBACK_ABORT in reply to a module message is ignored by the library; the property is silent, the spec follows the code",
                        "markers never straddle block borders (generator invariant)"]


def run_chunks(res, prop, execs, variant, name, chunk=60):
    t0 = time.time()
    for ci in range(0, len(execs), chunk):
        part = execs[ci:ci + chunk]
        acc = validate(res, prop, part, variant, "%s_%d" % (name, ci // chunk))
        res.cov["traces_validated_against_impl"] += acc
        for x in part:
            for s in x["scans"]:
                res.count(1, (json.dumps(x["rules"], sort_keys=True), s["file"]["id"], tuple(s["flags"]), s["timeout"], s["mode"],
                              tuple(s["nr"]), tuple(map(tuple, s["plan"])), tuple(s["sizes"])))
        if part:
            x = part[0]
            res.sample({"kind": x.get("kind"), "rules": x["rules"][:4], "scan": {k: v for k, v in strip(x)["scans"][-1].items() if k != "data"}})
    res.cov["parts"][name + "_wall_s"] = round(time.time() - t0, 1)


# ----------------------------------------------------------------------------- C10
HIST_KINDS = ["T", "M", "NM", "Cnt", "Ref", "NRef", "EP", "EPV", "FS", "U8", "Mod", "PeSec", "Undef"]


def replay_scan_model(res, prop, tier, cfgname, nbeh, seed):
    """spec -> implementation: TLC enumerates every complete behaviour of ScanMC in the scope of spec/<cfgname> (ScanGen.tla: the
    environment's choices are logged in a ghost variable, so every distinct history is a distinct state) and prints each as JSON;
    a sample of them (all in the thorough tier when there are fewer than the budget) is turned into driver scripts - the rule set
    and the files are the model's own, realised by gen/scangen.py - run on the library and validated against ScanTrace.tla"""
    wd = yv.workdir(prop)
    t = yv.tlc("ScanGen", cfgname, wd, coverage=False, timeout=2400, xmx="16g")
    if t["broken"] and not t["violated"]:
        raise yv.Broken("ScanGen did not complete: %s" % t["out"][-1500:])
    defs, behs = None, []
    for ln in t["out"].split("\n"):
        if not ln.startswith('"'): continue
        try: v = json.loads(json.loads(ln))
        except Exception: continue
        if isinstance(v, dict) and v.get("model") == "definitions": defs = v
        elif isinstance(v, list): behs.append(v)
    if defs is None or not behs:
        raise yv.Broken("ScanGen printed no behaviours")
    res.cov["parts"]["model_behaviours_" + cfgname] = len(behs)
    r = yv.rng(seed, "scangen" + cfgname)
    if len(behs) > nbeh:
        behs = r.sample(behs, nbeh)
    rules = [rule(q["ns"], q["global"], q["private"], q["mk"], sg.C(q["cond"]["k"], q["cond"]["a"], q["cond"]["b"])) for q in defs["rs"]["rules"]]
    files = {}
    for f in defs["files"]:
        spec = []
        for bi, b in enumerate(f["blocks"]):
            bs = {"mk": list(b["mk"]), "filler": 0 if b["size"] == 0 else 4, "gap": 1}
            if b["ep"] >= 0: bs["exe"] = "pe" if f["pesec"] else "elf"
            if b.get("bomb"): bs["bomb"] = True
            spec.append(bs)
        files[f["id"]] = sg.make_file(f["id"], "x", spec, f["u8"], 2)
    execs = []
    for beh in behs:
        scans, cur = [], None
        for ev in beh:
            if ev["e"] == "Scan":
                if cur: scans.append(cur)
                fl = [x for x in ("match", "nomatch") if ev[x]]
                cur = {"f": ev["file"], "flags": fl, "timeout": ev["timeout"], "mode": ev["mode"], "it": 0, "cb": 0, "nr": [], "plan": [], "resumes": 0}
            elif cur is None: continue
            elif ev["e"] == "It": cur["it"] += 1
            elif ev["e"] == "NR": cur["nr"].append(cur["it"]); cur["it"] += 1
            elif ev["e"] == "Resume": cur["resumes"] += 1
            elif ev["e"] == "Cb":
                if ev["reply"] != "continue": cur["plan"].append((cur["cb"], ev["reply"][0]))
                cur["cb"] += 1
        if cur: scans.append(cur)
        xs = []
        for c in scans:
            f, data, sizes = files[c["f"]]
            mode = c["mode"] if (c["mode"] == "blocks" or len(sizes) > 1) else "mem"
            xs.append(scan(f, data, sizes, flags=c["flags"], timeout=c["timeout"], mode=mode, nr=c["nr"], plan=c["plan"], maxcalls=c["resumes"] + 1))
        execs.append({"rules": rules, "scans": xs, "kind": "model-behaviour"})
    run_chunks(res, prop, execs, "asan", "scangen_" + cfgname.split(".")[0])
    res.cov["parts"]["model_behaviours_replayed_" + cfgname] = len(execs)


def proc_histories(res, tier, wd):
    from checks import func
    """scans of a live process (content not modelled) ending in every way, each followed by a buffer scan on the same scanner:
    the buffer scan must report what a fresh scanner reports (entry point, pe / elf module values read through console.log)"""
    pe, _ = sg.minimal_pe()
    elf, _ = sg.minimal_elf()
    src = ('import "pe"\nimport "elf"\nimport "console"\n'
           'rule ep { condition: console.log("entrypoint=", entrypoint) }\n'
           'rule pep { condition: console.log("pe.entry_point=", pe.entry_point) }\n'
           'rule pec { condition: pe.entry_point == pe.rva_to_offset(pe.entry_point_raw) }\n'
           'rule pes { condition: console.log("pe.sections=", pe.number_of_sections) }\n'
           'rule pei { condition: console.log("pe.image_base=", pe.image_base) }\n'
           'rule elfe { condition: console.log("elf.entry_point=", elf.entry_point) }\n'
           'rule elft { condition: console.log("elf.type=", elf.type) }\n'
           'rule mk { strings: $a = "MK1;" condition: $a }\n')
    exe = yv.driver("plain")
    endings = ["-", "0:e", "1:e", "3:e", "0:a", "2:a"]
    lines = ["init", "opt iterlog 0", "opt logmatches 0", "compiler 0", "add 0 - " + yv.hx(src.encode()), "getrules 0 0", "cdestroy 0",
             "data 1 " + yv.hx(pe + b"MK1;"), "data 2 " + yv.hx(elf), "data 3 " + yv.hx(b"plain text MK1;")]
    cases = []
    for ending in endings:
        for tmo in (0, 1):
            for d in (1, 2, 3):
                lines += ["note h%d" % len(cases), "scanner 1 0", "scan 1 %d mem - - -" % d, "sdestroy 1",
                          "scanner 0 0"] + (["stimeout 0 1"] if tmo else []) + ["scan 0 %d proc - - %s" % (d, ending), "stimeout 0 0", "scan 0 %d mem - - -" % d, "sdestroy 0"]
                cases.append((ending, tmo, d))
    # a time limit set ONCE on a long-lived scanner is a limit per scan: scans made after more than that time has passed since it
    # was set (here 1.3 s of idling between scans, limit 1 s) report what a fresh scanner reports
    for d in (1, 3):
        lines += ["note h%d" % len(cases), "scanner 1 0", "scan 1 %d mem - - -" % d, "sdestroy 1",
                  "scanner 0 0", "stimeout 0 1", "scan 0 %d mem - - -" % d, "sleepms 1300", "scan 0 %d mem - - -" % d, "sdestroy 0"]
        cases.append(("idle", 1, d))
    lines += ["rdestroy 0", "finalize"]
    run = yv.run_script(exe, lines, wd, name="c10_proc", hang=120, timeout=1200)
    if not run.complete:
        res.violation("process scans followed by buffer scans: %s" % yv.crash_summary(run), yv.save_replay("C10", "proc_crash", {"crash": yv.crash_summary(run), "script": run.script_path}))
        return
    cur, per = None, {}
    for e in run.events:
        if e["e"] == "Note" and e["text"].startswith("h"):
            cur = per.setdefault(int(e["text"][1:]), {"scans": []})
        elif cur is None: continue
        elif e["e"] == "ScanCall": cur["scans"].append({"obs": [], "ret": None, "resid": None})
        elif e["e"] == "Cb" and cur["scans"]:
            if e["msg"] in ("match", "nomatch"): cur["scans"][-1]["obs"].append([e["msg"], e.get("rule")])
            elif e["msg"] == "log": cur["scans"][-1]["obs"].append(["log", e.get("text", e.get("log", ""))])
        elif e["e"] == "ScanRet" and cur["scans"]:
            cur["scans"][-1]["ret"] = e["ret"]; cur["scans"][-1]["resid"] = e.get("resid", {})
    records, owners = [], []
    nfailed = 0
    for k, (ending, tmo, d) in enumerate(cases):
        p = per.get(k)
        if not p or len(p["scans"]) != 3: continue
        fresh, proc, after = p["scans"]
        nfailed += proc["ret"] != 0
        records.append({"kind": "afterhistory", "fresh": fresh["obs"], "after": after["obs"], "fresh_ret": fresh["ret"], "after_ret": after["ret"],
                        "flags_changed": max((proc["resid"] or {}).get("flagsChanged", 0), (after["resid"] or {}).get("flagsChanged", 0))})
        owners.append(("buffer %d after a process scan (callback plan %s, timeout %d s) that returned %s" % (d, ending, tmo, proc["ret"]), json.dumps(fresh["obs"])[:300], json.dumps(after["obs"])[:300]))
        res.count(1, ("proc-history", ending, tmo, d))
    res.cov["parts"]["process_scan_histories"] = {"cases": len(records), "process_scans_that_failed": nfailed}
    bad, known, states = func.tlc_judge2(records, wd, "c10_proc")
    res.cov["states"] += states; res.cov["transitions"] += states
    res.cov["traces_validated_against_impl"] += len(records) - len(bad)
    for b in bad[:20]:
        res.violation("%s: a fresh scanner reports %s, this scanner %s (flags changed: %s)" % (owners[b][0], owners[b][1], owners[b][2], records[b]["flags_changed"]),
                      yv.save_replay("C10", "proc_history_%d" % b, {"case": owners[b][0], "record": records[b]}))


def proc_endings(res, tier, wd):
    """the replies of the callback end a scan of a live process (yr_scanner_scan_proc, content not modelled) as they end any
    other scan: judged on the recorded messages and the return value alone (FuncTrace!ProcEndOK)"""
    from checks import func
    src = ('import "tests"\nimport "console"\n'
           'rule t1 { condition: true }\nrule f1 { condition: false }\nglobal rule g1 { condition: filesize != 3 }\n'
           'rule lg { condition: console.log("x") }\nrule t2 { condition: tests.constants.one == 1 }\n')
    exe = yv.driver("plain")
    plans = ["-"] + ["%d:%s" % (k, a) for k in range(0, 11) for a in "ea"]
    lines = ["init", "opt iterlog 0", "opt logmatches 0", "compiler 0", "add 0 - " + yv.hx(src.encode()), "getrules 0 0", "cdestroy 0",
             "data 1 " + yv.hx(b"some plain text")]
    cases = []
    for plan in plans:
        for mode in ("proc", "mem"):
            lines += ["note q%d" % len(cases), "scanner 0 0", "scan 0 1 %s - - %s" % (mode, plan), "sdestroy 0"]
            cases.append((plan, mode))
    lines += ["rdestroy 0", "finalize"]
    run = yv.run_script(exe, lines, wd, name="c11_procend", hang=120, timeout=1200)
    if not run.complete:
        res.violation("process scans with callback plans: %s" % yv.crash_summary(run), yv.save_replay("C11", "procend_crash", {"crash": yv.crash_summary(run), "script": run.script_path}))
        return
    cur, per = None, {}
    for e in run.events:
        if e["e"] == "Note" and e["text"].startswith("q"):
            cur = per.setdefault(int(e["text"][1:]), {"cbs": [], "ret": None})
        elif cur is None: continue
        elif e["e"] == "Cb": cur["cbs"].append([e["msg"], e.get("reply", "continue")])
        elif e["e"] == "ScanRet": cur["ret"] = e["ret"]
    records, owners = [], []
    for k, (plan, mode) in enumerate(cases):
        p = per.get(k)
        if not p or p["ret"] is None: continue
        records.append({"kind": "procend", "cbs": p["cbs"], "ret": p["ret"]})
        owners.append((plan, mode, p))
        res.count(1, ("procend", plan, mode))
    res.cov["parts"]["scan_endings_by_entry_point"] = {"cases": len(records), "process_scans_with_messages": sum(1 for o in owners if o[1] == "proc" and o[2]["cbs"]),
                                                       "ended_by_a_reply": sum(1 for o in owners if o[2]["cbs"] and o[2]["cbs"][-1][1] != "continue")}
    bad, known, states = func.tlc_judge2(records, wd, "c11_procend")
    res.cov["states"] += states; res.cov["transitions"] += states
    res.cov["traces_validated_against_impl"] += len(records) - len(bad)
    for b in bad[:20]:
        res.violation("scan through entry point %s with callback plan %s: messages %s, returned %s" % (owners[b][1], owners[b][0], json.dumps(owners[b][2]["cbs"])[:300], owners[b][2]["ret"]),
                      yv.save_replay("C11", "procend_%d" % b, {"plan": owners[b][0], "mode": owners[b][1], "record": records[b]}))


def c10(res, tier, seed):
    model_check(res, [("history", "MC_Scan_history.cfg"), ("cap", "MC_Scan_cap.cfg"), ("fibers", "MC_Scan_fibers.cfg")])
    expect_model_violation(res, [("D1", "MC_Scan_history_D1.cfg", "ProtocolOK"), ("D10", "MC_Scan_history_D10.cfg", "NoLeak")])
    r = yv.rng(seed, "c10")
    for variant in ("asan", "small"):
        execs = []
        nhist = (30 if tier == "quick" else 300)
        for hi in range(nhist):
            nrules = r.randint(2, 8) if hi % 6 else r.randint(65, 75)
            nns = r.randint(1, 3) if hi % 5 else r.randint(9, 12)
            rules = random_ruleset(r, nrules, nns, 2, HIST_KINDS, padprob=0.15 if nrules < 10 else 0.0)
            fibers = hi % 3 == 1
            if fibers:
                # regexp family: markers matched through the regexp engine, plus a rule whose regexp exhausts the fiber pool on
                # "bomb" blocks: that scan must end with ERROR_TOO_MANY_RE_FIBERS and leave the scanner as good as new
                for q in rules:
                    if q["mk"] and not q.get("pad") and r.random() < 0.7: q["re"] = True
                if not any(q.get("re") for q in rules):
                    rules.append(rule(rules[-1]["ns"], False, False, 1, C("M"))); rules[-1]["re"] = True
                bomb = rule(rules[-1]["ns"], False, False, 0, C("F")); bomb["bomb"] = True
                rules.insert(r.randint(0, len(rules)), bomb)
                for q in rules:      # rule references are positional: re-resolve them after the insertion
                    if q["cond"]["k"] in ("Ref", "NRef"): q["cond"] = C("T")
                nrules = len(rules)
            scans = []
            for k in range(r.randint(2, 6) if tier == "quick" else r.randint(2, 12)):
                kind = r.choice(["pe", "elf", "text", "text", "empty"])
                f, data, sizes = random_file(r, 100 * hi + k + 1, 2, kind=kind)
                if fibers and k < 4 and r.random() < 0.5:
                    spec = [{"mk": [r.choice([0, 1, 2]), r.choice([0, 1])], "filler": 3, "gap": 1} for _ in range(r.choice([1, 1, 2, 3]))]
                    spec[r.randrange(len(spec))]["bomb"] = True
                    f, data, sizes = sg.make_file(100 * hi + k + 1, "text", spec, r.random() < 0.5, 2)
                if variant == "small" and r.random() < 0.5 and kind != "empty":
                    # overflow the match cap of marker 1 (cap 6 in the small build)
                    spec = [{"mk": [r.choice([4, 7, 9]), r.choice([0, 1])], "filler": 4, "gap": 1}]
                    if r.random() < 0.5:
                        spec.append({"mk": [r.choice([0, 3, 7]), 1], "filler": 4})
                    f, data, sizes = sg.make_file(100 * hi + k + 1, "text", spec, r.random() < 0.5, 2)
                outcome = r.choice(["ok", "ok", "abort", "error", "timeout", "notready-resume", "notready-abandon"])
                mode = r.choice(["blocks", "blocks", "blocksnofs"]) if len(sizes) > 1 or outcome.startswith("notready") else r.choice(["mem", "blocks", "blocksnofs", "file", "fd"])
                plan, nr, to, maxcalls = [], [], False, 100
                if outcome in ("abort", "error"):
                    plan = [(r.randint(0, nrules + 3), outcome[0])]
                elif outcome == "timeout":
                    to = f["size"] > 0 and f["blocks"][0]["size"] > 0
                elif outcome == "notready-resume":
                    nr = sorted(set(r.randint(0, len(sizes)) for _ in range(r.randint(1, 2))))   # block loop only (C13 owns the rest)
                elif outcome == "notready-abandon":
                    nr = [r.randint(0, len(sizes))]
                    maxcalls = 1
                if variant == "small" and r.random() < 0.4:
                    plan = plan + [(r.randint(0, 2), r.choice("ae"))]   # may hit a toomany message
                scans.append(scan(f, data, sizes, timeout=to, mode=mode, nr=nr, plan=plan, maxcalls=maxcalls,
                                  flags=r.choice([("match", "nomatch"), ("match",), ("nomatch",)])))
            execs.append({"rules": rules, "scans": scans, "kind": "c10-history"})
        run_chunks(res, "C10", execs, variant, "c10_" + variant)
    proc_histories(res, tier, yv.workdir("C10"))
    replay_scan_model(res, "C10", tier, "ScanGen.cfg", 200 if tier == "quick" else 20000, seed)
    res.cov["rule"] = ("histories of 2-12 scans on one scanner over PE/ELF/text/empty files x outcomes (ok, abort/error at message k, "
                       "1 ns timeout, not-ready resumed / abandoned, match cap hit in the scaled build, regexp fiber pool exhausted by a bomb block "
                       "with the other strings matched through the regexp engine, continue/stop); every call's "
                       "callbacks, result and residual scanner state validated against Scan.tla; distinct = distinct (rules, scan) tuples")
    res.assumptions += ["the 'small' build scales YR_MAX_STRING_MATCHES to 6 so the cap path is reachable; production constant in 'asan'",
                        "the scanner is destroyed at the end of every history, also when the last call left it suspended (LeakSanitizer judges)"]


# ----------------------------------------------------------------------------- C13
def partitions(n, maxparts):
    """all compositions of n into <= maxparts parts (parts may be 0-size only via explicit empties elsewhere)"""
    out = []
    def rec(rem, parts):
        if len(parts) == maxparts - 1 or rem == 0:
            out.append(parts + [rem]) if rem or not parts else out.append(parts)
            return
        for k in range(1, rem + 1):
            rec(rem - k, parts + [k])
    rec(n, [])
    return out


def chain_resume(res, tier, wd, r):
    """strings that the compiler splits into chained pieces, the pieces of one occurrence lying in different blocks, and every
    subset of not-ready answers: the repeated scan reports what the uninterrupted scan of the same blocks reports (the state of
    half-confirmed chains survives a suspension)"""
    from checks import func
    exe = yv.driver("asan")
    src = ('rule chain { strings: $c = { 11 22 33 [250-500] 44 55 66 } condition: $c }\n'
           'rule chain3 { strings: $d = { AA BB [210-260] CC DD [205-300] EE FF } condition: $d }\n'
           'rule unb { strings: $u = { 71 72 73 [-] 74 75 76 } condition: $u }\n'
           'rule plain { strings: $p = "MK1;" condition: #p == 2 }\n')
    fill = lambda n: bytes(0x2e for _ in range(n))
    # (offsets of matches are relative to their block: the distances below are the ones the engine computes across blocks)
    d1 = fill(10) + bytes.fromhex("112233") + fill(100) + b"MK1;" + fill(183) + fill(300) + bytes.fromhex("445566") + fill(40) + b"MK1;" + fill(53)          # 300 + 400
    d2 = (fill(5) + bytes.fromhex("aabb") + fill(43) + bytes.fromhex("717273") + fill(247)                    # 300: heads of chain3 and unb
          + fill(237) + bytes.fromhex("ccdd") + fill(61)                                                       # 300: middle of chain3
          + fill(100) + bytes.fromhex("747576") + fill(386) + bytes.fromhex("eeff") + fill(109))               # 600: tails
    layouts = [(d1, "300,400"), (d1, "300,200,200"), (d2, "300,300,600"), (d2, "300,300,300,300")]
    lines = ["init", "opt iterlog 0", "compiler 0", "add 0 - " + yv.hx(src.encode()), "getrules 0 0", "cdestroy 0", "scanner 0 0"]
    cases = []
    for li, (data, spec) in enumerate(layouts):
        nb = spec.count(",") + 1
        lines.append("data %d %s" % (li + 1, yv.hx(data)))
        subsets = [()]
        for m in (1, 2):
            subsets += list(itertools.combinations(range(nb + 2), m))
        if tier == "quick":
            subsets = [()] + r.sample(subsets[1:], min(10, len(subsets) - 1))
        for nr in subsets:
            lines += ["note r%d" % len(cases), "scan 0 %d blocks %s %s -" % (li + 1, spec, ",".join(map(str, nr)) if nr else "-")]
            cases.append((li, spec, nr))
    lines += ["sdestroy 0", "rdestroy 0", "finalize"]
    run = yv.run_script(exe, lines, wd, name="c13_chain", hang=120, timeout=900)
    if not run.complete:
        res.violation("chained strings across suspended scans: %s" % yv.crash_summary(run), yv.save_replay("C13", "chain_crash", {"crash": yv.crash_summary(run), "script": run.script_path}))
        return
    cur, per = None, {}
    for e in run.events:
        if e["e"] == "Note" and e["text"].startswith("r"): cur = per.setdefault(int(e["text"][1:]), {"obs": [], "ret": None})
        elif cur is None: continue
        elif e["e"] == "Cb" and e["msg"] in ("match", "nomatch"): cur["obs"].append([e["msg"], e.get("rule"), [[x["id"], x["m"]] for x in e.get("strings", [])]])
        elif e["e"] == "ScanRet": cur["ret"] = e["ret"]
    base = {}
    records, owners = [], []
    for k, (li, spec, nr) in enumerate(cases):
        p = per.get(k)
        if p is None: continue
        if nr == (): base[(li, spec)] = p
        ref = base.get((li, spec))
        if ref is None or nr == (): continue
        records.append({"kind": "afterhistory", "fresh": ref["obs"], "after": p["obs"], "fresh_ret": ref["ret"], "after_ret": p["ret"], "flags_changed": 0})
        owners.append(("blocks %s, not-ready at iterator calls %s" % (spec, list(nr)), json.dumps(ref["obs"])[:300], json.dumps(p["obs"])[:300]))
        res.count(1, ("chain-resume", li, spec, nr))
    res.cov["parts"]["chained_strings_across_suspensions"] = {"cases": len(records), "rules_matching_uninterrupted": sorted({o[1] for b_ in base.values() for o in b_["obs"] if o[0] == "match"})}
    bad, known, states = func.tlc_judge2(records, wd, "c13_chain")
    res.cov["states"] += states; res.cov["transitions"] += states
    res.cov["traces_validated_against_impl"] += len(records) - len(bad)
    for b_ in bad[:10]:
        res.violation("chained strings, %s: the uninterrupted scan reports %s, the repeated one %s" % owners[b_], yv.save_replay("C13", "chain_resume_%d" % b_, {"case": owners[b_][0], "record": records[b_]}))


def c13(res, tier, seed):
    model_check(res, [("resume", "MC_Scan_resume.cfg")])
    expect_model_violation(res, [("D9", "MC_Scan_resume_D9.cfg", "ProtocolOK")])
    r = yv.rng(seed, "c13")
    execs = []
    # (1) all block partitions x all not-ready subsets of the block loop's iterator calls
    nsets = 6 if tier == "quick" else 40
    for si in range(nsets):
        rules = random_ruleset(r, r.randint(3, 7), 2, 2, ["M", "NM", "Cnt", "Cnt", "FS", "U8", "Ref", "NRef", "T", "Mod", "EP", "EPV"])
        nb = r.choice([1, 2, 3]) if tier == "quick" else r.choice([2, 3, 4])
        kind = r.choice(["text", "text", "elf", "pe"])
        f, data, sizes = random_file(r, si + 1, 2, nblocks=nb, kind=kind, u8=True)
        ncalls = len(sizes) + 1               # first + next per block + final null
        scans = []
        subsets = []
        for m in range(0, min(ncalls, 3) + 1):
            subsets += list(itertools.combinations(range(ncalls + 2), m))
        if tier == "quick":
            subsets = r.sample(subsets, min(len(subsets), 12))
        for nr in subsets:
            scans.append(scan(f, data, sizes, mode="blocks", nr=nr))
        # not-ready also inside the re-iteration done by rule evaluation (known finding D9 when it flips a value)
        for extra in range(3):
            k = ncalls + r.randint(0, 2 * len(sizes) + 2)
            scans.append(scan(f, data, sizes, mode="blocks", nr=[k]))
        # every other execution repeats the call with a NEW iterator structure for the same source (a wrapper that builds it per call)
        execs.append({"rules": rules, "scans": scans, "kind": "c13-notready-subsets", "pre_opts": ["opt freshit %d" % (si % 2)]})
    # (2) entry-point matrix: same bytes through every entry point; empty and page-aligned buffers
    for si in range(8 if tier == "quick" else 60):
        rules = random_ruleset(r, r.randint(2, 6) if si % 2 else r.randint(10, 20), 2 if si % 2 else r.randint(2, 10), 2, ["M", "NM", "Cnt", "FS", "U8", "T", "Mod", "EP", "EPV", "PeSec"])
        size_kind = r.choice(["empty", "page", "page2", "rand", "pe", "elf"])
        if size_kind == "empty":
            f, data, sizes = sg.make_file(si + 1, "empty", [{"mk": [0, 0], "filler": 0}], False, 2)
        elif size_kind in ("page", "page2"):
            n = 4096 * (1 if size_kind == "page" else 2)
            spec = [{"mk": [2, 1], "filler": 0, "gap": 1}]
            f0, d0, _ = sg.make_file(si + 1, "text", spec, False, 2)
            spec[0]["filler"] = n - len(d0)
            f, data, sizes = sg.make_file(si + 1, "text", spec, True, 2)
            assert len(data) == n
        else:
            f, data, sizes = random_file(r, si + 1, 2, nblocks=1, kind=size_kind if size_kind in ("pe", "elf") else "text")
        for fc in rules:
            if fc["cond"]["k"] == "FS":
                fc["cond"]["a"] = r.choice([f["size"], f["size"], 0, 1])
        scans = [scan(f, data, sizes, mode=m) for m in ("mem", "file", "fd", "blocks")]
        # the scanner object is not new when the matrix starts: a scan of other bytes, on which most rules match, comes first
        f2, d2, s2 = sg.make_file(1000 + si, "pe", [{"mk": [2, 3], "filler": 5, "gap": 1, "exe": "pe"}], True, 2)
        scans = [scan(f2, d2, s2, mode="mem")] + scans
        execs.append({"rules": rules, "scans": scans, "kind": "c13-entrypoints-scanner"})
        execs.append({"rules": rules, "scans": [scan(f, data, sizes, mode=m) for m in ("mem", "file", "fd")], "kind": "c13-entrypoints-rules", "api": "rules"})
    run_chunks(res, "C13", execs, "asan", "c13", chunk=40)
    chain_resume(res, tier, yv.workdir("C13"), r)
    res.cov["rule"] = ("(1) random rule sets x files cut into 1-4 blocks x subsets (size <= 3) of the block loop's iterator calls answering "
                       "not-ready, the call repeated until completion, plus not-ready answers inside the re-iteration made by rule evaluation; "
                       "(2) the same bytes through yr_scanner_scan_mem/file/fd, a single-block iterator (on a scanner that scanned other bytes before; 2-20 rules, up to 10 namespaces) and yr_rules_scan_mem/file/fd, incl. "
                       "empty and page-aligned buffers; distinct = (rules, file, mode, not-ready subset)")
    res.assumptions += ["yr_*_scan_proc is not exercised (needs ptrace on a live process)",
                        "the iterator repeats a block that was answered not-ready (contract of tests/util.c's test iterator)"]
