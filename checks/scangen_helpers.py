"""helpers building large abstract files for Scan.tla traces without shipping megabytes through the script"""
import os, sys
sys.path.insert(0, os.path.join(os.path.dirname(os.path.abspath(__file__)), "..", "gen"))
import yv, scangen as sg


def flood_file(fid, counts, tail_counts):
    """one block: counts[m] markers m, then tail_counts[m] more; built in the driver with datarep/datacat (slots 10-13)"""
    lines = []
    parts = []
    slot = 10
    size = 0
    tot = [0] * len(counts)
    for series in (counts, tail_counts):
        for m, cnt in enumerate(series, start=1):
            if cnt <= 0: continue
            unit = b"." + sg.marker(m)
            lines.append("datarep %d %s %d" % (slot, yv.hx(unit), cnt))
            parts.append(slot); slot += 1
            size += len(unit) * cnt
            tot[m - 1] += cnt
    lines.append("data %d %s" % (slot, yv.hx(b"....")))
    parts.append(slot); size += 4
    lines.append("datacat 1 " + " ".join(str(p) for p in parts))
    f = {"id": fid, "size": size, "u8": False, "pesec": False, "ext": 0, "blocks": [{"size": size, "mk": tot, "ep": sg.UNDEF}]}
    return f, lines
