"""C12: shortcuts and compile-time evaluation never change a verdict.

Every twin (constant / constant expression / external at 3 levels / forced evaluation / fast mode / atom quality table)
is judged by TLC against the same reference semantics (Cond.tla, TextMatch.tla, ReMatch.tla): equal references imply
equal twins."""
import os, sys, json, time, itertools
sys.path.insert(0, os.path.join(os.path.dirname(os.path.abspath(__file__)), "..", "gen"))
import yv, condgen as cg
from checks import func, cond, text, hexre
from checks.hexre import judge_and_report, KNOWN_TEXT

OPS = ["+", "-", "*", "\\", "%", "&", "|", "^", "<<", ">>"]
VALS = [0, 1, 2, 3, 5, 8]
SHIFTS = [0, 1, 2, 3, 64, 65]


def I(v): return {"t": "int", "v": v}


def positions(E):
    """conditions in which the integer expression E decides the verdict"""
    a = "$_a"
    return [
        ("at", {"t": "sat", "s": a, "x": E}),
        ("in", {"t": "sin", "s": a, "lo": E, "hi": {"t": "bin", "op": "+", "l": E, "r": I(4)}}),
        ("of", {"t": "of", "q": "n", "qv": E, "set": list(cg.STRS)}),
        ("fs", {"t": "cmp", "op": "==", "l": {"t": "filesize"}, "r": E}),
        ("cnt", {"t": "cmp", "op": "==", "l": {"t": "scountin", "s": a, "lo": I(0), "hi": E}, "r": I(1)}),
        ("idx", {"t": "cmp", "op": ">=", "l": {"t": "soff", "s": a, "i": E}, "r": I(0)}),
        ("not_at", {"t": "not", "x": {"t": "sat", "s": a, "x": E}}),
    ]


def leaf_variants(v):
    """the same integer as a literal, as a non-constant expression and as an external (value bound later)"""
    return [("lit", I(v)),
            ("expr", {"t": "bin", "op": "+", "l": {"t": "bin", "op": "-", "l": {"t": "filesize"}, "r": {"t": "filesize"}}, "r": I(v)}),
            ("ext", {"t": "ext", "name": "ext_k"})]


def pyval(op, x, y):
    """value of the twin expression (None when it is undefined or does not fit a small buffer offset)"""
    try:
        if op == "neg": return -x
        if op == "bnot": return None
        if op == "+": return x + y
        if op == "-": return x - y
        if op == "*": return x * y
        if op == "\\": return None if y == 0 else int(x / y)
        if op == "%": return None if y == 0 else x - y * int(x / y)
        if op == "&": return x & y
        if op == "|": return x | y
        if op == "^": return x ^ y
        if op == "<<": return None if y < 0 or y >= 64 else x << y
        if op == ">>": return None if y < 0 else (x >> y if y < 64 else 0)
    except Exception:
        return None
    return None


def c12(res, tier, seed):
    r = yv.rng(seed, "c12")
    wd = yv.workdir("C12")
    # ---------------- model: compile-time folding vs run-time semantics (Fold.tla)
    m = yv.tlc("Fold", "MC_Fold.cfg", wd, timeout=600)
    if not m["violated"]:
        yv.require_tlc_ok(m, "MC_Fold.cfg")
    res.add_tlc("fold", m)
    if m["violated"]:
        res.violation("TLC: %s in MC_Fold.cfg" % m["violated"], yv.save_replay("C12", "model_fold", {"tlc": m["out"][-4000:]}))
    for name, cfg in (("D2", "MC_Fold_D2.cfg"), ("D3", "MC_Fold_D3.cfg")):   # non-vacuity: the as-coded folding violates FoldSound
        v = yv.tlc("Fold", cfg, wd, timeout=600, coverage=False)
        if not (v["violated"] and "FoldSound" in v["violated"]):
            raise yv.Broken("non-vacuity run %s did not violate FoldSound" % cfg)
        res.cov["parts"]["nonvacuity_" + name] = "violated as expected"
    # ---------------- (A) folding twins, externals at three levels
    groups, metas = [], []
    combos = []
    for op in OPS:
        for x in VALS:
            for y in (SHIFTS if op in ("<<", ">>") else VALS):
                combos.append((op, x, y))
    for op in ("<<", ">>"):                  # negative left operands: the compile-time fold must shift like the VM does (arithmetic)
        for x in (-16, -3, -1):
            for y in (1, 2, 3):
                combos.append((op, x, y))
    for x in VALS:
        combos.append(("neg", x, 0)); combos.append(("bnot", x, 0))
    if tier == "quick":
        combos = r.sample(combos, 90) + [c for c in combos if c[1] < 0 and c[0] == ">>"][:6]
    buf_pool = [cond.cond_buffer(r) for _ in range(40)]
    fixed = [b"#1#", b"..#1#", b"#1##1#", b".#1#.+2+.=3=", b"", b"0123#1#7#1#", b"#1#+2+=3=#1#"]
    for op, x, y in combos:
        for lname, lx in leaf_variants(x):
            if op == "neg": E = {"t": "neg", "x": lx}
            elif op == "bnot": E = {"t": "bnot", "x": {"t": "bnot", "x": lx}} if r.random() < 0.5 else {"t": "bin", "op": "&", "l": {"t": "bnot", "x": lx}, "r": I(7)}
            else: E = {"t": "bin", "op": op, "l": lx, "r": I(y)}
            if x < 0 and op == ">>":
                E = {"t": "bin", "op": "+", "l": {"t": "paren", "x": E}, "r": I(10)}      # (-16 >> 2) + 10 = 6: a usable offset / count
            # the value of E, to plant the string exactly there (the shortcut taken for `$a at <constant>` keeps only matches at the
            # offset the compiler computed: a wrong compile-time value shows only when the string really is at the right one)
            vE = pyval(op, x, y)
            if x < 0 and op == ">>" and vE is not None: vE += 10
            planted = [b"." * vE + b"#1#..", b"." * vE + b"#1#" + b"." * 5 + b"#1#"] if vE is not None and 0 <= vE <= 48 else []
            ps = positions(E)
            chosen = ps if tier != "quick" else ([ps[0]] + r.sample(ps[1:], 2) if planted else r.sample(ps, 3))
            for pname, ast in chosen:
                txt = cg.show(ast)[0]
                bufs = fixed + planted + r.sample(buf_pool, 3)
                if lname != "ext":
                    groups.append({"src": cond.rule_text(txt), "bufs": bufs, "pre": cond.EXT_DEFS + ["cdefine 0 i ext_k %d" % x]})
                    metas.append((txt + "  [leaf=%s]" % lname, ast, dict(cond.EXT_ENV, ext_k={"ty": "i", "v": x})))
                else:
                    # the external is defined as x at compile time / redefined to x on the rule set / on the scanner
                    for lvl in ("compile", "rules", "scanner"):
                        other = x + r.choice([1, 2, 3])
                        pre = cond.EXT_DEFS + ["cdefine 0 i ext_k %d" % (x if lvl == "compile" else other)]
                        g = {"src": cond.rule_text(txt), "bufs": bufs, "pre": pre}
                        if lvl == "rules":
                            g["post_rules"] = ["rdefine 0 i ext_k %d" % x]
                        if lvl == "scanner":
                            g["post_scanner"] = ["sdefine 0 i ext_k %d" % x]
                        groups.append(g)
                        metas.append((txt + "  [ext_k=%d defined at %s level]" % (x, lvl), ast, dict(cond.EXT_ENV, ext_k={"ty": "i", "v": x})))
    # ranges whose bounds are constants / constant expressions / externals / run-time values: the static check rejects exactly
    # lo > hi and lo < 0 among constants ((n..n) is a valid inclusive range); the accepted twins must agree on every buffer
    rvals = [-1, 0, 1, 2, 5] if tier == "quick" else [-2, -1, 0, 1, 2, 3, 5, 9]
    def bound_variants(v):
        out = [("lit", I(v)), ("ext", {"t": "ext", "name": "ext_k"})]
        if v >= 2: out.append(("sum", {"t": "bin", "op": "+", "l": I(v - 2), "r": I(2)}))
        out.append(("run", {"t": "bin", "op": "+", "l": {"t": "bin", "op": "-", "l": {"t": "filesize"}, "r": {"t": "filesize"}}, "r": I(v)}))
        return out
    nrange = 0
    for lo in rvals:
        for hi in rvals:
            for (ln, le), (hn, he) in itertools.product(bound_variants(lo), bound_variants(hi)):
                if ln == "ext" and hn == "ext" and lo != hi:
                    continue                  # one external only
                if tier == "quick" and (ln, hn) not in (("lit", "lit"), ("lit", "sum"), ("sum", "lit")) and r.random() < 0.8:
                    continue
                xv = lo if ln == "ext" else hi
                shapes = [{"t": "sin", "s": "$_a", "lo": le, "hi": he},
                          {"t": "cmp", "op": ">=", "l": {"t": "scountin", "s": "$_a", "lo": le, "hi": he}, "r": I(1)},
                          {"t": "ofin", "q": "any", "set": list(cg.STRS), "lo": le, "hi": he},
                          {"t": "forin", "q": "any", "var": "i0", "it": "range", "lo": le, "hi": he, "body": {"t": "sat", "s": "$_a", "x": {"t": "var", "name": "i0"}}}]
                for a in (shapes if tier != "quick" else r.sample(shapes, 2)):
                    txt = cg.show(a)[0]
                    bufs = [b"#1#", b".#1#", b"..#1#", b".....#1#", b"", b"#1#...#1#"]
                    groups.append({"src": cond.rule_text(txt), "bufs": bufs, "pre": cond.EXT_DEFS + ["cdefine 0 i ext_k %d" % xv]})
                    metas.append((txt + "  [range bounds %s/%s]" % (ln, hn), a, dict(cond.EXT_ENV, ext_k={"ty": "i", "v": xv})))
                    nrange += 1
    res.cov["parts"]["c12_range_bound_twins"] = nrange
    records, owners = cond.make_records(res, "C12", groups, metas, wd, "c12_fold")
    judge_and_report(res, "C12", records, owners, lambda o: {"condition": o[0], "buf": o[1], "verdict": o[2], "matches": o[3]}, wd, "c12_fold")
    for o in owners[:2]:
        res.sample({"twin": o[0], "buf": o[1], "verdict": o[2]})

    # ---------------- (B) forced evaluation and (C) fast mode: random C04 conditions
    n = 300 if tier == "quick" else 4000
    groups, metas = [], []
    for i in range(n):
        bufs = [cond.cond_buffer(r) for _ in range(3)] + [b""]
        g = cg.Gen(r, len(bufs[0]))
        ast = g.bool_expr(r.choice([1, 2, 2]))
        forced = {"t": "or", "l": {"t": "paren", "x": ast} if cg.show(ast)[1] > cg.P_OR else ast, "r": {"t": "cmp", "op": "<", "l": {"t": "filesize"}, "r": I(0)}}
        for variant, a in (("plain", ast), ("forced", forced)):
            txt = cg.show(a)[0]
            groups.append({"src": cond.rule_text(txt), "bufs": bufs, "pre": cond.EXT_DEFS})
            metas.append((txt + "  [%s]" % variant, a))
    # `at` with several constant offsets / a computed offset: the fixed-offset and single-match shortcuts must not apply
    occ_bufs = [b"#1#..#1#", b".#1##1#", b"#1##1##1#", b"..#1#....#1#", b"#1#.......#1#", b"0123456#1#", b""]
    at_conds = []
    for k1, k2 in itertools.combinations(range(0, 11), 2):
        at_conds.append({"t": "or", "l": {"t": "sat", "s": "$_a", "x": I(k1)}, "r": {"t": "sat", "s": "$_a", "x": I(k2)}})
    for k in range(0, 6):
        at_conds.append({"t": "sat", "s": "$_a", "x": {"t": "bin", "op": "-", "l": {"t": "filesize"}, "r": I(k)}})
        at_conds.append({"t": "and", "l": {"t": "sat", "s": "$_a", "x": I(k)}, "r": {"t": "sat", "s": "$_a", "x": I(k + 5)}})
        at_conds.append({"t": "sin", "s": "$_a", "lo": I(k), "hi": {"t": "bin", "op": "-", "l": {"t": "filesize"}, "r": I(k)}})
    # a constant offset and a run-time offset for the same string, in both orders (the fixed-offset shortcut is taken when the first
    # `at` is seen and must be dropped again when a different or unknown offset follows)
    mixed = []
    for k1 in range(0, 9, 2):
        for k in range(0, 6):
            nonc = r.choice([{"t": "bin", "op": "-", "l": {"t": "filesize"}, "r": I(k)}, {"t": "bin", "op": "+", "l": {"t": "ext", "name": "ext_j"}, "r": I(k + 5)}])
            mixed.append({"t": "or", "l": {"t": "sat", "s": "$_a", "x": I(k1)}, "r": {"t": "sat", "s": "$_a", "x": nonc}})
            mixed.append({"t": "or", "l": {"t": "sat", "s": "$_a", "x": nonc}, "r": {"t": "sat", "s": "$_a", "x": I(k1)}})
    if tier == "quick":
        at_conds = r.sample(at_conds, 40) + r.sample(mixed, 24)
    else:
        at_conds += mixed
    for a in at_conds:
        txt = cg.show(a)[0]
        groups.append({"src": cond.rule_text(txt), "bufs": occ_bufs, "pre": cond.EXT_DEFS})
        metas.append((txt + "  [at-offsets]", a))
    records, owners = cond.make_records(res, "C12", groups, metas, wd, "c12_forced")
    judge_and_report(res, "C12", records, owners, lambda o: {"condition": o[0], "buf": o[1], "verdict": o[2], "matches": o[3]}, wd, "c12_forced")
    # fast mode: the verdict under SCAN_FLAGS_FAST_MODE judged on the match lists of the normal scan
    fast_groups = [dict(g, flags=1 | 8 | 16) for g in groups]
    frecords, fowners = cond.make_records(res, "C12", fast_groups, metas, wd, "c12_fast")
    normal_m = {(o[0], o[1]): rec["env"]["m"] for rec, o in zip(records, owners) if rec["kind"] == "cond"}
    for rec, o in zip(frecords, fowners):
        if rec["kind"] == "cond" and (o[0], o[1]) in normal_m:
            rec["env"]["m"] = normal_m[(o[0], o[1])]
    judge_and_report(res, "C12", frecords, fowners, lambda o: {"condition": o[0] + " [fast mode]", "buf": o[1], "verdict": o[2], "matches_fast": o[3]}, wd, "c12_fast")

    # ---------------- (D) atom quality tables moving the atom (text and hex strings)
    npat = 120 if tier == "quick" else 1500
    groups, metas = [], []
    for pi in range(npat):
        L = r.randint(5, 9)
        pat = [r.choice(text.SMALL_ALPHABET + [0x41, 0x61, 0x62, 0x42, 0x63]) for _ in range(L)]
        m = text.random_mods(r, allow_b64=False)
        wins = sorted({bytes(pat[i:i + 4]) for i in range(L - 3)})
        keep = r.choice(wins)
        table = b"".join(w + bytes([r.randint(0, 40)]) for w in wins if w != keep)
        src = 'rule t { strings: $s = "%s" %s condition: #s >= 0 }' % (text.esc(pat, r), text.mods_text(m))
        bufs = [text.random_buffer(r, pat, m, 96) for _ in range(6)] + [bytes(pat)]
        for fast in (0, 1):
            groups.append({"src": src, "bufs": bufs, "pre": ["qtable 0 %s 0" % yv.hx(table)] if table else [], "flags": (1 | 8 | 16) if fast else 0})
            metas.append((pat, m, keep.hex(), fast))
    # hex strings with wildcards under quality tables (atoms with trimmed leading / trailing wildcards)
    hex_groups, hex_metas = [], []
    for pi in range(npat):
        vals = [0x11, 0x22, 0x33, 0x44, 0x55, 0x66, 0x77, 0x88]
        toks = []
        n = r.randint(5, 10)
        for i in range(n):
            b = r.choice(vals)
            c = r.random()
            if c < 0.62 or i in (0, n - 1): toks.append(("%02X" % b, hexre.lit(b)))
            elif c < 0.76: toks.append(("??", hexre.mask(0, 0)))
            elif c < 0.88: toks.append(("?%X" % (b & 15), hexre.mask(b & 0x0f, 0x0f)))       # nibble wildcards: the atom that the table
            else: toks.append(("%X?" % (b >> 4), hexre.mask(b & 0xf0, 0xf0)))                 # leaves as the best one may contain several
        lits = [t[1]["b"] if t[1]["t"] == "lit" else None for t in toks]
        wins = sorted({bytes(lits[i:i + 4]) for i in range(n - 3) if None not in lits[i:i + 4]})
        sub = [w for w in wins if r.random() < 0.6]
        table = b"".join(w + bytes([r.randint(0, 30)]) for w in sub)
        txt = " ".join(t[0] for t in toks)
        ast = hexre.cat([t[1] for t in toks])
        src = "rule t { strings: $s = { %s } condition: #s >= 0 }" % txt
        filler = vals[:4] + [0x0a]
        bufs = [hexre.plant_buffer(r, ast, filler, 80) for _ in range(5)] + [hexre.sample(r, ast, filler)]
        hex_groups.append({"src": src, "bufs": bufs, "pre": ["qtable 0 %s 0" % yv.hx(table)] if table else []})
        hex_metas.append((src, ast, table.hex()))
    hrecords, howners = [], []
    for ci in range(0, len(hex_groups), 400):
        run, per = func.run_rule_cases("asan", hex_groups[ci:ci + 400], wd, "c12_qth_%d" % ci, extra_lines_before=["opt atomhook 1"])
        if not run.complete:
            rp = yv.save_replay("C12", "crash_qth_%d" % ci, {"crash": yv.crash_summary(run), "script": run.script_path})
            res.violation("driver did not complete: " + yv.crash_summary(run), rp)
            continue
        for gi in range(len(hex_groups[ci:ci + 400])):
            g = per.get(gi)
            if g is None or not g["ok"]:
                continue
            src, ast, tab = hex_metas[ci + gi]
            ats = g.get("atoms", [])
            if ats and len({a_["s"] for a_ in ats}) == 1 and len(ats) <= 3000:      # whatever the table makes the engine choose must be necessary (Atoms.tla)
                samples = []
                for _ in range(12):
                    v = hexre.sample(r, ast, [0x11, 0x22, 0x33, 0x44, 0x0a])
                    if v not in samples: samples.append(v)
                hrecords.append({"kind": "atoms", "sort": "re", "ast": ast, "ascii": True, "wide": False, "nocase": False, "dotall": True, "fullword": False,
                                 "atoms": [{"b": a_["b"], "bt": a_["bt"]} for a_ in ats], "samples": [list(v) for v in samples]})
                howners.append((src, "atoms", ats[:8], tab))
            for bi, b in enumerate(hex_groups[ci + gi]["bufs"]):
                if g["rets"][bi] != 0:
                    continue
                sc = g["scans"][bi]["t"]["strings"]["$s"]
                hrecords.append({"kind": "re", "ast": ast, "buf": list(b), "obs": [[o, l] for o, l, k, p in sc], "ascii": True, "wide": False,
                                 "nocase": False, "dotall": True, "fullword": False, "thresh": 200})
                howners.append((src, b.hex(), sc, tab))
                res.count(1, (src, b, tab))
    judge_and_report(res, "C12", hrecords, howners, lambda o: {"rule": o[0], "buf": o[1], "observed": o[2], "quality_table": o[3]}, wd, "c12_qtable_hex")
    records, owners = [], []
    for ci in range(0, len(groups), 400):
        run, per = func.run_rule_cases("asan", groups[ci:ci + 400], wd, "c12_qt_%d" % ci)
        if not run.complete:
            rp = yv.save_replay("C12", "crash_qt_%d" % ci, {"crash": yv.crash_summary(run), "script": run.script_path})
            res.violation("driver did not complete: " + yv.crash_summary(run), rp)
            continue
        for gi in range(len(groups[ci:ci + 400])):
            g = per.get(gi)
            if g is None or not g["ok"]:
                continue
            pat, m, keep, fast = metas[ci + gi]
            for bi, b in enumerate(groups[ci + gi]["bufs"]):
                sc = g["scans"][bi]["t"]["strings"]["$s"]
                records.append({"kind": "text", "pat": pat, "mods": text.tla_mods(m), "buf": list(b), "obs": [[o, l, k] for o, l, k, p in sc]})
                owners.append((groups[ci + gi]["src"], b.hex(), sc, keep, fast))
                res.count(1, (groups[ci + gi]["src"], b, keep, fast))
    judge_and_report(res, "C12", records, owners, lambda o: {"rule": o[0], "buf": o[1], "observed": o[2], "atom kept at best quality": o[3], "fast_mode": o[4]}, wd, "c12_qtable")
    res.cov["rule"] = ("(A) every arithmetic/bitwise/shift operator x operand values, the left operand written as literal / non-constant expression / external defined at "
                       "compile time, on the rule set or on the scanner, in 7 deciding positions (at, in, of, filesize ==, # in, @[], not at); (B) random conditions "
                       "C and `C or filesize < 0`; (C) the same under SCAN_FLAGS_FAST_MODE; (D) text strings compiled with atom quality tables that leave each "
                       "4-byte window in turn as the best atom, normal and fast mode; all judged by Cond.tla / TextMatch.tla in TLC")
    res.assumptions += ["operand magnitudes stay small (TLC 32-bit integers); INT64 boundary folding (MIN \\ -1) is exercised by C07's source mutants",
                        "the fast-mode verdict is judged on the match lists of the normal scan of the same rule and buffer"]
