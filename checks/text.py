"""C01: text-string matches are exactly the documented occurrences (TextMatch.tla is the oracle)."""
import os, sys, json, time
sys.path.insert(0, os.path.join(os.path.dirname(os.path.abspath(__file__)), "..", "gen"))
import yv
from checks import func

STD_ALPHA = b"ABCDEFGHIJKLMNOPQRSTUVWXYZabcdefghijklmnopqrstuvwxyz0123456789+/"
SMALL_ALPHABET = [0x00, 0x20, 0x31, 0x41, 0x61, 0x62, 0x40, 0xFF, 0x5F, 0x7A]


def esc(pat, r=None):
    out = ""
    for b in pat:
        if r is not None and 0x20 <= b < 0x7f and b not in (0x22, 0x5c) and r.random() < 0.5:
            out += chr(b)
        else:
            out += "\\x%02x" % b
    return out


def mods_text(m):
    t = []
    if m["wide"]: t.append("wide")
    if m["ascii_explicit"]: t.append("ascii")
    if m["nocase"]: t.append("nocase")
    if m["fullword"]: t.append("fullword")
    if m["xor"]:
        if m["xlo"] == 0 and m["xhi"] == 255 and m.get("xor_bare"):
            t.append("xor")
        elif m["xlo"] == m["xhi"]:
            t.append("xor(0x%02x)" % m["xlo"])
        else:
            t.append("xor(0x%02x-0x%02x)" % (m["xlo"], m["xhi"]))
    al = ""
    if m["alpha"] != list(STD_ALPHA):
        al = '("%s")' % esc(bytes(m["alpha"]))
    if m["b64"]: t.append("base64" + al)
    if m["b64w"]: t.append("base64wide" + al)
    if m["private"]: t.append("private")
    return " ".join(t)


def tla_mods(m):
    return {"ascii": m["ascii_explicit"] or not m["wide"], "wide": m["wide"], "nocase": m["nocase"], "fullword": m["fullword"],
            "xor": m["xor"], "xlo": m["xlo"], "xhi": m["xhi"], "b64": m["b64"], "b64w": m["b64w"], "alpha": m["alpha"],
            "private": m["private"]}


def random_mods(r, allow_b64=True):
    m = {"wide": r.random() < 0.4, "ascii_explicit": False, "nocase": False, "fullword": r.random() < 0.3, "xor": False,
         "xlo": 0, "xhi": 0, "b64": False, "b64w": False, "alpha": list(STD_ALPHA), "private": r.random() < 0.1}
    if m["wide"] and r.random() < 0.5:
        m["ascii_explicit"] = True
    elif not m["wide"] and r.random() < 0.2:
        m["ascii_explicit"] = True
    k = r.random()
    if k < 0.25:
        m["nocase"] = True
    elif k < 0.55:
        m["xor"] = True
        c = r.random()
        if c < 0.25:
            m["xlo"], m["xhi"], m["xor_bare"] = 0, 255, True
        elif c < 0.5:
            m["xlo"] = m["xhi"] = r.choice([0, 1, 0x20, 0x41, 0xff])
        else:
            lo = r.choice([0, 1, 0x1f, 0x20, 0x40, 0x80, 0xf0])
            m["xlo"], m["xhi"] = lo, min(255, lo + r.choice([1, 2, 0x0f, 0x20, 0x7f]))
    elif k < 0.7 and allow_b64:
        m["fullword"] = False
        w = r.random()
        m["b64"] = w < 0.7
        m["b64w"] = w > 0.4
        if r.random() < 0.3:
            a = list(STD_ALPHA)
            r.shuffle(a)
            m["alpha"] = a
        elif r.random() < 0.3:
            # an alphabet that contains characters with a meaning in regular expressions (bcrypt's starts with "./")
            a = list(STD_ALPHA)
            metas = list(b".^$|()[]*?{},-/")
            r.shuffle(metas)
            for k, ch in zip(r.sample(range(64), r.randint(2, 8)), metas):
                if ch not in a: a[k] = ch
            m["alpha"] = a
    return m


def variants(r, pat, m):
    """byte strings that should (or nearly) match: used to plant occurrences"""
    tm = tla_mods(m)
    out = []
    def case_flip(b):
        return bytes((x ^ 0x20) if (65 <= x <= 90 or 97 <= x <= 122) and r.random() < 0.5 else x for x in b)
    base = []
    if tm["ascii"]: base.append(bytes(pat))
    if tm["wide"]: base.append(b"".join(bytes([x, 0]) for x in pat))
    for b in base:
        if m["b64"] or m["b64w"]:
            import base64 as b64m
            trans = bytes.maketrans(STD_ALPHA, bytes(m["alpha"]))
            for i in range(3):
                enc = b64m.b64encode(b"A" * i + b).translate(trans)
                out.append(enc[(i + 1 if i else 0):].rstrip(b"=")[:-1] if (i + len(b)) % 3 else enc[(i + 1 if i else 0):])
                out.append(b"".join(bytes([x, 0]) for x in out[-1]))
        elif m["xor"]:
            for k in {m["xlo"], m["xhi"], max(0, m["xlo"] - 1), min(255, m["xhi"] + 1), r.randint(m["xlo"], m["xhi"]), 0}:
                out.append(bytes(x ^ k for x in b))
        elif m["nocase"]:
            out += [case_flip(b), case_flip(b), b]
        else:
            out += [b, case_flip(b)]
    return out


def random_buffer(r, pat, m, maxlen):
    vs = variants(r, pat, m)
    fillers = [bytes([x]) for x in SMALL_ALPHABET] + [b"", b"a", b"1\x00", b"\x00", b" ", b"Z\x00"]
    buf = b""
    n = r.randint(0, 5)
    if r.random() < 0.1:
        return bytes(r.choice(SMALL_ALPHABET) for _ in range(r.randint(0, maxlen)))
    for _ in range(n):
        buf += r.choice(fillers) * r.randint(0, 3)
        v = r.choice(vs)
        c = r.random()
        if c < 0.15 and len(v) > 1:
            v = v[:-1]                       # truncated occurrence
        elif c < 0.25 and len(v) > 1:
            i = r.randrange(len(v)); v = v[:i] + bytes([v[i] ^ r.choice([1, 0x20, 0x80])]) + v[i + 1:]
        elif c < 0.35:
            ov = r.randint(1, max(1, len(v) - 1)); v = v + v[-ov:] if r.random() < 0.5 else v + v[ov:]   # overlapping
        buf += v
    buf += r.choice(fillers) * r.randint(0, 2)
    return buf[:maxlen]


def c01(res, tier, seed):
    r = yv.rng(seed, "c01")
    wd = yv.workdir("C01")
    npat = 250 if tier == "quick" else 4000
    nbuf = 12 if tier == "quick" else 30
    groups, metas = [], []
    for pi in range(npat):
        small = r.random() < 0.6
        L = r.choice([1, 2, 2, 3, 4, 4, 5, 5, 6, 8]) if small else r.randint(1, 40)
        if small:
            pat = [r.choice(SMALL_ALPHABET + [0x41, 0x61, 0x62, 0x42]) for _ in range(L)]
        else:
            pat = [r.randrange(256) for _ in range(L)]
        if r.random() < 0.3:
            pat = [r.choice([0x61, 0x41, 0x62]) for _ in range(L)]   # self-overlapping alphabetic patterns
        m = random_mods(r)
        if pi % 5 == 4:
            # the window the engine indexes is NOT the first one: a run of one (common) byte, then distinct letters and digits,
            # sometimes a dull tail; all modifier mixes (each variant - ascii / wide / case / xor - has its own distance back
            # from the indexed window to the start of the string)
            pre = [r.choice([0x20, 0x6d, 0x61, 0x90, 0xff, 0xcc, 0x30])] * r.randint(2, 6)
            core = r.sample([0x41, 0x42, 0x43, 0x64, 0x65, 0x66, 0x47, 0x68, 0x31, 0x32, 0x37, 0x5f, 0x78, 0x59, 0x7a], r.randint(4, 6))
            post = [r.choice([0x20, 0x6d, 0x00, 0x2e])] * r.choice([0, 0, 1, 3])
            pat = pre + core + post
            small = True
            m = random_mods(r, allow_b64=False)
            if r.random() < 0.6:
                m["nocase"], m["xor"] = True, False
            if r.random() < 0.6:
                m["wide"] = True; m["ascii_explicit"] = r.random() < 0.6
        periodic = pi % 9 == 7
        if periodic:
            # base64 of a plaintext that repeats with a period that is not a multiple of 3: occurrences of the three alignments of
            # the encoded string overlap each other, and are found out of offset order (each alignment has its own atom)
            unit = [r.choice([0x68, 0x65, 0x79, 0x20, 0x41, 0x7a, 0x31]) for _ in range(r.choice([4, 5, 7]))]
            pat = unit * r.choice([2, 3])
            small = True
            m = random_mods(r)
            m.update({"nocase": False, "xor": False, "fullword": False, "wide": False, "ascii_explicit": False})
            w = r.random()
            m["b64"] = w < 0.7; m["b64w"] = w > 0.4; m["alpha"] = list(STD_ALPHA)
            if r.random() < 0.3:
                al = list(STD_ALPHA); r.shuffle(al); m["alpha"] = al
        src = 'rule t { strings: $s = "%s" %s condition: #s >= 0 }' % (esc(pat, r), mods_text(m))
        bufs = [random_buffer(r, pat, m, 96 if small else 400) for _ in range(nbuf)]
        if periodic:
            import base64 as b64m
            trans = bytes.maketrans(STD_ALPHA, bytes(m["alpha"]))
            for i in range(3):
                enc = b64m.b64encode(b"#" * i + bytes(unit) * (len(pat) // len(unit) + r.randint(3, 6)) + b" ").translate(trans)
                bufs.append(enc[:400]); bufs.append(b"".join(bytes([x, 0]) for x in enc)[:400])
        bufs += [b"", bytes(pat)]
        # near misses: a true variant with ONE byte changed - the first / second / last two bytes (for a wide xor-ed string the high
        # byte of a character must be the key too), and every byte that is a regexp metacharacter (base64 strings are searched
        # through a generated regular expression in which the symbols of the alphabet must be literal)
        META = b".^$|()[]*?{},+\\-/"
        for v in variants(r, pat, m)[:4]:
            pos = {0, 1, len(v) - 2, len(v) - 1} | {i for i, x in enumerate(v) if x in META}
            for i in sorted(p_ for p_ in pos if 0 <= p_ < len(v))[:10]:
                for delta in ((1,) if tier == "quick" else (1, 0x20, 0x80)):
                    w = v[:i] + bytes([v[i] ^ delta]) + v[i + 1:]
                    bufs.append(b"zz " + w + b" zz")
        # occurrences at the two ends of the buffer with exactly one (8-bit or wide) alphanumeric / other character beyond them: the
        # word-boundary tests of `fullword` read the neighbours, which here are the first / last bytes of the data
        vs = variants(r, pat, m)
        for v in (vs[:2] + [r.choice(vs)]):
            for edge in (b"d", b"d\x00", b"9\x00", b" ", b"\x00"):
                if r.random() < (0.5 if tier == "quick" else 1.0):
                    bufs.append(v + edge); bufs.append(edge + v)
            bufs.append(b"x " + v + b" " + v + b"d")
        groups.append({"src": src, "bufs": bufs})
        metas.append((pat, m))
    t0 = time.time()
    records, owners = [], []
    rejected_compiles = 0
    for ci in range(0, len(groups), 500):
        run, per = func.run_rule_cases("asan", groups[ci:ci + 500], wd, "c01_%d" % ci, extra_lines_before=["opt atomhook 1"])
        if not run.complete:
            rp = yv.save_replay("C01", "crash_%d" % ci, {"crash": yv.crash_summary(run), "script": run.script_path})
            res.violation("driver did not complete: " + yv.crash_summary(run), rp)
            continue
        for gi in range(len(groups[ci:ci + 500])):
            g = per.get(gi)
            pat, m = metas[ci + gi]
            if g is None or not g["ok"]:
                rejected_compiles += 1
                msg = json.dumps(g["compile"]["diag"])[:300] if g and g["compile"] else "?"
                if not (m["b64"] or m["b64w"]) or "too short" not in msg:
                    rp = yv.save_replay("C01", "compile_%d" % (ci + gi), {"src": groups[ci + gi]["src"], "diag": msg})
                    res.violation("legal text string rejected by the compiler: %s" % msg, rp)
                continue
            # the atoms handed to the automaton for this string (hook H3) are necessary for each of its occurrences (Atoms.tla)
            ats = g.get("atoms", [])
            if ats and len({a["s"] for a in ats}) == 1 and len(ats) <= 1200:
                samples = []
                for v in variants(r, pat, m) + variants(r, pat, m):
                    if v not in samples and 0 < len(v) <= 120: samples.append(v)
                records.append({"kind": "atoms", "sort": "text", "pat": pat, "mods": tla_mods(m), "atoms": [{"b": a["b"], "bt": a["bt"]} for a in ats], "samples": [list(v) for v in samples[:16]]})
                owners.append((ci + gi, -1, ats[:8]))
            for bi, b in enumerate(groups[ci + gi]["bufs"]):
                sc = g["scans"][bi]["t"]["strings"]["$s"]
                records.append({"kind": "text", "pat": pat, "mods": tla_mods(m), "buf": list(b),
                                "obs": [[o, l, k] for o, l, k, p in sc]})
                owners.append((ci + gi, bi, sc))
                if any(p != (1 if m["private"] else 0) for o, l, k, p in sc):
                    rp = yv.save_replay("C01", "private_%d_%d" % (ci + gi, bi), {"src": groups[ci + gi]["src"], "obs": sc})
                    res.violation("private flag of a reported match differs from the declaration", rp)
                res.count(1, (tuple(pat), json.dumps(tla_mods(m), sort_keys=True), b) if sc else None)
    res.cov["parts"]["driver_wall_s"] = round(time.time() - t0, 1)
    t0 = time.time()
    bad, states = func.tlc_judge(records, wd, "c01")
    res.cov["parts"]["tlc_judge_wall_s"] = round(time.time() - t0, 1)
    res.cov["states"] += states
    res.cov["transitions"] += states
    res.cov["traces_validated_against_impl"] += len(records) - len(bad)
    res.cov["parts"]["compile_rejected_short_base64"] = rejected_compiles
    for b in bad[:200]:
        gi, bi, sc = owners[b]
        if bi == -1:
            rp = yv.save_replay("C01", "atoms_%d" % gi, {"src": groups[gi]["src"], "record": records[b]})
            res.violation("the atoms of `%s` are not necessary for its occurrences (an occurrence contains none of them at its distance): first atoms %s" % (groups[gi]["src"][:200], sc), rp)
            continue
        rp = yv.save_replay("C01", "case_%d_%d" % (gi, bi), {"src": groups[gi]["src"], "buf_hex": groups[gi]["bufs"][bi].hex(), "observed": sc,
                                                             "record": records[b]})
        res.violation("reported matches of `%s` on %s are not the documented occurrences: %s" % (groups[gi]["src"][:200], groups[gi]["bufs"][bi].hex()[:120], sc), rp)
    if len(bad) > 200:
        res.cov["parts"]["further_rejected_cases"] = len(bad) - 200
    res.cov["parts"]["atom_sets_judged"] = sum(1 for x in records if x["kind"] == "atoms")
    for i in [k for k in range(len(records)) if records[k]["kind"] == "text"][:4]:
        res.sample({"src": groups[owners[i][0]]["src"], "buf_hex": groups[owners[i][0]]["bufs"][owners[i][1]].hex(), "obs": owners[i][2]})
    res.cov["rule"] = ("random text strings (length 1-40; small alphabet incl. 0x00/0x20/alnum/xor pairs, and all 256 values) x legal modifier sets "
                       "(ascii/wide/nocase/fullword/xor ranges/base64[wide] with std or permuted alphabet/private) x buffers built by planting exact, "
                       "truncated, corrupted, overlapping and neighbouring variants; each case judged by TextMatch!ObsOK in TLC; non-trivial = at least one match reported")
    res.assumptions += ["fullword neighbours of xor-ed / wide occurrences follow the code (manual silent) - see TextMatch.tla header",
                        "when several variants match at one offset any of their (length, key) is accepted"]
