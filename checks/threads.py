"""C09: concurrent scans that share one rule set are race-free and deterministic.

SigHandler.tla is model-checked (all interleavings of 3 threads x 2 scans); on the implementation a ThreadSanitizer build
runs T threads over one rule set; every thread's recorded trace is validated INDEPENDENTLY against ScanTrace.tla (= it
reports what it would report alone), the hook-H5 event sequence against SigHandler!HookTraceOK, and any TSan report is a
violation."""
import os, sys, json, subprocess, shutil, time
sys.path.insert(0, os.path.join(os.path.dirname(os.path.abspath(__file__)), "..", "gen"))
import yv, scangen as sg
from checks import func, scan as scanmod

KINDS = ["T", "F", "M", "M", "NM", "Cnt", "Ref", "NRef", "EP", "FS", "U8", "Undef", "Mod", "PeSec", "Ext", "Ext", "Hash", "Hash"]


def run_plan(variant, lines, wd, name, timeout=900, extra_cflags=""):
    exe = yv.tool(yv.build(variant, extra_cflags), "yvmt", ["yvmt.c"])
    od = os.path.join(wd, name)
    shutil.rmtree(od, ignore_errors=True)
    os.makedirs(od)
    pf = os.path.join(od, "plan.txt")
    open(pf, "w").write("\n".join(lines) + "\n")
    env = dict(os.environ); env.update(yv.SAN_ENV)
    try:
        r = subprocess.run([exe, pf, od], capture_output=True, text=True, timeout=timeout, env=env, errors="replace")
        rc, err = r.returncode, r.stderr
    except subprocess.TimeoutExpired:
        rc, err = -9, "timeout"
    return rc, err, od


def c09(res, tier, seed):
    wd = yv.workdir("C09")
    m = yv.tlc("SigHandler", "MC_SigHandler.cfg", wd, timeout=900, tier=tier)
    if not m["violated"]:
        yv.require_tlc_ok(m, "MC_SigHandler.cfg")
    res.add_tlc("sighandler", m)
    if m["violated"]:
        res.violation("TLC: %s in MC_SigHandler.cfg" % m["violated"], yv.save_replay("C09", "model", {"tlc": m["out"][-3000:]}))
    v = yv.tlc("SigHandler", "MC_SigHandler_bug.cfg", wd, timeout=300, coverage=False)
    if not v["violated"]:
        raise yv.Broken("non-vacuity run MC_SigHandler_bug.cfg found no violation")
    res.cov["parts"]["nonvacuity_count_inside_if"] = "violated as expected"
    r = yv.rng(seed, "c09")
    rounds = [(2, 3), (8, 3), (32, 2)] if tier == "quick" else [(2, 10), (4, 10), (8, 10), (16, 6), (32, 6)]
    hook_records, hook_owner = [], []
    for T, nrounds in rounds:
        for rd in range(nrounds):
            rules = scanmod.random_ruleset(r, r.randint(3, 9), r.randint(1, 3), 2, KINDS)
            for q in rules:
                if q["cond"]["k"] == "Ext":
                    q["cond"]["a"] = r.randint(0, T + 1)
            if sum(1 for q in rules if q["cond"]["k"] == "Hash") < 2:      # every round calls the hash module from all threads
                rules += [scanmod.rule(rules[-1]["ns"], False, False, 0, sg.C("Hash")) for _ in range(2)]
            files = []
            import hashlib
            for di in range(5):
                f, data, sizes = scanmod.random_file(r, di + 1, 2, nblocks=1, kind=None if di else "text")
                files.append((f, data))
                sg.HASH_OF[di + 1] = hashlib.md5(data).hexdigest()
            digs = [sg.HASH_OF[f["id"]] for f, d in files]
            unique = [f["id"] for f, d in files if len(d) > 0 and digs.count(sg.HASH_OF[f["id"]]) == 1]
            for q in rules:
                if q["cond"]["k"] == "Hash":
                    if unique: q["cond"]["a"] = r.choice(unique)      # true on exactly that file: every thread computes its own digests
                    else: q["cond"] = sg.C("T")
            srcs, imports = sg.sources(rules)
            lines = ["ext i ext_t 0"]
            for ns, txt in srcs:
                lines.append("rules %s %s" % (ns, yv.hx(txt.encode())))
            for di, (f, data) in enumerate(files):
                lines.append("data %d %s" % (di, yv.hx(data)))
            thread_scans = {}
            for t in range(T):
                lines.append("thread %d" % t)
                scans = []
                if r.random() < 0.6:
                    lines.append("sdefine i ext_t %d" % t)
                    extv = t
                else:
                    extv = 0
                for k in range(r.randint(3, 8)):
                    di = r.randrange(5)
                    mode = r.choice(["mem", "mem", "file", "fd", "rmem"])
                    plan = r.choice(["-", "-", "%d:a" % r.randint(0, 6), "%d:e" % r.randint(0, 6)])
                    rep = r.choice([1, 1, 2, 3])
                    lines.append("scan %d %s %s 0 %d" % (di, mode, plan, rep))
                    f = dict(files[di][0]); f["ext"] = extv if mode != "rmem" else 0
                    pl = [] if plan == "-" else [(int(plan.split(":")[0]), plan.split(":")[1])]
                    for _ in range(rep):
                        scans.append({"file": f, "flags": ["match", "nomatch"], "timeout": False, "mode": "mem", "plan": pl, "fresh_scanner": mode == "rmem"})
                thread_scans[t] = scans
            lines.append("go")
            rc, err, od = run_plan("tsan", lines, wd, "T%d_r%d" % (T, rd))
            res.count(1, ("round", T, rd))
            if rc != 0 or "ThreadSanitizer" in err:
                import re
                msg = re.search(r"WARNING: ThreadSanitizer: [^\n]*", err)
                res.violation("%d threads sharing one rule set: %s" % (T, msg.group(0) if msg else "driver exited with %s: %s" % (rc, err[-300:].replace("\n", " | "))),
                              yv.save_replay("C09", "tsan_T%d_r%d" % (T, rd), {"stderr": err[-6000:], "plan": os.path.join(od, "plan.txt")}))
                continue
            # every thread's trace is validated on its own: it must be what the thread would report alone
            records, owner = [], []
            for t in range(T):
                evs = [json.loads(l) for l in open(os.path.join(od, "thread_%d.ndjson" % t)) if l.strip()]
                si = -1
                tr = [{"e": "Rules", "rules": rules, "imports": imports}]
                for e in evs:
                    if e["e"] == "ScanCall":
                        si += 1
                        s = thread_scans[t][si]
                        if s["fresh_scanner"] and len(tr) > 1:
                            tr.append({"e": "Rules", "rules": rules, "imports": imports})
                        tr.append({"e": "Scan", "file": s["file"], "flags": s["flags"], "timeout": False, "mode": "mem"})
                    elif e["e"] == "Cb":
                        mname = e["msg"]
                        x = e["ri"] + 1 if mname in ("match", "nomatch", "toomany") else (sg.MOD_IDS.get(e.get("mod"), 99) if mname in ("import", "imported") else 0)
                        tr.append({"e": "Cb", "msg": mname, "x": x, "reply": e["reply"]})
                    elif e["e"] == "FdLost":
                        res.violation("%d threads: yr_scanner_scan_fd closed the caller's descriptor (still open: %s, close() returned %s): with concurrent threads the number is reused while still in use" % (T, e["alive"], e["close"]),
                                      yv.save_replay("C09", "fdlost_T%d_r%d_t%d" % (T, rd, t), {"event": e}))
                    elif e["e"] == "ScanRet":
                        tr.append({"e": "Ret", "ret": sg.ERR.get(e["ret"], "E%d" % e["ret"]), "resid": {}, "entry_point": 0, "file_size": 0, "full": False})
                records += tr
                owner += [t] * len(tr)
            attempt = 0
            while records and attempt < 4:
                attempt += 1
                tp = os.path.join(od, "trace_%d.ndjson" % attempt)
                yv.write_ndjson(tp, records)
                tl = yv.tlc("ScanTrace", "ScanTrace.cfg", wd, env={"TRACE": tp, "MAXM": 1000000}, workers=1, coverage=False)
                res.cov["parts"]["trace_states"] = res.cov["parts"].get("trace_states", 0) + tl["distinct"]
                if tl["violated"] and "NotAccepted" in tl["violated"]:
                    res.cov["traces_validated_against_impl"] += len(set(owner))
                    break
                import re
                mm = re.search(r'"maxl", (\d+), "of", (\d+)', tl["out"])
                if tl["broken"] and not tl["violated"] and not mm:
                    raise yv.Broken("TLC failed on ScanTrace:\n" + tl["out"][-3000:])
                maxl = min(int(mm.group(1)) if mm else 1, len(records))
                t = owner[maxl - 1]
                lo = owner.index(t); hi = len(owner) - owner[::-1].index(t)
                why = tl["violated"] or "event %s of thread %d is not what the thread would report alone" % (json.dumps(records[maxl - 1])[:200], t)
                res.violation("%d threads: %s" % (T, why), yv.save_replay("C09", "thread_T%d_r%d_t%d" % (T, rd, t), {"why": why, "trace": records[lo:hi], "rejected_at": maxl - lo}))
                res.cov["traces_validated_against_impl"] += len(set(owner[:lo]))
                records, owner = records[hi:], owner[hi:]
            hk = [json.loads(l) for l in open(os.path.join(od, "hook.ndjson")) if l.strip()]
            hook_records.append({"kind": "hook", "events": hk})
            hook_owner.append((T, rd, len(hk)))
            if rd == 0 and T == rounds[0][0]:
                res.sample({"threads": T, "rules": rules[:3], "thread0_ops": [l for l in lines if l.startswith(("scan", "sdefine"))][:5], "hook_events": hk[:6]})
    # timeouts stay private: a scan that finishes well inside its own timeout alone must not time out because other threads are busy
    big = ["ext i ext_t 0", "rules - " + yv.hx(b'rule t { strings: $a = "needle" $b = /ne+dl[a-f]/ $c = { 68 61 ?? 73 74 } condition: #a > 0 and #b > 0 and #c > 0 }'),
           "datarep 0 %s %d" % (yv.hx(b"haystack........................................................"), 3000000), "data 1 " + yv.hx(b"needle haystack")]
    for t in range(24):
        big += ["thread %d" % t, "scan 0 mem - 8 2", "scan 1 mem - 8 1"]
    big.append("go")
    rc, err, od = run_plan("plain", big, wd, "timeouts", timeout=600)
    res.count(1, ("timeouts", 24))
    if rc != 0:
        res.violation("timeout privacy run failed: rc=%s %s" % (rc, err[-300:]), yv.save_replay("C09", "timeouts_rc", {"stderr": err[-3000:]}))
    else:
        for t in range(24):
            for l in open(os.path.join(od, "thread_%d.ndjson" % t)):
                e = json.loads(l)
                if e["e"] == "ScanRet" and e["ret"] != 0:
                    res.violation("a scan with an 8 s timeout that takes well under a second alone returned %d while 23 other threads were scanning" % e["ret"],
                                  yv.save_replay("C09", "timeouts_t%d" % t, {"thread": t, "ret": e["ret"]}))
                    break
    # scans that take a memory fault (a mapped file cut after mapping) while other threads scan: each ends with
    # ERROR_COULD_NOT_MAP_FILE, the thread's signal mask is what it was, the process lives, the other scans are unaffected
    # (SigHandler.tla: Fault, NeverKilled, MaskRestored; without the saved mask the second fault of a thread kills the process)
    v = yv.tlc("SigHandler", "MC_SigHandler_nomask.cfg", wd, timeout=300, coverage=False)
    if not (v["violated"] and ("NeverKilled" in v["violated"] or "MaskRestored" in v["violated"])):
        raise yv.Broken("non-vacuity run MC_SigHandler_nomask.cfg violated neither NeverKilled nor MaskRestored")
    res.cov["parts"]["nonvacuity_signal_mask_not_saved"] = "violated as expected"
    nT = 4 if tier == "quick" else 12
    bus = ["ext i ext_t 0", "rules - " + yv.hx(b'rule t { strings: $a = "needle" condition: $a }'), "data 0 " + yv.hx(b"a needle in a haystack"), "data 1 " + yv.hx(b"needle"),
           "datarep 2 %s %d" % (yv.hx(b"needle haystack."), 1 << 20)]        # 16 MiB: a scan of it lasts long enough for the other threads' faults to fall inside it
    for t in range(nT):
        bus += ["thread %d" % t]
        if t % 2 == 0: bus += ["scan 0 bus - 0 2", "scan 1 mem - 0 1", "scan 0 bus - 0 2", "scan 1 mem - 0 1", "scan 0 bus - 0 1"]
        else: bus += ["scan 2 mem - 0 %d" % (3 if tier == "quick" else 8), "scan 0 bus - 0 1", "scan 1 file - 0 2"]
    bus.append("go")
    for rep in range(2 if tier == "quick" else 6):
        rc, err, od = run_plan("plain", bus, wd, "bus_%d" % rep, timeout=300)
        res.count(1, ("bus", nT, rep))
        if rc != 0:
            res.violation("scans that take a memory fault: the process ended with %s (%s)" % (rc, err[-200:].replace("\n", " | ")), yv.save_replay("C09", "bus_rc_%d" % rep, {"rc": rc, "stderr": err[-3000:]}))
            continue
        for t in range(nT):
            evs = [json.loads(l) for l in open(os.path.join(od, "thread_%d.ndjson" % t)) if l.strip()]
            scans = [{"ret": e["ret"], "mask_changed": e["mask_changed"]} for e in evs if e["e"] == "BusScan"]
            hook_records.append({"kind": "busfault", "scans": scans})
            hook_owner.append((nT, "bus%d thread %d" % (rep, t), len(scans)))
            oks = [e["ret"] for e in evs if e["e"] == "ScanRet"]
            busn = len(scans)
            if sorted(oks) != sorted([0] * (len(oks) - busn) + [4] * busn) or not any(e["e"] == "Cb" and e["msg"] == "match" for e in evs):
                res.violation("a thread's ordinary scans are disturbed by scans that take a memory fault: results %s" % oks, yv.save_replay("C09", "bus_t%d_%d" % (t, rep), {"events": evs[:60]}))
    # what a scan is told does not depend on what other scans over the same rule set are doing or have done: (a) a string that hits
    # its match limit in one thread (limit scaled to 6) while the others scan data with a few occurrences, under ThreadSanitizer;
    # (b) the "slow scanning" warning of a rule set with an atom-less string on large data, in every scan of every thread
    capl = ["ext i ext_t 0", "rules - " + yv.hx(b'rule n { strings: $a = "needle" condition: $a }'), "data 0 " + yv.hx(b"needle " * 40), "data 1 " + yv.hx(b"just one needle here")]
    nTc = 4 if tier == "quick" else 8
    for t in range(nTc):
        capl += ["thread %d" % t, "scan 0 mem - 0 %d" % (60 if tier == "quick" else 300)] if t == 0 else ["thread %d" % t, "scan 1 mem - 0 %d" % (400 if tier == "quick" else 3000)]
    capl.append("go")
    rc, err, od = run_plan("tsan", capl, wd, "cap_shared", timeout=600, extra_cflags="-DYR_MAX_STRING_MATCHES=6")
    res.count(1, ("cap-shared", nTc))
    if rc != 0 or "ThreadSanitizer" in err:
        import re
        msg = re.search(r"WARNING: ThreadSanitizer: [^\n]*", err)
        res.violation("a string at its match limit in one thread, %d threads scanning: %s" % (nTc, msg.group(0) if msg else "driver exited with %s: %s" % (rc, err[-300:].replace("\n", " | "))),
                      yv.save_replay("C09", "cap_shared_tsan", {"stderr": err[-6000:]}))
    else:
        for t in range(1, nTc):
            evs = [json.loads(l) for l in open(os.path.join(od, "thread_%d.ndjson" % t)) if l.strip()]
            got = [e["msg"] for e in evs if e["e"] == "Cb" and e["msg"] in ("match", "nomatch")]
            hook_records.append({"kind": "errlines", "expected": ["match"] * len(got), "got": got})
            hook_owner.append((nTc, "cap thread %d" % t, len(got)))
    slow = ["ext i ext_t 0", "rules - " + yv.hx(b'rule s { strings: $w = /[a-z]+[ ][0-9]+/ condition: $w }'), "datarep 0 %s %d" % (yv.hx(b"abcdefgh 12345678 "), 14000)]
    for t in range(6):
        slow += ["thread %d" % t, "scan 0 %s - 0 2" % ("mem" if t % 2 else "rmem")]
    slow.append("go")
    rc, err, od = run_plan("plain", slow, wd, "slow_shared", timeout=600)
    res.count(1, ("slow-shared", 6))
    if rc != 0:
        res.violation("slow-scanning warnings with 6 threads: rc=%s %s" % (rc, err[-300:]), yv.save_replay("C09", "slow_rc", {"stderr": err[-3000:]}))
    else:
        percall = []
        for t in range(6):
            evs = [json.loads(l) for l in open(os.path.join(od, "thread_%d.ndjson" % t)) if l.strip()]
            cnt = None
            for e in evs:
                if e["e"] == "ScanCall": cnt = 0
                elif e["e"] == "Cb" and e["msg"] == "tooslow" and cnt is not None: cnt += 1
                elif e["e"] == "ScanRet" and cnt is not None: percall.append(cnt); cnt = None
        alone = percall[0] if percall else 0
        hook_records.append({"kind": "errlines", "expected": [max(percall) if percall else 0] * len(percall), "got": percall})
        hook_owner.append((6, "slow-scanning warnings per scan (every scan is told the same)", len(percall)))
        res.cov["parts"]["slow_scanning_warnings_per_scan"] = percall
    bad, known, states = func.tlc_judge2(hook_records, wd, "c09_hook")
    res.cov["states"] += states; res.cov["transitions"] += states
    for b in bad:
        T, rd, n = hook_owner[b]
        if hook_records[b]["kind"] == "errlines":
            res.violation("%s: every scan must be told %s, was told %s" % (rd, hook_records[b]["expected"][:6], hook_records[b]["got"][:40]),
                          yv.save_replay("C09", "shared_%s" % str(rd).replace(" ", "_")[:40], {"record": hook_records[b]}))
            continue
        if hook_records[b]["kind"] == "busfault":
            res.violation("scans that take a memory fault (%s): %s - each must return ERROR_COULD_NOT_MAP_FILE and leave the signal mask of the calling thread unchanged" % (rd, json.dumps(hook_records[b]["scans"])),
                          yv.save_replay("C09", "busfault_%s" % str(rd).replace(" ", "_"), {"scans": hook_records[b]["scans"]}))
            continue
        res.violation("the use-count events of YR_TRYCATCH (%d events, %d threads) are not a behaviour of SigHandler.tla" % (n, T),
                      yv.save_replay("C09", "hook_T%d_r%d" % (T, rd), {"events": hook_records[b]["events"][:400]}))
    res.cov["rule"] = ("per round: a random rule set (strings, rule references, entrypoint, filesize, uint8, tests/pe modules, a per-scanner external) shared by T in {2..32} threads, each with "
                       "its own scanner (or the yr_rules_scan_mem wrapper), 3-8 scans of 5 buffers (text/PE/ELF, from memory and memory-mapped files) with abort/error replies and per-scanner "
                       "external definitions, under ThreadSanitizer; every thread's trace validated alone against ScanTrace.tla; hook H5 sequence validated against SigHandler!HookTraceOK; "
                       "24 threads with 6 s timeouts on sub-second scans")
    res.assumptions += ["OS schedules are sampled (repeated rounds, TSan's happens-before analysis), not enumerated; the model's interleavings are enumerated by TLC"]
