"""Condition ASTs of Cond.tla: random generation (two-level typing of grammar.y) and rendering with MINIMAL parentheses
according to the precedence table of the manual."""

STRS = ["$_a", "$_b", "$_c"]
STR_TEXT = {"$_a": b"#1#", "$_b": b"+2+", "$_c": b"=3="}
LIM = 1 << 22

P_OR, P_AND, P_NOT, P_EQ, P_REL, P_BOR, P_BXOR, P_BAND, P_SHIFT, P_ADD, P_MUL, P_UN, P_ATOM = 13, 12, 11, 10, 9, 8, 7, 6, 5, 4, 3, 2, 1
BINP = {"|": P_BOR, "^": P_BXOR, "&": P_BAND, "<<": P_SHIFT, ">>": P_SHIFT, "+": P_ADD, "-": P_ADD, "*": P_MUL, "\\": P_MUL, "%": P_MUL}
CMPP = {"==": P_EQ, "!=": P_EQ, "<": P_REL, "<=": P_REL, ">": P_REL, ">=": P_REL}


def esc_str(b):
    return "".join(chr(x) if 0x20 <= x < 0x7f and x not in (0x22, 0x5c) else "\\x%02x" % x for x in b)


def show(e):
    """-> (text, precedence level of the outermost operator)"""
    t = e["t"]
    def sub(x, maxp):
        s, p = show(x)
        return "(" + s + ")" if p > maxp else s
    def atomic(x):
        return sub(x, P_ATOM)
    def sname(s):
        return s
    if t == "int": return (str(e["v"]), P_ATOM) if e["v"] >= 0 else ("-" + str(-e["v"]), P_UN)
    if t == "flt": return ("%.2f" % (e["v"] / 4.0), P_ATOM) if e["v"] >= 0 else ("-%.2f" % (-e["v"] / 4.0), P_UN)
    if t == "str": return '"%s"' % esc_str(bytes(e["v"])), P_ATOM
    if t in ("true", "false", "filesize", "entrypoint"): return t, P_ATOM
    if t == "ext": return e["name"], P_ATOM
    if t == "rule": return e["name"], P_ATOM
    if t == "var": return e["name"], P_ATOM
    if t == "undef_i": return "tests.undefined.i", P_ATOM
    if t == "undef_f": return "tests.undefined.f", P_ATOM
    if t == "paren": return "(" + show(e["x"])[0] + ")", P_ATOM
    if t == "neg": return "-" + sub(e["x"], P_UN), P_UN
    if t == "bnot": return "~" + sub(e["x"], P_UN), P_UN
    if t == "bin":
        p = BINP[e["op"]]
        return "%s %s %s" % (sub(e["l"], p), e["op"], sub(e["r"], p - 1)), p
    if t == "cmp":
        p = CMPP[e["op"]]
        return "%s %s %s" % (sub(e["l"], P_BOR), e["op"], sub(e["r"], P_BOR)), p    # operands are primary expressions
    if t == "strop":
        return "%s %s %s" % (sub(e["l"], P_BOR), e["op"], sub(e["r"], P_BOR)), P_EQ
    if t == "and": return "%s and %s" % (sub(e["l"], P_AND), sub(e["r"], P_AND - 1)), P_AND
    if t == "or": return "%s or %s" % (sub(e["l"], P_OR), sub(e["r"], P_OR - 1)), P_OR
    if t == "not": return "not " + sub(e["x"], P_NOT), P_NOT
    if t == "defined": return "defined " + sub(e["x"], P_NOT), P_NOT
    cur = lambda s, sig: (sig if s == "cur" else sig + s[1:])
    if t == "sfound": return cur(e["s"], "$"), P_ATOM
    if t == "sat": return "%s at %s" % (cur(e["s"], "$"), atomic(e["x"])), P_ATOM
    if t == "sin": return "%s in (%s..%s)" % (cur(e["s"], "$"), show(e["lo"])[0], show(e["hi"])[0]), P_ATOM
    if t == "scount": return cur(e["s"], "#"), P_ATOM
    if t == "scountin": return "%s in (%s..%s)" % (cur(e["s"], "#"), show(e["lo"])[0], show(e["hi"])[0]), P_ATOM
    if t == "soff": return "%s[%s]" % (cur(e["s"], "@"), show(e["i"])[0]), P_ATOM
    if t == "slen": return "%s[%s]" % (cur(e["s"], "!"), show(e["i"])[0]), P_ATOM
    if t == "uint":
        fn = ("int" if e["signed"] else "uint") + str(8 * e["n"]) + ("be" if e["be"] else "")
        return "%s(%s)" % (fn, show(e["x"])[0]), P_ATOM
    def quant(e):
        if e["q"] == "n": return atomic(e["qv"])
        if e["q"] == "pct": return atomic(e["qv"]) + "%"
        return e["q"]
    def sset(e):
        if e.get("them"): return "them"
        return "(" + ", ".join(e["set"]) + ")"
    if t == "of": return "%s of %s" % (quant(e), sset(e)), P_ATOM
    if t == "ofin": return "%s of %s in (%s..%s)" % (quant(e), sset(e), show(e["lo"])[0], show(e["hi"])[0]), P_ATOM
    if t == "ofat": return "%s of %s at %s" % (quant(e), sset(e), atomic(e["x"])), P_ATOM
    if t == "ofrules":
        if e.get("wild"): return "%s of (%s*)" % (quant(e), e["wild"]), P_ATOM
        return "%s of (%s)" % (quant(e), ", ".join(e["set"])), P_ATOM
    if t == "forof": return "for %s of %s : ( %s )" % (quant(e), sset(e), show(e["body"])[0]), P_ATOM
    if t == "forin":
        it = "(%s..%s)" % (show(e["lo"])[0], show(e["hi"])[0]) if e["it"] == "range" else "(" + ", ".join(show(v)[0] for v in e["vals"]) + ")"
        return "for %s %s in %s : ( %s )" % (quant(e), e["var"], it, show(e["body"])[0]), P_ATOM
    raise ValueError(t)


# the comparison operands are primary expressions (max precedence '|'); fix the helper used above
def _cmp_show_patch():
    pass


class Gen:
    def __init__(self, r, filesize, in_forof=False):
        self.r, self.fs = r, filesize
        self.vars = []
        self.vbound = {}          # loop variable -> magnitude bound of the values it iterates over
        self.in_forof = in_forof
        self.loop_depth = 0

    # magnitude bound of an integer expression (not an oracle: keeps the model inside TLC's integer range)
    def bound(self, e):
        t = e["t"]
        if t == "int": return abs(e["v"])
        if t in ("filesize",): return max(self.fs, 64)       # the same condition is evaluated on buffers of other sizes too
        if t == "entrypoint": return 4096
        if t == "ext": return 64
        if t == "var": return self.vbound.get(e["name"], 64)
        if t in ("scount", "scountin"): return 64
        if t in ("soff",): return max(self.fs, 64)
        if t in ("slen",): return 8
        if t == "uint": return (1 << (8 * e["n"]))
        if t in ("neg", "paren"): return self.bound(e["x"])
        if t == "bnot": return self.bound(e["x"]) + 1
        if t == "undef_i": return 0
        if t == "bin":
            a, b = self.bound(e["l"]), self.bound(e["r"])
            op = e["op"]
            if op in "+-": return a + b
            if op == "*": return a * b
            if op in ("\\", "%"): return a
            if op in "&|^": return 2 * max(a, b) + 1
            if op == "<<": return a * 8
            if op == ">>": return a + 1
        return LIM

    def string_ref(self):
        if self.in_forof and self.r.random() < 0.7:
            return "cur"
        return self.r.choice(STRS)

    def int_atom(self):
        r = self.r
        if self.vars and r.random() < 0.35:
            v = {"t": "var", "name": r.choice(self.vars)}
            k = r.random()
            if k < 0.4: return v
            if k < 0.7: return {"t": "uint", "n": r.choice([1, 1, 2]), "be": r.random() < 0.3, "signed": False, "x": v}
            if k < 0.85: return {"t": "soff", "s": self.string_ref(), "i": v}
            return {"t": "slen", "s": self.string_ref(), "i": v}
        c = r.random()
        if c < 0.45: return {"t": "int", "v": r.choice([0, 1, 2, 3, 4, 5, 7, 8, 16, 31, 40, self.fs, self.fs - 1, max(0, self.fs - 2)])}
        if c < 0.52: return {"t": "filesize"}
        if c < 0.60: return {"t": "scount", "s": self.string_ref()}
        if c < 0.68: return {"t": "soff", "s": self.string_ref(), "i": self.small_int()}
        if c < 0.73: return {"t": "slen", "s": self.string_ref(), "i": self.small_int()}
        if c < 0.83:
            n = r.choice([1, 1, 2, 2, 4])
            return {"t": "uint", "n": n, "be": r.random() < 0.4, "signed": r.random() < 0.3,
                    "x": {"t": "int", "v": r.choice([0, 1, 2, self.fs - 4, self.fs - 3, self.fs - 2, self.fs - 1, self.fs, self.fs + 3])}}
        if c < 0.88: return {"t": "ext", "name": r.choice(["ext_i", "ext_j"])}
        if c < 0.92 and self.vars: return {"t": "var", "name": r.choice(self.vars)}
        if c < 0.95: return {"t": "undef_i"}
        if c < 0.97: return {"t": "scountin", "s": self.string_ref(), "lo": self.small_int(), "hi": {"t": "int", "v": r.choice([0, 5, self.fs])}}
        return {"t": "int", "v": -r.choice([1, 2, 3])}

    def small_int(self):
        return {"t": "int", "v": self.r.choice([0, 1, 1, 2, 3, 4])}

    def int_expr(self, depth):
        r = self.r
        if depth == 0 or r.random() < 0.3:
            return self.int_atom()
        c = r.random()
        if c < 0.1: return {"t": "neg", "x": self.int_expr(depth - 1)}
        if c < 0.16: return {"t": "bnot", "x": self.int_expr(depth - 1)}
        if c < 0.2: return {"t": "paren", "x": self.int_expr(depth - 1)}
        op = r.choice(["+", "-", "*", "\\", "%", "&", "|", "^", "<<", ">>", "+", "-"])
        for _ in range(8):
            l = self.int_expr(depth - 1)
            if op in ("<<", ">>"):
                k = r.choice([0, 1, 2, 3, 64, 65, 100])
                rr = {"t": "int", "v": k} if r.random() < 0.85 else {"t": "bin", "op": "-", "l": {"t": "int", "v": 0}, "r": {"t": "int", "v": r.choice([1, 2])}}
                if op == "<<" and self.bound(l) > (1 << 19): continue
            else:
                rr = self.int_expr(depth - 1)
            e = {"t": "bin", "op": op, "l": l, "r": rr}
            if self.bound(e) < LIM:
                return e
        return self.int_atom()

    def quant(self, e, nitems):
        r = self.r
        c = r.random()
        if c < 0.25: e["q"] = "all"
        elif c < 0.5: e["q"] = "any"
        elif c < 0.62: e["q"] = "none"
        elif c < 0.95:
            e["q"] = "n"
            k = r.random()
            e["qv"] = {"t": "int", "v": r.randint(0, nitems + 1)} if k < 0.5 else ({"t": "undef_i"} if k < 0.58 else
                       r.choice([{"t": "scount", "s": r.choice(STRS)}, {"t": "ext", "name": "ext_j"}, {"t": "ext", "name": "ext_i"},
                                 {"t": "bin", "op": "-", "l": {"t": "filesize"}, "r": {"t": "int", "v": self.fs}}, self.int_atom()]))
            if e["qv"]["t"] == "int" and e["qv"]["v"] < 0: e["qv"]["v"] = 1
        else:
            e["q"] = "pct"
            e["qv"] = {"t": "int", "v": r.choice([1, 34, 50, 67, 100])}
        if e["q"] == "n" and e["qv"]["t"] not in ("int", "undef_i", "scount", "filesize", "ext", "bin", "var"):
            e["qv"] = {"t": "int", "v": 1}
        return e

    def str_set(self):
        r = self.r
        if r.random() < 0.4: return {"them": True, "set": list(STRS)}
        k = r.randint(1, 3)
        return {"set": r.sample(STRS, k)}

    def str_value(self):
        r = self.r
        c = r.random()
        if c < 0.4: return {"t": "ext", "name": "ext_s"}
        return {"t": "str", "v": list(r.choice([b"ab", b"AB", b"a", b"", b"abc", b"b", b"Ab"]))}

    def undef_loop(self):
        """loops whose body is undefined for some items and defined (true or false) for others"""
        r = self.r
        if r.random() < 0.6 or self.in_forof:
            var = "i%d" % len(self.vars)
            vals = [{"t": "int", "v": v} for v in r.sample([0, 1, 2, 3, self.fs - 1, self.fs, self.fs + 50, 100, 4], r.randint(2, 4))]
            body = {"t": "cmp", "op": r.choice(["==", "!=", "<", ">="]),
                    "l": {"t": "uint", "n": r.choice([1, 1, 2]), "be": False, "signed": False, "x": {"t": "var", "name": var}},
                    "r": {"t": "int", "v": r.choice([0x20, 0x2e, 0x30, 0x31, 0x23, 0x2b, 0x3d, 0, 0x3f])}}
            if r.random() < 0.3:
                body = {"t": "not", "x": body}
            e = {"t": "forin", "var": var, "it": "enum", "vals": vals, "body": body}
            q = self.quant(e, len(vals))
            if q["q"] == "pct": q["q"] = "none"; q.pop("qv", None)
            return q
        e = dict(self.str_set()); e["t"] = "forof"
        body = {"t": "cmp", "op": r.choice(["<", ">=", "==", "!="]), "l": {"t": r.choice(["soff", "slen"]), "s": "cur", "i": {"t": "int", "v": r.choice([1, 1, 2, 3])}},
                "r": {"t": "int", "v": r.choice([0, 3, 5, 10, self.fs])}}
        e["body"] = body
        return self.quant(e, len(e["set"]))

    def bool_atom(self, depth):
        r = self.r
        if self.loop_depth < 3 and r.random() < 0.08:
            return self.undef_loop()
        c = r.random()
        if c < 0.22:
            l = self.int_expr(min(depth, 2)); rr = self.int_expr(min(depth, 1))
            return {"t": "cmp", "op": r.choice(["==", "!=", "<", "<=", ">", ">="]), "l": l, "r": rr}
        if c < 0.32: return {"t": "sfound", "s": self.string_ref()}
        if c < 0.40: return {"t": "sat", "s": self.string_ref(), "x": self.int_expr(1)}
        if c < 0.46: return {"t": "sin", "s": self.string_ref(), "lo": self.int_expr(1), "hi": self.int_expr(1)}
        if c < 0.52: return {"t": r.choice(["true", "false"])}
        if c < 0.57: return {"t": "rule", "name": r.choice(["r_true", "r_false"])}
        if c < 0.60: return {"t": "ext", "name": "ext_b"}
        if c < 0.66:
            op = r.choice(["contains", "icontains", "startswith", "istartswith", "endswith", "iendswith", "iequals", "==", "!=", "<"])
            l, rr = self.str_value(), self.str_value()
            return {"t": "cmp", "op": op, "l": l, "r": rr} if op in ("==", "!=", "<") else {"t": "strop", "op": op, "l": l, "r": rr}
        if c < 0.72:   # floats: comparison and promotion, undefined operands
            l = r.choice([{"t": "flt", "v": r.choice([0, 2, 6, 8])}, {"t": "ext", "name": "ext_f"}, {"t": "undef_f"}, {"t": "int", "v": r.choice([0, 1, 2])},
                          # an integer operand that is undefined at run time next to a float: the promotion must keep it undefined
                          {"t": "undef_i"}, {"t": "uint", "n": r.choice([1, 2]), "be": False, "signed": False, "x": {"t": "bin", "op": "-", "l": {"t": "filesize"}, "r": {"t": "int", "v": r.choice([0, 1])}}},
                          {"t": "soff", "s": "$_a", "i": {"t": "int", "v": r.choice([1, 9])}}])
            rr = r.choice([{"t": "flt", "v": r.choice([0, 2, 6, 8])}, {"t": "ext", "name": "ext_f"}, {"t": "undef_f"}])
            if r.random() < 0.3:
                l = {"t": "bin", "op": r.choice("+-*"), "l": l, "r": {"t": "flt", "v": r.choice([2, 4, 6])}}
            return {"t": "cmp", "op": r.choice(["==", "!=", "<", "<=", ">", ">="]), "l": l, "r": rr}
        if c < 0.80 and not self.in_forof:
            e = dict(self.str_set()); e["t"] = r.choice(["of", "of", "ofin", "ofat"])
            if e["t"] == "ofin": e["lo"], e["hi"] = self.int_expr(1), self.int_expr(1)
            if e["t"] == "ofat": e["x"] = self.int_expr(1)
            return self.quant(e, len(e["set"]))
        if c < 0.83:
            if r.random() < 0.5:
                w = r.choice(["r_", "r_t", "r_true", "r_f"])       # wildcard rule set: the rules of THIS namespace with that prefix
                e = {"t": "ofrules", "wild": w, "set": [n for n in ["r_true", "r_false", "r_true2"] if n.startswith(w)]}
            else:
                e = {"t": "ofrules", "set": r.sample(["r_true", "r_false", "r_true2"], r.randint(1, 3))}
            q = self.quant(e, len(e["set"]))
            if q["q"] == "pct": q["q"] = "any"; q.pop("qv", None)
            return q
        if c < 0.90 and depth > 0 and not self.in_forof and self.loop_depth < 3:
            e = dict(self.str_set()); e["t"] = "forof"
            g = Gen(self.r, self.fs, in_forof=True); g.vars = list(self.vars); g.vbound = dict(self.vbound); g.loop_depth = self.loop_depth + 1
            e["body"] = g.bool_expr(depth - 1)
            return self.quant(e, len(e["set"]))
        if c < 0.97 and depth > 0 and self.loop_depth < 3:
            var = "i%d" % len(self.vars)
            e = {"t": "forin", "var": var}
            if r.random() < 0.6:
                e["it"] = "range"; e["lo"] = {"t": "int", "v": r.choice([0, 1, 2])}
                e["hi"] = r.choice([{"t": "int", "v": r.choice([0, 1, 3, 4])}, {"t": "scount", "s": r.choice(STRS)}, {"t": "undef_i"}]) if r.random() < 0.9 else self.int_atom()
                if self.bound(e["hi"]) > 70000:      # a range over a 32-bit value is a legitimately endless evaluation, not a case
                    e["hi"] = {"t": "int", "v": 4}
                n = 4
            else:
                e["it"] = "enum"
                e["vals"] = [r.choice([self.int_expr(1), {"t": "int", "v": r.choice([0, 1, 2, self.fs - 1, self.fs, self.fs + 50, 100])}]) for _ in range(r.randint(1, 4))]
                n = len(e["vals"])
            self.vbound[var] = max([self.bound(x) for x in e.get("vals", [])] + [self.bound(e["hi"]) if "hi" in e else 0, 64])
            self.vars.append(var); self.loop_depth += 1
            e["body"] = self.bool_expr(depth - 1)
            self.vars.pop(); self.loop_depth -= 1
            q = self.quant(e, n)
            if q["q"] == "pct": q["q"] = "all"; q.pop("qv", None)
            return q
        return {"t": "defined", "x": self.int_expr(1)}

    def bool_expr(self, depth):
        r = self.r
        if depth == 0 or r.random() < 0.3:
            return self.bool_atom(depth)
        c = r.random()
        if c < 0.3: return {"t": "and", "l": self.bool_expr(depth - 1), "r": self.bool_expr(depth - 1)}
        if c < 0.6: return {"t": "or", "l": self.bool_expr(depth - 1), "r": self.bool_expr(depth - 1)}
        if c < 0.8: return {"t": "not", "x": self.bool_expr(depth - 1)}
        if c < 0.9: return {"t": "defined", "x": self.bool_expr(depth - 1)}
        return self.bool_atom(depth)


def strip_for_tla(e):
    """remove generator-only fields; undefined module values become a dedicated node"""
    if isinstance(e, list):
        return [strip_for_tla(x) for x in e]
    if not isinstance(e, dict):
        return e
    d = {k: strip_for_tla(v) for k, v in e.items() if k not in ("them", "wild")}
    if d.get("t") in ("undef_i", "undef_f"):
        return {"t": "ext", "name": "__undef"}
    return d
