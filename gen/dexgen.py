"""Structure-aware DEX generation for C06 (counterpart of pegen.py / elfgen.py / machogen.py): a small but complete DEX file - header,
string / type / proto / field / method id tables, one class definition with class data (a static field, two direct methods with code
items) and a map list.  All ULEB128 values are written in the padded 5-byte form so that any 32-bit value can be patched in; every
size / offset / index can be set to boundary values relative to the file length, any chunk can be the last thing in the file and the
file can be cut anywhere inside it (FieldMut.tla, StructuredMutants)."""
import struct


def uleb5(v):
    v &= 0xffffffff
    return bytes([(v & 0x7f) | 0x80, ((v >> 7) & 0x7f) | 0x80, ((v >> 14) & 0x7f) | 0x80, ((v >> 21) & 0x7f) | 0x80, (v >> 28) & 0x0f])


def build(last=None, cut=0, patch=None, uleb_patch=None, nmethods=2):
    strings = ["<init>", "Foo.java", "I", "LFoo;", "Ljava/lang/Object;", "V", "main", "x"]           # sorted, as the format requires
    sidx = {s: i for i, s in enumerate(strings)}
    types = ["I", "LFoo;", "Ljava/lang/Object;", "V"]
    tidx = {t: i for i, t in enumerate(types)}
    chunks, order = {}, []
    def add(n, size): chunks[n] = size; order.append(n)
    add("header", 0x70)
    add("string_ids", 4 * len(strings))
    add("type_ids", 4 * len(types))
    add("proto_ids", 12)
    add("field_ids", 8)
    add("method_ids", 8 * nmethods)
    add("class_defs", 32)
    sdata = [bytes([len(s)]) + s.encode() + b"\0" for s in strings]           # 1-byte lengths: the module assumes them for string data
    add("string_data", sum(len(x) for x in sdata))
    code = struct.pack("<HHHHII", 1, 1, 0, 0, 0, 1) + struct.pack("<H", 0x000e) + b"\0\0"            # return-void, padded to 4
    for k in range(nmethods): add("code%d" % k, len(code))
    ulebs = [("static_fields_size", 1), ("instance_fields_size", 0), ("direct_methods_size", nmethods), ("virtual_methods_size", 0),
             ("field_idx_diff", 0), ("field_access", 0x9)]
    for k in range(nmethods):
        ulebs += [("m%d_idx_diff" % k, 0 if k == 0 else 1), ("m%d_access" % k, 0x10001 if k == 0 else 0x9), ("m%d_code_off" % k, None)]
    add("class_data", 5 * len(ulebs))
    add("map_list", 4 + 12 * 9)
    if last and last != "header":
        order.remove(last); order.append(last)
    off, pos = {}, 0
    for n in order:
        pos += (-pos) % 4
        off[n] = pos; pos += chunks[n]
    total = pos
    out = bytearray(total)
    def put(n, b):
        assert len(b) == chunks[n], (n, len(b), chunks[n]); out[off[n]:off[n] + len(b)] = b
    so, p = [], off["string_data"]
    for x in sdata: so.append(p); p += len(x)
    put("string_ids", struct.pack("<%dI" % len(strings), *so))
    put("string_data", b"".join(sdata))
    put("type_ids", struct.pack("<%dI" % len(types), *[sidx[t] for t in types]))
    put("proto_ids", struct.pack("<III", sidx["V"], tidx["V"], 0))
    put("field_ids", struct.pack("<HHI", tidx["LFoo;"], tidx["I"], sidx["x"]))
    put("method_ids", b"".join(struct.pack("<HHI", tidx["LFoo;"], 0, sidx["<init>"] if k == 0 else sidx["main"]) for k in range(nmethods)))
    put("class_defs", struct.pack("<8I", tidx["LFoo;"], 1, tidx["Ljava/lang/Object;"], 0, sidx["Foo.java"], 0, off["class_data"], 0))
    for k in range(nmethods): put("code%d" % k, code)
    uvals, ufields = [], {}
    for i, (name, v) in enumerate(ulebs):
        if v is None: v = off["code%d" % int(name[1:name.index("_")])]
        if uleb_patch and uleb_patch[0] == name: v = uleb_patch[1]
        ufields[name] = off["class_data"] + 5 * i
        uvals.append(uleb5(v))
    put("class_data", b"".join(uvals))
    items = [(0x0000, 1, 0), (0x0001, len(strings), off["string_ids"]), (0x0002, len(types), off["type_ids"]), (0x0003, 1, off["proto_ids"]),
             (0x0004, 1, off["field_ids"]), (0x0005, nmethods, off["method_ids"]), (0x0006, 1, off["class_defs"]),
             (0x2000, 1, off["class_data"]), (0x1000, 1, off["map_list"])]
    put("map_list", struct.pack("<I", len(items)) + b"".join(struct.pack("<HHII", t, 0, n, o) for t, n, o in items))
    data_off = min(off[n] for n in order if n in ("string_data", "class_data", "map_list") or n.startswith("code"))
    hdr = b"dex\n035\0" + b"\0" * 4 + b"\x11" * 20 + struct.pack("<20I", total, 0x70, 0x12345678, 0, 0, off["map_list"],
                                                                   len(strings), off["string_ids"], len(types), off["type_ids"], 1, off["proto_ids"],
                                                                   1, off["field_ids"], nmethods, off["method_ids"], 1, off["class_defs"], total - data_off, data_off)
    put("header", hdr)
    names = ["file_size", "header_size", "endian_tag", "link_size", "link_off", "map_off", "string_ids_size", "string_ids_off", "type_ids_size", "type_ids_off",
             "proto_ids_size", "proto_ids_off", "field_ids_size", "field_ids_off", "method_ids_size", "method_ids_off", "class_defs_size", "class_defs_off", "data_size", "data_off"]
    fields = {n: (0x20 + 4 * i, "<I") for i, n in enumerate(names)}
    for i in range(len(strings)): fields["string_ids[%d]" % i] = (off["string_ids"] + 4 * i, "<I")
    for i in range(len(types)): fields["type_ids[%d]" % i] = (off["type_ids"] + 4 * i, "<I")
    for i, n in enumerate(["class_idx", "access_flags", "superclass_idx", "interfaces_off", "source_file_idx", "annotations_off", "class_data_off", "static_values_off"]):
        fields["class_def." + n] = (off["class_defs"] + 4 * i, "<I")
    fields["proto.shorty_idx"] = (off["proto_ids"], "<I"); fields["proto.return_type_idx"] = (off["proto_ids"] + 4, "<I"); fields["proto.parameters_off"] = (off["proto_ids"] + 8, "<I")
    fields["field.class_idx"] = (off["field_ids"], "<H"); fields["field.type_idx"] = (off["field_ids"] + 2, "<H"); fields["field.name_idx"] = (off["field_ids"] + 4, "<I")
    fields["method0.class_idx"] = (off["method_ids"], "<H"); fields["method0.proto_idx"] = (off["method_ids"] + 2, "<H"); fields["method0.name_idx"] = (off["method_ids"] + 4, "<I")
    fields["map.size"] = (off["map_list"], "<I"); fields["map[1].size"] = (off["map_list"] + 4 + 12 + 4, "<I"); fields["map[1].offset"] = (off["map_list"] + 4 + 12 + 8, "<I")
    fields["code0.insns_size"] = (off["code0"] + 12, "<I"); fields["code0.tries_size"] = (off["code0"] + 6, "<H"); fields["code0.debug_info_off"] = (off["code0"] + 8, "<I")
    if patch:
        o, fmt = fields[patch[0]]
        w = struct.calcsize(fmt)
        struct.pack_into(fmt, out, o, patch[1] & ((1 << (8 * w)) - 1))
    data = bytes(out)
    if cut: data = data[:max(0, len(data) - cut)]
    return data, {"off": off, "size": chunks, "order": order, "fields": fields, "ulebs": [u[0] for u in ulebs], "total": total}


def family(r, tier):
    out = []
    base, info = build()
    out.append(("base", base))
    n = info["total"]
    for last in info["order"][1:]:
        d, inf = build(last=last)
        size = inf["size"][last]
        for cut in sorted({0, 1, 2, 3, 4, 5, 8, size // 2, size - 1, size - 4}):
            if 0 <= cut <= size:
                out.append(("last=%s cut=%d" % (last, cut), d[:len(d) - cut]))
    vals = lambda w: sorted({0, 1, 2, 7, 8, 9, n - 1, n, n + 1, n - 4, 0x7fff, 0xffff, 0x10000, 0x7fffffff, 0x80000000, 0xffffffff, (1 << (8 * w)) - 1})
    for fname, (o, fmt) in info["fields"].items():
        w = struct.calcsize(fmt)
        for v in vals(w):
            for last in (None, "string_data", "class_data", "map_list", "code0", "string_ids", "class_defs", "method_ids"):
                if last is not None and r.random() < (0.85 if tier == "quick" else 0.3):
                    continue
                d, _ = build(last=last, patch=(fname, v))
                out.append(("%s := %d last=%s" % (fname, v, last), d))
    for u in info["ulebs"]:
        for v in vals(4):
            for last in (None, "class_data", "code1"):
                if last is not None and r.random() < (0.7 if tier == "quick" else 0.0):
                    continue
                d, _ = build(last=last, uleb_patch=(u, v))
                out.append(("uleb %s := %d last=%s" % (u, v, last), d))
    for nm in (0, 1, 50):
        d, _ = build(nmethods=max(nm, 1)) if nm else build(uleb_patch=("direct_methods_size", 0))
        out.append(("nmethods=%d" % nm, d))
    return out
