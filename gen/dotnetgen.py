"""Structure-aware .NET generation for C06: a PE32 with a CLI header, a metadata root, the five streams (#~, #Strings, #US, #GUID,
#Blob) and the tables Module, TypeRef, TypeDef, Field, MethodDef, Param, MemberRef, CustomAttribute, ModuleRef, Assembly, AssemblyRef,
ManifestResource, GenericParam.  Mutants: every header / stream / table-header field at boundary values, list indexes pointing past
their tables, tables declared but absent, wide heap indexes, signature blobs over every element type (nested, truncated, with huge
compressed integers), the metadata placed at the very end of the file and cut inside (FieldMut.tla, StructuredMutants)."""
import struct

SEC_RVA, SEC_OFF = 0x2000, 0x200
T_MODULE, T_TYPEREF, T_TYPEDEF, T_FIELD, T_METHOD, T_PARAM, T_MEMBERREF, T_CUSTOMATTR, T_MODULEREF, T_ASSEMBLY, T_ASSEMBLYREF, T_MANIFESTRES, T_GENERICPARAM = \
    0x00, 0x01, 0x02, 0x04, 0x06, 0x08, 0x0A, 0x0C, 0x1A, 0x20, 0x23, 0x28, 0x2A


def blob_entry(b):
    n = len(b)
    if n < 0x80: return bytes([n]) + b
    if n < 0x4000: return bytes([0x80 | (n >> 8), n & 0xff]) + b
    return bytes([0xc0 | (n >> 24), (n >> 16) & 0xff, (n >> 8) & 0xff, n & 0xff]) + b


def build(sigs=None, nmethods=3, nparams=2, nfields=2, param_list=None, field_list=None, method_list=None, absent=(), heap_sizes=0,
          patch=None, cut=0, trailing=0x40, resources=True, typedef_extends=0):
    """returns (bytes, fields).  sigs: list of method signature blobs (one per method, cycled); absent: table numbers whose bit is set
    in Valid but whose rows are not written (rows count still given)"""
    sigs = sigs or [bytes([0x00, 0x01, 0x01, 0x08]), bytes([0x20, 0x02, 0x0e, 0x08, 0x1c]), bytes([0x00, 0x00, 0x01])]
    strings = b"\0"
    def S(s):
        nonlocal strings
        o = len(strings); strings += s.encode() + b"\0"; return o
    s_module, s_mod2, s_class, s_ns, s_obj, s_sys = S("<Module>"), S("demo.exe"), S("Worker"), S("Demo"), S("Object"), S("System")
    s_field, s_method, s_param, s_asm, s_ref, s_res, s_t, s_mref = S("count"), S("Run"), S("arg"), S("demo"), S("mscorlib"), S("Demo.res"), S("T"), S("kernel32.dll")
    blob = b"\0"
    def B(b):
        nonlocal blob
        o = len(blob); blob += blob_entry(b); return o
    b_sigs = [B(s) for s in sigs]
    b_field = B(bytes([0x06, 0x08]))
    b_key = B(bytes(range(8)))
    b_ca = B(bytes([0x01, 0x00, 0x00, 0x00]))
    b_mref = B(bytes([0x20, 0x00, 0x01]))
    us = b"\0" + blob_entry("hello".encode("utf-16-le") + b"\0") + blob_entry("wörld".encode("utf-16-le") + b"\1")
    guid = bytes(range(16)) + bytes(range(16, 32))
    wide_s, wide_g, wide_b = bool(heap_sizes & 1), bool(heap_sizes & 2), bool(heap_sizes & 4)
    si = (lambda v: struct.pack("<I", v)) if wide_s else (lambda v: struct.pack("<H", v & 0xffff))
    gi = (lambda v: struct.pack("<I", v)) if wide_g else (lambda v: struct.pack("<H", v & 0xffff))
    bi = (lambda v: struct.pack("<I", v)) if wide_b else (lambda v: struct.pack("<H", v & 0xffff))
    ix = lambda v: struct.pack("<H", v & 0xffff)
    rows = {}
    rows[T_MODULE] = [struct.pack("<H", 0) + si(s_mod2) + gi(1) + gi(0) + gi(0)]
    rows[T_TYPEREF] = [ix((1 << 2) | 2) + si(s_obj) + si(s_sys)]                        # ResolutionScope: AssemblyRef 1
    rows[T_TYPEDEF] = [struct.pack("<I", 0) + si(s_module) + si(0) + ix(0) + ix(1) + ix(1),
                       struct.pack("<I", 0x00100001) + si(s_class) + si(s_ns) + ix(typedef_extends if typedef_extends else ((1 << 2) | 1)) +
                       ix(field_list if field_list is not None else 1) + ix(method_list if method_list is not None else 1)]
    rows[T_FIELD] = [struct.pack("<H", 0x0006) + si(s_field) + bi(b_field) for _ in range(nfields)]
    rows[T_METHOD] = [struct.pack("<IHH", 0, 0, 0x0006) + si(s_method) + bi(b_sigs[k % len(b_sigs)]) + ix(param_list if param_list is not None else 1 + k)
                      for k in range(nmethods)]
    rows[T_PARAM] = [struct.pack("<HH", 0, k + 1) + si(s_param) for k in range(nparams)]
    rows[T_MEMBERREF] = [ix((1 << 3) | 1) + si(s_method) + bi(b_mref)]                  # MemberRefParent: TypeRef 1
    rows[T_CUSTOMATTR] = [ix((1 << 5) | 14) + ix((1 << 3) | 3) + bi(b_ca)]              # parent: Assembly 1, type: MemberRef 1
    rows[T_MODULEREF] = [si(s_mref)]
    rows[T_ASSEMBLY] = [struct.pack("<IHHHHI", 0x8004, 1, 2, 3, 4, 0) + bi(b_key) + si(s_asm) + si(0)]
    rows[T_ASSEMBLYREF] = [struct.pack("<HHHHI", 4, 0, 0, 0, 0) + bi(b_key) + si(s_ref) + si(0) + bi(0)]
    rows[T_MANIFESTRES] = [struct.pack("<II", 0, 1) + si(s_res) + ix(0)] if resources else []
    rows[T_GENERICPARAM] = [struct.pack("<HH", 0, 0) + ix((2 << 1) | 0) + si(s_t)]      # owner: TypeDef 2
    present = sorted(t for t in rows if rows[t])
    valid = 0
    for t in present: valid |= 1 << t
    counts = b"".join(struct.pack("<I", len(rows[t])) for t in present)
    body = b"".join(b"".join(rows[t]) for t in present if t not in absent)
    tilde = struct.pack("<IBBBBQQ", 0, 2, 0, heap_sizes, 1, valid, 0x16003301fa00) + counts + body
    tilde += b"\0" * (-len(tilde) % 4)
    pad4 = lambda b: b + b"\0" * (-len(b) % 4)
    streams = [(b"#~", tilde), (b"#Strings", pad4(strings)), (b"#US", pad4(us)), (b"#GUID", guid), (b"#Blob", pad4(blob))]
    ver = b"v4.0.30319\0\0"
    root = struct.pack("<IHHII", 0x424a5342, 1, 1, 0, len(ver)) + ver + struct.pack("<HH", 0, len(streams))
    hdrs_len = sum(8 + ((len(n) + 1 + 3) & ~3) for n, _ in streams)
    fields = {}
    pe, cli = 0x40, SEC_OFF
    res_blob = struct.pack("<I", 8) + b"RESDATA!"
    res_off = cli + 72
    md = res_off + ((len(res_blob) + 3) & ~3)
    pos = len(root) + hdrs_len
    hdrs = b""
    offs = {}
    for n, b in streams:
        nm = n + b"\0"; nm += b"\0" * (-len(nm) % 4)
        fields["stream %s.offset" % n.decode()] = (md + len(root) + len(hdrs), "<I")
        fields["stream %s.size" % n.decode()] = (md + len(root) + len(hdrs) + 4, "<I")
        hdrs += struct.pack("<II", pos, len(b)) + nm
        offs[n] = md + pos; pos += len(b)
    mdata = root + hdrs + b"".join(b for _, b in streams)
    total_md = len(mdata)
    end = md + total_md + trailing
    img = bytearray(end)
    img[0:2] = b"MZ"; struct.pack_into("<I", img, 0x3c, pe)
    img[pe:pe + 4] = b"PE\0\0"
    struct.pack_into("<HHIIIHH", img, pe + 4, 0x14c, 1, 0, 0, 0, 224, 0x0102)
    opt = pe + 24
    struct.pack_into("<H", img, opt, 0x10b)
    struct.pack_into("<I", img, opt + 16, SEC_RVA)
    struct.pack_into("<III", img, opt + 28, 0x400000, 0x2000, 0x200)
    struct.pack_into("<I", img, opt + 56, 0x4000); struct.pack_into("<I", img, opt + 60, 0x200); struct.pack_into("<I", img, opt + 92, 16)
    rva = lambda o: o - SEC_OFF + SEC_RVA
    struct.pack_into("<II", img, opt + 96 + 14 * 8, rva(cli), 72)
    sec = opt + 224
    img[sec:sec + 5] = b".text"
    struct.pack_into("<IIII", img, sec + 8, end - SEC_OFF, SEC_RVA, end - SEC_OFF, SEC_OFF)
    struct.pack_into("<I", img, sec + 36, 0x60000020)
    struct.pack_into("<IHHIIII", img, cli, 72, 2, 5, rva(md), total_md, 1, 0x06000001)
    struct.pack_into("<II", img, cli + 24, rva(res_off), len(res_blob))              # Resources directory
    img[res_off:res_off + len(res_blob)] = res_blob
    img[md:md + total_md] = mdata
    fields.update({"cli.cb": (cli, "<I"), "cli.metadata_rva": (cli + 8, "<I"), "cli.metadata_size": (cli + 12, "<I"), "cli.resources_rva": (cli + 24, "<I"),
                   "cli.resources_size": (cli + 28, "<I"), "cli.entry_token": (cli + 20, "<I"), "root.version_length": (md + 12, "<I"),
                   "root.nstreams": (md + 16 + len(ver) + 2, "<H"), "tilde.heap_sizes": (offs[b"#~"] + 6, "<B"), "tilde.valid_lo": (offs[b"#~"] + 8, "<I"),
                   "tilde.valid_hi": (offs[b"#~"] + 12, "<I"), "res.length": (res_off, "<I")})
    for k, t in enumerate(present):
        fields["rows[0x%02x]" % t] = (offs[b"#~"] + 24 + 4 * k, "<I")
    if patch:
        o, fmt = fields[patch[0]]
        w = struct.calcsize(fmt)
        struct.pack_into(fmt, img, o, patch[1] & ((1 << (8 * w)) - 1))
    data = bytes(img)
    if cut: data = data[:max(0, len(data) - cut)]
    return data, fields


def cint(v):
    """ECMA-335 compressed unsigned integer"""
    if v < 0x80: return bytes([v])
    if v < 0x4000: return bytes([0x80 | (v >> 8), v & 0xff])
    return bytes([0xc0 | ((v >> 24) & 0x1f), (v >> 16) & 0xff, (v >> 8) & 0xff, v & 0xff])


def signatures():
    """method signature blobs: every element type as parameter / return type, nested and malformed forms"""
    out = []
    for et in list(range(0x00, 0x22)) + [0x40, 0x41, 0x45, 0x50, 0x51, 0x53, 0x54, 0x55, 0x7f, 0x80, 0xff]:
        out.append(bytes([0x00, 0x01, 0x01, et]))                    # void f(<et>)
        out.append(bytes([0x00, 0x01, et, 0x08]))                    # <et> f(int)
        out.append(bytes([0x20, 0x02, 0x01, 0x08, et]))              # instance, second parameter
        out.append(bytes([0x00, 0x01, 0x01, 0x1d, et]))              # SZARRAY of <et>
        out.append(bytes([0x00, 0x01, 0x01, 0x0f, et]))              # PTR to <et>
        out.append(bytes([0x00, 0x01, 0x01, 0x10, et]))              # BYREF
        out.append(bytes([0x00, 0x01, 0x01, 0x15, 0x12, 0x05, 0x02, et, 0x08]))        # GENERICINST class<et,int>
        out.append(bytes([0x00, 0x01, 0x01, 0x14, et, 0x02, 0x01, 0x03, 0x00]))        # ARRAY of <et>, rank 2
    for token in (0x05, 0x09, 0x06, 0x00, 0x7f, 0x3ffd):
        out.append(bytes([0x00, 0x01, 0x01, 0x12]) + cint(token))    # CLASS with TypeDefOrRef tokens (valid, null, past the tables)
        out.append(bytes([0x00, 0x01, 0x01, 0x11]) + cint(token))    # VALUETYPE
    for n in (0, 1, 2, 0x7f, 0x80, 0x3fff, 0x4000, 0x1fffffff):
        out.append(bytes([0x00]) + cint(n) + bytes([0x01, 0x08]))    # declared parameter count
        out.append(bytes([0x10]) + cint(n) + bytes([0x01, 0x01, 0x08]))       # generic method: generic parameter count
        out.append(bytes([0x00, 0x01, 0x01, 0x14, 0x08]) + cint(n) + cint(n) + b"\x01" * 4)    # ARRAY: rank / sizes
        out.append(bytes([0x00, 0x01, 0x01, 0x15, 0x12, 0x05]) + cint(n) + b"\x08\x08")      # GENERICINST: argument count
        out.append(bytes([0x00, 0x01, 0x01, 0x13]) + cint(n))        # VAR n
        out.append(bytes([0x00, 0x01, 0x01, 0x1e]) + cint(n))        # MVAR n
    deep = bytes([0x00, 0x01, 0x01]) + bytes([0x1d]) * 60 + bytes([0x08])
    out += [deep, bytes([0x00, 0x01, 0x01]) + bytes([0x0f]) * 300 + bytes([0x01]), bytes([0x00, 0x01, 0x01]) + bytes([0x15, 0x12, 0x05, 0x01]) * 40 + bytes([0x08]),
            b"", b"\x00", b"\x00\x01", b"\x00\x01\x01", bytes([0x00, 0x05, 0x01, 0x08]), bytes([0x00, 0x01, 0x01, 0x1f, 0x05, 0x08]), bytes([0x00, 0x01, 0x01, 0x20, 0x05, 0x08]),
            bytes([0x00, 0x01, 0x01, 0x1b, 0x00, 0x00])]
    return out


def family(r, tier):
    out = []
    base, fields = build()
    n = len(base)
    out.append(("base", base))
    sigs = signatures()
    if tier == "quick": sigs = r.sample(sigs, min(len(sigs), 220))
    for k in range(0, len(sigs), 3):
        chunk = sigs[k:k + 3]
        for pl in (None, 1, 3, 40):                    # ParamList: own rows / shared / the last row / past the Param table
            if tier == "quick" and pl in (1, 3) and r.random() < 0.6: continue
            d, _ = build(sigs=chunk, param_list=pl)
            out.append(("signatures %s ParamList=%s" % ([x.hex() for x in chunk], pl), d))
        d, _ = build(sigs=chunk, nparams=0)
        out.append(("signatures %s no Param table" % [x.hex() for x in chunk], d))
    for fname, (o, fmt) in fields.items():
        w = struct.calcsize(fmt)
        for v in sorted({0, 1, 2, 3, 4, 7, n - 1, n, n + 1, n - 4, 0x7f, 0x80, 0xff, 0x7fff, 0xffff, 0x10000, 0x7fffffff, 0x80000000, 0xfffffffc, 0xffffffff}):
            for trailing in (0x40, 0):
                if trailing == 0 and tier == "quick" and r.random() < 0.6: continue
                d, _ = build(patch=(fname, v), trailing=trailing)
                out.append(("%s := %d trailing=%d" % (fname, v, trailing), d))
    for hs in range(8):
        d, _ = build(heap_sizes=hs)
        out.append(("heap_sizes=%d" % hs, d))
    for t in (T_TYPEREF, T_TYPEDEF, T_FIELD, T_METHOD, T_PARAM, T_MEMBERREF, T_CUSTOMATTR, T_MODULEREF, T_ASSEMBLY, T_ASSEMBLYREF, T_MANIFESTRES, T_GENERICPARAM):
        d, _ = build(absent=(t,))
        out.append(("table 0x%02x declared but absent" % t, d))
        d, _ = build(absent=tuple(x for x in (T_TYPEREF, T_TYPEDEF, T_FIELD, T_METHOD, T_PARAM, T_MEMBERREF, T_CUSTOMATTR, T_MODULEREF, T_ASSEMBLY, T_ASSEMBLYREF, T_MANIFESTRES, T_GENERICPARAM) if x >= t), trailing=0)
        out.append(("tables from 0x%02x on absent, metadata at the end of the file" % t, d))
    for fl, ml, pl in ((0, 0, 0), (3, 4, 3), (0xffff, 0xffff, 0xffff), (2, 1, 0x7fff), (1, 200, 1)):
        d, _ = build(field_list=fl, method_list=ml, param_list=pl)
        out.append(("FieldList=%d MethodList=%d ParamList=%d" % (fl, ml, pl), d))
    for ext in (0, (5 << 2) | 1, (1 << 2) | 0, (2 << 2) | 0, 0xfffc | 1, (2 << 2) | 2):
        d, _ = build(typedef_extends=ext)
        out.append(("TypeDef.Extends=%#x" % ext, d))
    for nm, npar, nf in ((0, 0, 0), (1, 0, 0), (50, 1, 0), (1, 50, 50), (300, 2, 2)):
        d, _ = build(nmethods=nm, nparams=npar, nfields=nf)
        out.append(("methods=%d params=%d fields=%d" % (nm, npar, nf), d))
    d0, _ = build(trailing=0)
    for cut in list(range(1, 200, 1 if tier != "quick" else 4)) + [len(d0) // 2]:
        out.append(("metadata at the end of the file, cut=%d" % cut, d0[:len(d0) - cut]))
    return out
