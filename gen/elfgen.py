"""Structure-aware ELF64 generation for C06 (the counterpart of pegen.py): an ELF is a set of named chunks - ELF header,
program headers, .text, .dynamic, .dynstr, .dynsym, .symtab, .strtab, .shstrtab, section headers - laid out in any order;
any chunk can be placed LAST in the file, the file cut inside it, and every count / size / offset / name-index field pushed
to and past the end of the buffer (FieldMut.tla, StructuredMutants)."""
import struct

NAMES = ["", ".text", ".dynamic", ".dynstr", ".dynsym", ".symtab", ".strtab", ".shstrtab"]


def strtab(names):
    b, off = b"\0", {}
    for n in names:
        if n and n not in off:
            off[n] = len(b); b += n.encode() + b"\0"
    off[""] = 0
    return b, off


def build(last=None, cut=0, patch=None, nsyms=3, ndyn=4, big_endian=False, bits=64, unterminated=None):
    """returns (bytes, info).  patch = (field name, value) overwrites one header field after layout;
    unterminated = name of a string table whose final NUL is removed (it is then put last by the caller)"""
    assert bits == 64
    E = ">" if big_endian else "<"
    shstr, shoff_of = strtab(NAMES)
    dynstr, dynoff = strtab(["libc.so.6", "puts", "exit"])
    symstr, symoff = strtab(["main", "helper", "data_obj"][:max(nsyms, 0)] + ["x"])
    if unterminated == "shstrtab": shstr = shstr[:-1] + b"Z"
    if unterminated == "dynstr": dynstr = dynstr[:-1] + b"Z"
    if unterminated == "strtab": symstr = symstr[:-1] + b"Z"
    chunks = {"ehdr": 64, "phdrs": 56 * 3, "text": 16, "dynamic": 16 * (ndyn + 1), "dynstr": len(dynstr), "dynsym": 24 * (nsyms + 1),
              "symtab": 24 * (nsyms + 1), "strtab": len(symstr), "shstrtab": len(shstr), "shdrs": 64 * len(NAMES)}
    order = ["ehdr", "phdrs", "text", "dynamic", "dynstr", "dynsym", "symtab", "strtab", "shstrtab", "shdrs"]
    if last and last != "ehdr":
        order.remove(last); order.append(last)
    off, pos = {}, 0
    for n in order:
        pos += (-pos) % (8 if n in ("phdrs", "dynamic", "dynsym", "symtab", "shdrs") else 1)
        off[n] = pos; pos += chunks[n]
    total = pos
    out = bytearray(total)
    base = 0x400000
    va = lambda n: base + off[n]

    def put(n, b):
        assert len(b) == chunks[n], (n, len(b), chunks[n])
        out[off[n]:off[n] + len(b)] = b

    ident = b"\x7fELF" + bytes([2, 2 if big_endian else 1, 1, 0]) + b"\0" * 8
    put("ehdr", ident + struct.pack(E + "HHIQQQIHHHHHH", 3, 62, 1, va("text"), off["phdrs"], off["shdrs"], 0, 64, 56, 3, 64, len(NAMES), 7))
    ph = struct.pack(E + "IIQQQQQQ", 1, 5, 0, base, base, total, total, 0x1000)
    ph += struct.pack(E + "IIQQQQQQ", 2, 6, off["dynamic"], va("dynamic"), va("dynamic"), chunks["dynamic"], chunks["dynamic"], 8)
    ph += struct.pack(E + "IIQQQQQQ", 4, 4, off["dynstr"], va("dynstr"), va("dynstr"), chunks["dynstr"], chunks["dynstr"], 1)
    put("phdrs", ph)
    put("text", b"\xc3" * 16)
    dyn = [(1, dynoff["libc.so.6"]), (5, va("dynstr")), (6, va("dynsym")), (10, len(dynstr))][:ndyn]
    dyn += [(0x6ffffffb, 1)] * (ndyn - len(dyn))
    put("dynamic", b"".join(struct.pack(E + "qQ", t, v) for t, v in dyn) + struct.pack(E + "qQ", 0, 0))
    put("dynstr", dynstr)
    dsyms = struct.pack(E + "IBBHQQ", 0, 0, 0, 0, 0, 0)
    for i in range(nsyms):
        dsyms += struct.pack(E + "IBBHQQ", dynoff[["puts", "exit", "puts"][i % 3]], 0x12, 0, 0 if i else 1, va("text") + i, 4)
    put("dynsym", dsyms)
    syms = struct.pack(E + "IBBHQQ", 0, 0, 0, 0, 0, 0)
    for i in range(nsyms):
        nm = ["main", "helper", "data_obj"][i % 3]
        syms += struct.pack(E + "IBBHQQ", symoff[nm], 0x12 if i % 3 < 2 else 0x11, 0, 1, va("text") + i, 8)
    put("symtab", syms)
    put("strtab", symstr)
    put("shstrtab", shstr)
    sh = struct.pack(E + "IIQQQQIIQQ", 0, 0, 0, 0, 0, 0, 0, 0, 0, 0)
    def S(name, typ, flags, n, link=0, info=0, align=1, entsize=0):
        return struct.pack(E + "IIQQQQIIQQ", shoff_of[name], typ, flags, va(n), off[n], chunks[n], link, info, align, entsize)
    sh += S(".text", 1, 6, "text", align=16)
    sh += S(".dynamic", 6, 3, "dynamic", link=3, align=8, entsize=16)
    sh += S(".dynstr", 3, 2, "dynstr")
    sh += S(".dynsym", 11, 2, "dynsym", link=3, info=1, align=8, entsize=24)
    sh += S(".symtab", 2, 0, "symtab", link=6, info=1, align=8, entsize=24)
    sh += S(".strtab", 3, 0, "strtab")
    sh += S(".shstrtab", 3, 0, "shstrtab")
    put("shdrs", sh)
    shdr = lambda i, fo: off["shdrs"] + 64 * i + fo
    fields = {"e_phoff": (0x20, "Q"), "e_shoff": (0x28, "Q"), "e_phnum": (0x38, "H"), "e_shnum": (0x3c, "H"), "e_shstrndx": (0x3e, "H"), "e_phentsize": (0x36, "H"),
              "e_shentsize": (0x3a, "H"), "e_entry": (0x18, "Q"),
              "ph1.p_offset": (off["phdrs"] + 56 + 8, "Q"), "ph1.p_filesz": (off["phdrs"] + 56 + 32, "Q"), "ph0.p_filesz": (off["phdrs"] + 32, "Q"),
              "ph0.p_offset": (off["phdrs"] + 8, "Q")}
    for i, nm in enumerate(NAMES):
        if i == 0: continue
        fields["sh%s.sh_name" % nm] = (shdr(i, 0), "I")
        fields["sh%s.sh_offset" % nm] = (shdr(i, 24), "Q")
        fields["sh%s.sh_size" % nm] = (shdr(i, 32), "Q")
        fields["sh%s.sh_link" % nm] = (shdr(i, 40), "I")
        fields["sh%s.sh_entsize" % nm] = (shdr(i, 56), "Q")
    for i in range(1, nsyms + 1):
        fields["symtab[%d].st_name" % i] = (off["symtab"] + 24 * i, "I")
        fields["dynsym[%d].st_name" % i] = (off["dynsym"] + 24 * i, "I")
        fields["symtab[%d].st_shndx" % i] = (off["symtab"] + 24 * i + 6, "H")
    for i in range(ndyn):
        fields["dynamic[%d].d_val" % i] = (off["dynamic"] + 16 * i + 8, "Q")
        fields["dynamic[%d].d_tag" % i] = (off["dynamic"] + 16 * i, "Q")
    if patch:
        name, val = patch
        o, fmt = fields[name]
        width = {"H": 2, "I": 4, "Q": 8}[fmt]
        struct.pack_into(E + fmt, out, o, val & ((1 << (8 * width)) - 1))
    data = bytes(out)
    if cut: data = data[:max(0, len(data) - cut)]
    return data, {"off": off, "size": chunks, "order": order, "fields": fields, "total": total}


def family(r, tier):
    out = []
    base, info = build()
    out.append(("base", base))
    n = info["total"]
    for be in (False, True):
        for last in info["order"][1:]:
            d, inf = build(last=last, big_endian=be)
            size = inf["size"][last]
            for cut in sorted({0, 1, 2, 3, 4, 7, 8, size // 2, size - 1, size - 8, size - 24} - {-1}):
                if 0 <= cut <= size:
                    out.append(("last=%s cut=%d be=%s" % (last, cut, be), d[:len(d) - cut]))
        for st in ("shstrtab", "dynstr", "strtab"):
            d, _ = build(last=st, unterminated=st, big_endian=be)
            out.append(("unterminated %s last be=%s" % (st, be), d))
    vals = lambda total, w: sorted({0, 1, 2, total - 1, total, total + 1, total - 8, 0x7fff, 0xffff, 0x7fffffff, 0xffffffff, (1 << (8 * w)) - 1, (1 << (8 * w - 1))})
    for fname, (o, fmt) in info["fields"].items():
        w = {"H": 2, "I": 4, "Q": 8}[fmt]
        for v in vals(n, w):
            for last in (None, "shstrtab", "strtab", "dynstr", "shdrs", "symtab", "dynsym", "dynamic", "phdrs"):
                if last is not None and r.random() < (0.85 if tier == "quick" else 0.4):
                    continue
                d, _ = build(last=last, patch=(fname, v))
                out.append(("%s := %d last=%s" % (fname, v, last), d))
    for nsyms in (0, 1, 40):
        for ndyn in (0, 1, 30):
            d, _ = build(nsyms=nsyms, ndyn=ndyn)
            out.append(("nsyms=%d ndyn=%d" % (nsyms, ndyn), d))
    return out
