"""Structure-aware Mach-O generation for C06 (counterpart of pegen.py / elfgen.py): thin 64-bit and 32-bit images made of a header and
load commands (LC_SEGMENT[_64] with sections, LC_UNIXTHREAD, LC_MAIN, an unknown command), and fat files embedding them (32- and 64-bit
fat_arch tables).  Every count / size / offset field can be set to boundary values relative to the file length, the load commands can
end exactly at the end of the file, and the file can be cut anywhere inside them (FieldMut.tla, StructuredMutants)."""
import struct

MH_MAGIC, MH_MAGIC_64, MH_CIGAM_64 = 0xfeedface, 0xfeedfacf, 0xcffaedfe
LC_SEGMENT, LC_UNIXTHREAD, LC_SEGMENT_64, LC_MAIN = 1, 5, 0x19, 0x80000028


def thin(bits=64, big_endian=False, nsects=2, payload=32, with_main=True, with_thread=True, tail_cmds_last=False):
    """returns (bytes, fields) - fields: name -> (offset, struct format) of every count / size / offset field"""
    E = ">" if big_endian else "<"
    fields = {}
    cmds = b""
    hdr_size = 32 if bits == 64 else 28
    def seg(name, nsec, fileoff, filesize):
        if bits == 64:
            c = struct.pack(E + "II16sQQQQIIII", LC_SEGMENT_64, 72 + 80 * nsec, name, 0x100000000, 0x1000, fileoff, filesize, 7, 5, nsec, 0)
            for i in range(nsec):
                c += struct.pack(E + "16s16sQQIIIIIIII", b"__sect%d" % i, name, 0x100000000 + 16 * i, 16, fileoff + 16 * i, 4, 0, 0, 0x80000400, 0, 0, 0)
        else:
            c = struct.pack(E + "II16sIIIIIIII", LC_SEGMENT, 56 + 68 * nsec, name, 0x1000, 0x1000, fileoff, filesize, 7, 5, nsec, 0)
            for i in range(nsec):
                c += struct.pack(E + "16s16sIIIIIIIII", b"__sect%d" % i, name, 0x1000 + 16 * i, 16, fileoff + 16 * i, 4, 0, 0, 0x80000400, 0, 0)
        return c
    ncmds = 0
    parts = []
    parts.append(("seg0", seg(b"__TEXT", nsects, 0, 0)))          # fileoff / filesize patched below
    parts.append(("seg1", seg(b"__DATA", 1, 0, 0)))
    if with_thread:
        if bits == 64:
            state = struct.pack(E + "21Q", *([0] * 16 + [0x100000010] + [0] * 4))       # x86_thread_state64: rip at index 16
            parts.append(("thread", struct.pack(E + "IIII", LC_UNIXTHREAD, 16 + len(state), 4, len(state) // 4) + state))
        else:
            state = struct.pack(E + "16I", *([0] * 10 + [0x1010] + [0] * 5))             # i386_thread_state: eip at index 10
            parts.append(("thread", struct.pack(E + "IIII", LC_UNIXTHREAD, 16 + len(state), 1, len(state) // 4) + state))
    if with_main:
        parts.append(("main", struct.pack(E + "IIQQ", LC_MAIN, 24, 0x10, 0)))
    parts.append(("unknown", struct.pack(E + "II", 0x7fffff01, 16) + b"\x11" * 8))
    sizeofcmds = sum(len(p[1]) for p in parts)
    data_off = hdr_size + sizeofcmds
    total = data_off + payload
    cputype = (7 | 0x01000000) if bits == 64 else 7
    magic = MH_MAGIC_64 if bits == 64 else MH_MAGIC
    hdr = struct.pack(E + "IiiIIII", magic, cputype, 3, 2, len(parts), sizeofcmds, 0x85) + (struct.pack(E + "I", 0) if bits == 64 else b"")
    fields["ncmds"] = (16, "I"); fields["sizeofcmds"] = (20, "I"); fields["cputype"] = (4, "I"); fields["filetype"] = (12, "I")
    out = bytearray(hdr)
    pos = hdr_size
    for name, c in parts:
        fields["%s.cmd" % name] = (pos, "I"); fields["%s.cmdsize" % name] = (pos + 4, "I")
        if name.startswith("seg"):
            if bits == 64:
                fields["%s.fileoff" % name] = (pos + 40, "Q"); fields["%s.filesize" % name] = (pos + 48, "Q"); fields["%s.nsects" % name] = (pos + 64, "I")
                fields["%s.sect0.offset" % name] = (pos + 72 + 48, "I"); fields["%s.sect0.size" % name] = (pos + 72 + 40, "Q")
            else:
                fields["%s.fileoff" % name] = (pos + 32, "I"); fields["%s.filesize" % name] = (pos + 36, "I"); fields["%s.nsects" % name] = (pos + 48, "I")
                fields["%s.sect0.offset" % name] = (pos + 56 + 40, "I"); fields["%s.sect0.size" % name] = (pos + 56 + 36, "I")
        if name == "thread":
            fields["thread.flavor"] = (pos + 8, "I"); fields["thread.count"] = (pos + 12, "I")
        if name == "main":
            fields["main.entryoff"] = (pos + 8, "Q")
        out += c; pos += len(c)
    out += bytes((i * 7) & 0xff for i in range(payload))
    # patch the segments to cover the payload
    for name, span in (("seg0", (data_off, payload // 2)), ("seg1", (data_off + payload // 2, payload - payload // 2))):
        o, fmt = fields["%s.fileoff" % name]; struct.pack_into(E + fmt, out, o, span[0])
        o, fmt = fields["%s.filesize" % name]; struct.pack_into(E + fmt, out, o, span[1])
    if tail_cmds_last:
        out = out[:data_off]                 # the load commands are the last thing in the file
    return bytes(out), {k: (o, E + f) for k, (o, f) in fields.items()}


def fat(archs, fat64=False, pad=8):
    """archs: list of thin images; returns (bytes, fields)"""
    n = len(archs)
    asz = 32 if fat64 else 20
    hdr = struct.pack(">II", 0xcafebabf if fat64 else 0xcafebabe, n)
    fields = {"nfat_arch": (4, ">I")}
    off = 8 + asz * n
    table, blobs = b"", b""
    for i, a in enumerate(archs):
        off += (-off) % pad
        cputype = struct.unpack("<I" if a[:4] in (b"\xcf\xfa\xed\xfe", b"\xce\xfa\xed\xfe") else ">I", a[4:8])[0]
        if fat64:
            fields["arch%d.offset" % i] = (8 + asz * i + 8, ">Q"); fields["arch%d.size" % i] = (8 + asz * i + 16, ">Q")
            table += struct.pack(">IIQQII", cputype, 3, off, len(a), 3, 0)
        else:
            fields["arch%d.offset" % i] = (8 + asz * i + 8, ">I"); fields["arch%d.size" % i] = (8 + asz * i + 12, ">I")
            table += struct.pack(">IIIII", cputype, 3, off, len(a), 3)
        blobs += b"\0" * (off - (8 + asz * n + len(blobs))) + a
        off += len(a)
    return hdr + table + blobs, fields


def family(r, tier):
    out = []
    variants = []
    for bits in (64, 32):
        for be in (False, True):
            d, f = thin(bits=bits, big_endian=be)
            variants.append(("thin%d%s" % (bits, "be" if be else "le"), d, f))
            d2, f2 = thin(bits=bits, big_endian=be, tail_cmds_last=True)
            variants.append(("thin%d%s cmds-last" % (bits, "be" if be else "le"), d2, f2))
    t64, _ = thin(64); t32, _ = thin(32); t64be, _ = thin(64, big_endian=True)
    for f64 in (False, True):
        d, f = fat([t32, t64, t64be], fat64=f64)
        variants.append(("fat%s" % ("64" if f64 else "32"), d, f))
    d, f = fat([t64], fat64=False, pad=1)
    variants.append(("fat32 one arch at the end", d, f))
    for name, d, f in variants:
        n = len(d)
        out.append((name, d))
        step = 1 if tier != "quick" else 3
        for cut in list(range(1, min(n, 200), step)) + [n // 2]:
            out.append(("%s cut=%d" % (name, cut), d[:n - cut]))
        for fname, (o, fmt) in f.items():
            w = struct.calcsize(fmt)
            for v in sorted({0, 1, 2, 3, n - 1, n, n + 1, n - 8, 0x7fff, 0xffff, 0x7fffffff, 0x80000000, 0xffffffff, (1 << (8 * w)) - 1, (1 << (8 * w - 1)), 0xfffffff0}):
                if tier == "quick" and r.random() < 0.5:
                    continue
                b = bytearray(d)
                struct.pack_into(fmt, b, o, v & ((1 << (8 * w)) - 1))
                out.append(("%s %s := %d" % (name, fname, v), bytes(b)))
    return out
