#!/usr/bin/env python3
"""Regenerate MANIFEST.json from the table below (keeps it valid at all times)."""
import json, os
V = os.path.dirname(os.path.dirname(os.path.abspath(__file__)))
props = [json.loads(l) for l in open(os.path.join(V, "properties.jsonl"))]

CLAIMED = {
 "C06": dict(cat="exploration", tech="boundary-value field and truncation mutants (FieldMut.tla) of PE/ELF/.NET/Mach-O/DEX seeds scanned under ASan/UBSan with every module; scan contract judged by FieldMut!ModScanOK in TLC",
   text="A TLA+ specification cannot establish that C code stays inside its buffers; it contributes the contract of a scan for every input (success, one import and one imported message per module, finished) and the definition of the mutant space: every byte position of every seed as a potential offset/size/count field of width 1/2/4/8 in both byte orders set to boundary values relative to the file length, and every truncation. Each mutant is scanned by a sanitizer-built driver with a rule set calling every function of every module while the imported-module callback walks the whole object tree.",
   ref="5 C06, 6", note="exploration: a removed bounds check is detected iff a scheduled mutant reaches it; structure-aware pairs of fields (e.g. an export table placed at the end of the file) are not generated yet."),
 "C09": dict(cat="model_checking", tech="TLC model checking of SigHandler.tla (all interleavings) + ThreadSanitizer runs whose per-thread traces are validated independently against ScanTrace.tla and whose hook-H5 event order is validated against SigHandler!HookTraceOK",
   text="SigHandler.tla has one action per statement between lock operations of YR_TRYCATCH; TLC checks HandlerCoversBody / CountExact / InstalledIffUsed for 3 threads x 2 scans and termination (the count-inside-if variant violates them). A TSan-built multi-threaded driver runs 2-32 threads over one shared rule set (own scanners and the rules-level wrapper, memory and memory-mapped files, abort/error replies, per-scanner external definitions); each thread's recorded trace must be accepted by ScanTrace.tla on its own (= it reports what it would report alone); the use-count events recorded under the library's mutex must replay the model; a timeout-privacy run checks that sub-second scans with 8 s timeouts never time out beside 23 busy threads.",
   ref="5 C09, 4.11", note="OS schedules are sampled, not enumerated; hook H5 (YARA_VERIF)."),
 "C18": dict(cat="model_checking", tech="TLC model checking of CliQueue.tla (safety, deadlock freedom, termination under weak fairness) + hook-H6 queue traces judged by CliQueue!QueueTraceOK + output-multiset comparison of yara -p N against per-file single-threaded runs, yarac/-C/-d forms, exit status",
   text="CliQueue.tla models the ring of Q+1 slots, head/tail, mutex, the two counting semaphores and the finish tokens, one action per statement; TLC checks NoSlotOverwritten / AtMostOnce / ExactlyOnce / MutexOK and Termination for 3 consumers, 2 slots, 5 files (too few finish tokens violates Termination, no mutex violates AtMostOnce). The real tool, built with a 2-slot queue under ThreadSanitizer, scans generated trees with 1-32 threads and 6-10 option sets; its queue events (taken under queue_mutex) must be FIFO/exactly-once per the model and its output multiset must equal the union of single-file runs; compiled rules with externals at either stage must print what source rules print; exit status non-zero iff an error was reported.",
   ref="5 C18, 4.11", note="-l excluded (schedule-dependent by definition); hook H6 (YARA_VERIF) and -DMAX_QUEUED_FILES=2."),
 "C07": dict(cat="exploration", tech="grammar-aware token mutation of rule sources compiled under ASan; every compile call judged by TLC against ApiLifecycle!CompileOK (TLA+ contract); lifecycle model-checked",
   text="ApiLifecycle.tla states the compile contract (ret > 0 iff an error callback with a message was delivered; ret = number of errors) and the object life cycle (model-checked: every outcome leaves the objects destroyable). TokenMut enumerates for every token position of every seed deletion, duplication, truncation, swap, replacement/insertion of a token of each class and character damage inside the token, plus 40 oversize/limit/include/strict-escape families; each mutant is compiled through add_string/add_file/add_fd/add_bytes in a process that also holds a healthy compiler, rule set and scanner which are re-checked; heap growth after destroying failed compilers is a violation.",
   ref="5 C07, 6", note="memory safety over all byte strings is not decidable by a TLA+ spec: observed through ASan/UBSan where a scheduled mutant reaches the fault. Errors raised at end of input carry line 0 (accepted, see DESIGN corrections)."),
 "C14": dict(cat="model_checking", tech="TLC model checking of HashRange.tla (digest cache coherence, range walk) + validation of every recorded call: addressed segments judged by HashRange!Addressed in TLC, value recomputed with hashlib/zlib on exactly those bytes",
   text="HashRange.tla transcribes the range walk over memory blocks and models the digest cache with an uninterpreted digest; TLC checks CacheCoherent over all sequences of 3 calls x 2 algorithms x offsets/lengths -1..5 (a key without the algorithm or taken from the walked offsets violates it). On the library: per scan 3-10 calls of hash/math/string functions incl. re-requests of the same, adjacent and cross-algorithm ranges over single-block, multi-block and gapped layouts; results observed through console.log.",
   ref="5 C14, 4.12", note="float statistics compared with tolerance 1e-5 outside the spec; serial_correlation / monte_carlo_pi / in_range exercised but not judged."),
 "C15": dict(cat="model_checking", tech="limit cases at L-1/L/L+1/far judged by Limits.tla in TLC + match-cap isolation traces validated against Scan.tla (production and scaled builds) + measured timeout bound",
   text="Limits.tla holds the documented limits and the documented outcome of exceeding each; every case (loop nesting, include depth, identifier length, lexer buffer, regexp repeat, integer literal, strings per rule at 3 settings, evaluation stack at 2 settings, regexp fibers with 3 bombs) is compiled/scanned under ASan and judged by LimitOK, followed by a recovery check on the same objects (RecoveredOK). The match cap is validated through Scan.tla traces (LimitIsolation) with the production constant (1,000,000 matches) and the scaled build (6). Five long-running rule shapes with a 1 s timeout are judged by TimeoutOK (slack 4 s) and the scanner is reused.",
   ref="5 C15, 4.13", note="timeliness is measured (exploration-level for that clause); everything else discrete."),
 "C05": dict(cat="model_checking", tech="trace validation of rules compiled in company: every rule's observation judged by TLC against its own reference semantics (compositional oracle) + direct alone-vs-company comparison + source/include cuts",
   text="Rule sets of 4-14 cases from the text/hex/regex/condition generators plus noise rules built to share atoms, prefixes, suffixes and inner atoms with a backtrack, spread over 1-3 namespaces cut into several add-source calls, with a false global rule and same-prefix rules in a foreign namespace, shuffled; every rule x buffer is (i) compared with the rule compiled alone and (ii) judged by TLC against TextMatch/ReMatch/Cond. The same namespace text cut into all <=3 consecutive sources and nested includes must give the same rule table and results.",
   ref="5 C05, 4.6", note="the Aho-Corasick automaton model (AhoCorasick.tla, hooks H3/H4) is not built yet: independence is decided through the compositional oracle and the differential run."),
 "C08": dict(cat="model_checking", tech="TLC model checking of Arena.tla (save/load, relocation registration) + cross-process image comparison + trace validation of saved-destroyed-loaded rules against the Cond/TextMatch/ReMatch/Scan specs",
   text="Arena.tla models cells, pointers with address epochs, the relocation list and the saved image; TLC checks ImageIndependentOfEpochs and CompleteLoads over all write/registration histories (one unregistered pointer violates them). On the implementation: a corpus covering every construct is saved in three processes with different heap layouts and must be byte-identical; random conditions, strings of every kind and scanner-protocol rule sets are compiled, saved (file and stream), the compiler and the ORIGINAL rules destroyed, loaded (file and item-wise stream) and scanned under ASan, every observation judged by TLC against the same specifications as C01-C04/C11.",
   ref="5 C08, 4.9", note="raw pointers in the image are detected through differing layouts/allocators (ASLR, glibc vs ASan), not by a relocation audit (hook H2 not built). D8 is a known finding."),
 "C17": dict(cat="fault_enumeration", tech="TLC model checking of Arena.tla (TruncatedNeverLoads) + exhaustive prefix sweep and header/table field corruptions of real saved files judged by ArenaFile.tla in TLC",
   text="The loader is modelled unit by unit; TLC checks that no strict prefix of any saved image loads (the as-coded 'until end of stream' loader violates it: D5). Every prefix length of 7 real saved files (exhaustive for files <= 8 KiB; boundaries +-2 and 1500 sampled points above; all in thorough), through yr_rules_load and an item-wise stream, and single-field corruptions of magic, version, num_buffers and every table offset/size are loaded under ASan/UBSan; each result class is judged by ArenaFile!LoadBytes / CorruptOK.",
   ref="5 C17, 4.9", note="a load that unexpectedly succeeds is followed by a scan under ASan. Six loader defects (D5, D20-D24) were repaired with fix: commits."),
 "C19": dict(cat="model_checking", tech="TLC model checking of Arena.tla (NoStaleDeref, RegisteredPointersValid under every growth position) + capacity sweep through hook H1 judged by the Cond/Scan specs and by byte-identical images",
   text="Arena.tla makes every allocation a potential move (InitCap = 1) and checks that registered pointers are fixed up and that client code never dereferences a raw pointer taken before an allocation (violated without the re-fetch discipline). Hook H1 compiles the corpus with initial capacities 1..65536 under ASan: saved bytes must equal the default's; random conditions / rule sets under capacities 1, 8, 64 are judged by TLC; a 9700-rule set (buffers > 1 MiB) must equal the same rules compiled in groups, also after save+load.",
   ref="5 C19, 4.9", note="hook H1 (YARA_VERIF) sets the initial arena buffer size."),
 "C20": dict(cat="model_checking", tech="TLC model checking of Externals.tla (all define/create/scan histories of <=7 operations, 2 scanners) + trace validation of recorded histories against ExternalsTrace.tla",
   text="Three environments with the type-compatibility tables and result codes of compiler.c/rules.c/scanner.c; MostSpecificWins and RulesTableIsolated are written from the property over history variables; the shared-table variant violates them. Random histories (duplicates, unknown identifiers, wrong types, 3 scanners) run on the library; every result code and every value observed by every scan (one rule per (variable, value)) must be the model's.",
   ref="5 C20, 4.8", note="int/bool interchangeable at scanner level (follows code). CLI -d parsing is covered by C18."),
 "C04": dict(cat="model_checking", tech="trace validation: recorded (condition, buffer, match lists, verdict) cases judged by TLC against the TLA+ reference semantics Cond.tla",
   text="Cond.tla is an evaluator of the whole condition language over explicit values incl. undefined (arithmetic, bitwise, shifts, comparisons with float promotion, string operators, $ # @ ! at in, of forms, for..of / for..in, intN readers, externals, rule references). Random well-typed trees are printed with minimal parentheses (so the parser's precedence and associativity are exercised), compiled and scanned; TLC evaluates Verdict(ast, env) for every case on the match lists the scan reported.",
   ref="5 C04, 4.5", note="integer magnitudes < 2^22 (TLC integers are 32-bit); a loop over zero items is false (exec.c:747, manual silent). D15/D19 are known findings with spec-side signatures."),
 "C12": dict(cat="model_checking", tech="TLC model checking of Fold.tla (compile-time folding = run-time value) + trace validation of twin programs against Cond.tla / TextMatch.tla / ReMatch.tla",
   text="Fold.tla transcribes grammar.y's constant folding per operator and TLC checks FoldSound / CompileRejectsExactly over all operators x operand values x literal-or-external (the as-coded variants reproduce D2 and D3). Twins (literal / non-constant expression / external defined at compile, rule-set or scanner level in 7 deciding positions; C vs `C or filesize < 0`; normal vs fast mode; atom quality tables moving the atom of text and hex strings) are executed and each is judged by TLC against the same reference semantics.",
   ref="5 C12, 4.5", note="equal references imply equal twins; fast-mode verdicts are judged on the match lists of the normal scan."),
 "C01": dict(cat="model_checking", tech="trace validation: every recorded (text string, modifiers, buffer, reported matches) case judged by TLC against the TLA+ reference semantics TextMatch.tla",
   text="TextMatch.tla defines, as TLA+ operators over byte sequences, the set of (length, xor key) with which a declaration may be reported at each offset (ascii/wide/nocase/fullword/xor ranges/base64 permutations/private). Random and boundary-planted cases are executed on the sanitizer-built library and TLC evaluates ObsOK (ascending, nothing missed, nothing extra, true length/key) for every case.",
   ref="5 C01, 4.2", note="states = one per judged case (functional oracle: the spec has no interleaving to explore); fullword on xor/wide follows the code where the manual is silent; the atom-pipeline model (Atoms/Hits/Verify) is not yet part of the spec."),
 "C02": dict(cat="model_checking", tech="trace validation: recorded (hex string, buffer, matches) cases judged by TLC against ReMatch.tla; scaled-threshold and production builds",
   text="ReMatch.tla gives the set of end positions of every AST (bytes, masks, negations, jumps, alternatives) at every offset; TLC checks StringObsOK for every recorded case. Chaining is exercised in a build with YR_STRING_CHAINING_THRESHOLD=4 (small buffers, many heads/tails, gaps at bound-1/bound/bound+1) and in the production build (threshold 200).",
   ref="5 C02, 4.3", note="D12/D13 (chains with variable-length pieces lose matches) are known findings tolerated only by their spec-side signature (ChainGaps # {} and not PiecesFixed, subset + valid lengths)."),
 "C03": dict(cat="model_checking", tech="trace validation: recorded (regex, flags, buffer, matches) and `matches` verdicts judged by TLC against ReMatch.tla",
   text="Same AST semantics with classes, quantifiers (greedy/lazy), anchors, word boundaries, /i /s, nocase/wide/ascii/fullword; TLC checks StringObsOK per case and MatchesOp for the `matches` operator on external strings.",
   ref="5 C03, 4.4", note="D14 (zero-length matches) and D17 (fullword tested on the preferred length only) are known findings with spec-side signatures; expressions hitting documented regex limits are skipped."),
 "C10": dict(cat="model_checking", tech="TLC model checking of Scan.tla (all histories of <=3 scans x outcomes) + trace validation of recorded scanner histories against ScanTrace.tla",
   text="Scan.tla models the scanner life cycle one action per critical section of scanner.c/exec.c/modules.c; TLC checks ProtocolOK/ResidualClean/NoLeak exhaustively over histories of <=3 scans x files x outcomes (and reproduces D1/D10 when the fixes are switched off in the model). Random longer histories (PE/ELF/text/empty; abort/error/timeout/not-ready resumed or abandoned/match cap) are executed on one real scanner under ASan and every event (callbacks, result, residual state projection) must be a step of the spec with all invariants holding; heap growth after destroy is a violation.",
   ref="5 C10, 4.7", note="abstract files are built by gen/scangen.py (markers never straddle blocks); projection of scanner state is counts/popcounts; OS-level memory errors are seen only through ASan."),
 "C11": dict(cat="model_checking", tech="TLC model checking of Scan.tla callback protocol + trace validation of recorded scans (all reply plans) against ScanTrace.tla",
   text="ProtocolOK is the property statement written over (file, flags, replies) only; TLC checks it for every reply at every message over a rule set mixing global/private/global+private rules, 2 namespaces, 3 imports; recorded scans of random rule sets (up to 80 rules / 14 namespaces) x 3 flag settings x abort/error at message k are validated event by event.",
   ref="5 C11, 4.7", note="CALLBACK_ABORT on module messages is unspecified by the property and follows the code."),
 "C13": dict(cat="model_checking", tech="TLC model checking of Scan.tla resume protocol + trace validation of all not-ready subsets / entry points against ScanTrace.tla",
   text="TLC explores all not-ready answers (<=3) over 1-4 block files and shows the final callbacks equal the uninterrupted ones (and violates it with the as-coded swallowing of not-ready during evaluation, D9). The driver's programmable iterator replays block partitions x not-ready subsets and all scanner-level and rules-level entry points on the same bytes; traces validated against the spec.",
   ref="5 C13, 4.7", note="yr_*_scan_proc not exercised. D9 is a known finding (known_findings.json) tolerated only by signature."),
}
REASON_TODO = "check not built yet in this round (see DESIGN.md section 9 order of implementation); no claim is made"

def main():
    checks = []
    for p in props:
        c = CLAIMED.get(p["id"])
        if not c: continue
        checks.append({
            "property_id": p["id"],
            "quick_cmd": "bin/check %s --tier quick" % p["id"],
            "thorough_cmd": "bin/check %s --tier thorough" % p["id"],
            "evidence_file": "/verif/evidence/%s.json" % p["id"],
            "replay_cmd_template": "bin/check %s --replay {path}" % p["id"],
            "engine": "tlc+yvdrive",
            "level_claimed": {"category": c["cat"], "text": c["text"], "design_ref": "DESIGN.md " + c["ref"]},
            "level_note": c["note"],
            "technique": c["tech"],
        })
    na = [{"property_id": p["id"], "reason": NA.get(p["id"], REASON_TODO)} for p in props if p["id"] not in CLAIMED]
    m = {
        "version": 1,
        "setup_cmd": "bin/setup",
        "hooks": {"guard": "YARA_VERIF", "enable": "bin/build compiles /repo out of tree with -DYARA_VERIF (clang, ASan/UBSan or TSan)",
                  "baseline_off_cmd": "make -C /repo check", "source_commits": HOOK_COMMITS, "add_only": True},
        "engines": [
            {"name": "tlc", "path": "spec/", "serves_properties": sorted(CLAIMED), "kind_free_text": "TLA+ specifications checked with TLC (exhaustive small scope) and used as trace-validation oracles"},
            {"name": "yvdrive", "path": "harness/yvdrive.c", "serves_properties": sorted(CLAIMED), "kind_free_text": "script-driven libyara driver/recorder built from /repo's working tree with sanitizers"},
        ],
        "checks": checks,
        "not_applicable": na,
        "notes": "bin/check exits 2 (never a VIOLATION line) when the machinery itself fails. known_findings.json lists recorded defects.",
    }
    json.dump(m, open(os.path.join(V, "MANIFEST.json"), "w"), indent=1)

NA = {}
HOOK_COMMITS = ["f6278db", "770d949", "e0f0736", "0689ee1"]
if __name__ == "__main__":
    main()
