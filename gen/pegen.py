"""Structure-aware PE32 generation for C06: a PE is a set of named chunks (export directory and its three tables, import /
delay-import descriptors with their thunk arrays and names, a resource tree with a VS_VERSIONINFO block, debug directory with
a CodeView record, Rich header, certificate table) laid out in one section.  Any chunk can be put LAST in the file and the file
cut inside it, and every count field can be inflated, so that "the table ends exactly where the buffer ends" - the situation in
which a missing or too-weak bounds check becomes an out-of-bounds read that AddressSanitizer sees - is reached systematically
instead of by luck (FieldMut.tla, StructuredMutants)."""
import struct

SEC_RVA, SEC_OFF = 0x1000, 0x200


def w(s):
    return s.encode("utf-16-le")


def align4(b):
    return b + b"\0" * (-len(b) % 4)


def version_block(key, value=b"", children=b"", vtype=1, value_len=None):
    body = align4(struct.pack("<HHH", 0, 0, vtype) + w(key) + b"\0\0")
    body += align4(value) if children else value
    body += children
    vl = value_len if value_len is not None else (len(value) // 2 if vtype == 1 else len(value))
    return align4(struct.pack("<HHH", len(body), vl, vtype) + body[6:])


def version_info(nkeys, key_prefix="K", dup=False):
    strings = b""
    for i in range(nkeys):
        k = "%s%d" % (key_prefix, 0 if dup else i)
        strings += version_block(k, w("v%d" % i) + b"\0\0")
    table = version_block("040904B0", b"", strings)
    sfi = version_block("StringFileInfo", b"", table)
    var = version_block("VarFileInfo", b"", version_block("Translation", struct.pack("<HH", 0x409, 0x4b0), b"", vtype=0))
    fixed = struct.pack("<13I", 0xFEEF04BD, 0x10000, 0x10001, 0x20003, 0x10001, 0x20003, 0x3f, 0, 4, 1, 0, 0, 0)
    return version_block("VS_VERSION_INFO", fixed, var + sfi, vtype=0, value_len=52)


DEFAULT = dict(nf=6, nn=3, ord_len="names", forward=1, imports=[("kernel32.dll", ["ExitProcess", 7, "CreateFileA"]), ("user32.dll", ["MessageBoxA"])],
               delay=[("advapi32.dll", ["RegOpenKeyA", 3])], nkeys=3, dupkeys=False, last=None, cut=0, inflate=None, rich=True, cert=True, pdb="c:\\build\\x.pdb")


def build(**kw):
    """returns (bytes, info) - info: chunk offsets and the count fields that can be inflated"""
    c = dict(DEFAULT); c.update(kw)
    nf, nn = c["nf"], c["nn"]
    chunks = {}          # name -> size (first pass) ; render(name, addr) later
    order = []

    def add(name, size):
        chunks[name] = size; order.append(name)

    names = ["fn%d" % i for i in range(nn)]
    add("code", 16)
    add("expdir", 40)
    add("expname", len(b"verif.dll\0"))
    add("functions", 4 * nf)
    add("names", 4 * nn)
    add("ordinals", 2 * (nn if c["ord_len"] == "names" else nf))
    add("namestr", sum(len(n) + 1 for n in names))
    add("forwardstr", len(b"other.fwd\0"))
    imps = c["imports"]
    add("impdesc", 20 * (len(imps) + 1))
    for i, (dll, fns) in enumerate(imps):
        add("ilt%d" % i, 4 * (len(fns) + 1))
        add("iat%d" % i, 4 * (len(fns) + 1))
        add("impname%d" % i, len(dll) + 1)
        for j, f in enumerate(fns):
            if isinstance(f, str):
                add("hint%d_%d" % (i, j), 2 + len(f) + 1)
    dls = c["delay"]
    add("delaydesc", 32 * (len(dls) + 1))
    for i, (dll, fns) in enumerate(dls):
        add("dilt%d" % i, 4 * (len(fns) + 1))
        add("diat%d" % i, 4 * (len(fns) + 1))
        add("dname%d" % i, len(dll) + 1)
        for j, f in enumerate(fns):
            if isinstance(f, str):
                add("dhint%d_%d" % (i, j), 2 + len(f) + 1)
    vi = version_info(c["nkeys"], dup=c["dupkeys"])
    # resource tree: root(2 entries: RT_VERSION id 16, named type "XDATA") -> name dir -> lang dir -> data entry
    add("rsrcdir", 16 + 8 * 2)
    add("rsrc_t16", 16 + 8); add("rsrc_t16_l", 16 + 8); add("rsrc_d16", 16)
    add("rsrc_tx", 16 + 8); add("rsrc_tx_l", 16 + 8); add("rsrc_dx", 16)
    add("rsrc_name", 2 + len(w("XDATA")))
    add("rsrc_xdata", 24)
    add("version", len(vi))
    add("debugdir", 28)
    pdb = c["pdb"].encode() + b"\0"
    add("codeview", 24 + len(pdb))
    if c["cert"]:
        add("cert", 8 + 64)
    if c["last"]:
        order.remove(c["last"]); order.append(c["last"])
    off, pos = {}, SEC_OFF
    for n in order:
        if n != order[-1] or True:
            pos += (-pos) % (8 if n == "cert" else 4 if n not in ("namestr", "expname", "forwardstr") and not n.startswith(("impname", "hint", "dname", "dhint")) else 1)
        off[n] = pos; pos += chunks[n]
    total = pos
    rva = lambda n: SEC_RVA + off[n] - SEC_OFF
    out = bytearray(total)

    def put(n, b):
        assert len(b) == chunks[n], (n, len(b), chunks[n])
        out[off[n]:off[n] + len(b)] = b

    put("code", b"\xc3" * 16)
    put("expdir", struct.pack("<IIHHIIIIIII", 0, 0x5f000000, 1, 0, rva("expname"), 1, nf, nn, rva("functions"), rva("names"), rva("ordinals")))
    put("expname", b"verif.dll\0")
    fa = []
    for i in range(nf):
        fa.append(rva("forwardstr") if (c["forward"] and i == nf - 1) else rva("code") + (i % 16))
    put("functions", struct.pack("<%dI" % nf, *fa))
    p, na = rva("namestr"), []
    for n in names:
        na.append(p); p += len(n) + 1
    put("names", struct.pack("<%dI" % nn, *na))
    nord = chunks["ordinals"] // 2
    put("ordinals", struct.pack("<%dH" % nord, *[(2 * i) % max(nf, 1) for i in range(nord)]))
    put("namestr", b"".join(n.encode() + b"\0" for n in names))
    put("forwardstr", b"other.fwd\0")
    d = b""
    for i, (dll, fns) in enumerate(imps):
        d += struct.pack("<IIIII", rva("ilt%d" % i), 0, 0, rva("impname%d" % i), rva("iat%d" % i))
        th = []
        for j, f in enumerate(fns):
            if isinstance(f, str):
                th.append(rva("hint%d_%d" % (i, j))); put("hint%d_%d" % (i, j), struct.pack("<H", j) + f.encode() + b"\0")
            else:
                th.append(0x80000000 | f)
        th.append(0)
        put("ilt%d" % i, struct.pack("<%dI" % len(th), *th)); put("iat%d" % i, struct.pack("<%dI" % len(th), *th))
        put("impname%d" % i, dll.encode() + b"\0")
    put("impdesc", d + b"\0" * 20)
    d = b""
    for i, (dll, fns) in enumerate(dls):
        d += struct.pack("<8I", 1, rva("dname%d" % i), 0, rva("diat%d" % i), rva("dilt%d" % i), 0, 0, 0)
        th = []
        for j, f in enumerate(fns):
            if isinstance(f, str):
                th.append(rva("dhint%d_%d" % (i, j))); put("dhint%d_%d" % (i, j), struct.pack("<H", j) + f.encode() + b"\0")
            else:
                th.append(0x80000000 | f)
        th.append(0)
        put("dilt%d" % i, struct.pack("<%dI" % len(th), *th)); put("diat%d" % i, struct.pack("<%dI" % len(th), *th))
        put("dname%d" % i, dll.encode() + b"\0")
    put("delaydesc", d + b"\0" * 32)
    R = off["rsrcdir"]
    ro = lambda n: off[n] - R            # offsets inside the resource section are relative to the root directory
    sub = 0x80000000
    put("rsrcdir", struct.pack("<IIHHHH", 0, 0, 0, 0, 1, 1) + struct.pack("<II", sub | (ro("rsrc_name") & 0x7fffffff), sub | ro("rsrc_tx") & 0xffffffff) + struct.pack("<II", 16, sub | ro("rsrc_t16") & 0xffffffff))
    put("rsrc_t16", struct.pack("<IIHHHH", 0, 0, 0, 0, 0, 1) + struct.pack("<II", 1, (sub | ro("rsrc_t16_l")) & 0xffffffff))
    put("rsrc_t16_l", struct.pack("<IIHHHH", 0, 0, 0, 0, 0, 1) + struct.pack("<II", 0x409, ro("rsrc_d16") & 0xffffffff))
    put("rsrc_d16", struct.pack("<IIII", rva("version"), len(vi), 0, 0))
    put("rsrc_tx", struct.pack("<IIHHHH", 0, 0, 0, 0, 0, 1) + struct.pack("<II", 7, (sub | ro("rsrc_tx_l")) & 0xffffffff))
    put("rsrc_tx_l", struct.pack("<IIHHHH", 0, 0, 0, 0, 0, 1) + struct.pack("<II", 0x407, ro("rsrc_dx") & 0xffffffff))
    put("rsrc_dx", struct.pack("<IIII", rva("rsrc_xdata"), 24, 0, 0))
    put("rsrc_name", struct.pack("<H", 5) + w("XDATA"))
    put("rsrc_xdata", b"resource-data-0123456789"[:24])
    put("version", vi)
    put("debugdir", struct.pack("<IIHHIIII", 0, 0x5f000000, 0, 0, 2, chunks["codeview"], rva("codeview"), off["codeview"]))
    put("codeview", b"RSDS" + bytes(range(16)) + struct.pack("<I", 1) + pdb)
    if c["cert"]:
        put("cert", struct.pack("<IHH", 72, 0x200, 2) + b"\x30\x3e\x06\x09\x2a\x86\x48\x86\xf7\x0d\x01\x07\x02\xa0\x31" + b"\0" * 49)
    # headers
    dos = bytearray(0x80)
    dos[0:2] = b"MZ"
    struct.pack_into("<I", dos, 0x3c, 0x80)
    if c["rich"]:
        key = 0x11223344
        body = struct.pack("<IIII", 0x536e6144 ^ key, key, key, key) + struct.pack("<II", (0x5d << 16 | 0x1c87) ^ key, 3 ^ key) + struct.pack("<II", (0x83 << 16 | 0x6030) ^ key, 9 ^ key)
        dos[0x40:0x40 + len(body) + 8] = body + b"Rich" + struct.pack("<I", key)
    coff = struct.pack("<HHIIIHH", 0x14c, 1, 0x5f000000, 0, 0, 224, 0x2102)
    opt = bytearray(224)
    struct.pack_into("<H", opt, 0, 0x10b)
    struct.pack_into("<I", opt, 16, rva("code"))
    struct.pack_into("<I", opt, 28, 0x10000000)
    struct.pack_into("<I", opt, 32, 0x1000)
    struct.pack_into("<I", opt, 36, 0x200)
    struct.pack_into("<H", opt, 40, 6); struct.pack_into("<H", opt, 48, 6)
    struct.pack_into("<I", opt, 56, 0x1000 + ((total - SEC_OFF + 0xfff) & ~0xfff))
    struct.pack_into("<I", opt, 60, 0x200)
    struct.pack_into("<H", opt, 68, 3)
    struct.pack_into("<I", opt, 92, 16)
    dd = lambda i, a, s: struct.pack_into("<II", opt, 96 + 8 * i, a, s)
    exp_size = off["forwardstr"] + chunks["forwardstr"] - off["expdir"] if off["forwardstr"] > off["expdir"] else 0x1000
    dd(0, rva("expdir"), max(exp_size, 40))
    dd(1, rva("impdesc"), chunks["impdesc"])
    dd(2, rva("rsrcdir"), total - off["rsrcdir"])
    if c["cert"]:
        dd(4, off["cert"], chunks["cert"])
    dd(6, rva("debugdir"), 28)
    dd(13, rva("delaydesc"), chunks["delaydesc"])
    sec = bytearray(40)
    sec[0:6] = b".rdata"
    struct.pack_into("<IIII", sec, 8, total - SEC_OFF, SEC_RVA, total - SEC_OFF, SEC_OFF)
    struct.pack_into("<I", sec, 36, 0x60000020)
    hdr = bytes(dos) + b"PE\0\0" + coff + bytes(opt) + bytes(sec)
    out[0:len(hdr)] = hdr
    fields = {"NumberOfFunctions": (off["expdir"] + 20, 4, nf), "NumberOfNames": (off["expdir"] + 24, 4, nn), "ExportBase": (off["expdir"] + 16, 4, 1),
              "rsrc.NumberOfIdEntries": (off["rsrcdir"] + 14, 2, 1), "rsrc.NumberOfNamedEntries": (off["rsrcdir"] + 12, 2, 1), "rsrc.DataSize": (off["rsrc_d16"] + 4, 4, len(vi)),
              "version.Length": (off["version"], 2, len(vi)), "debug.SizeOfData": (off["debugdir"] + 16, 4, chunks["codeview"]),
              "NumberOfSections": (0x80 + 6, 2, 1), "NumberOfRvaAndSizes": (0x80 + 24 + 92, 4, 16), "SizeOfRawData": (0x80 + 24 + 224 + 16, 4, total - SEC_OFF),
              "VirtualSize": (0x80 + 24 + 224 + 8, 4, total - SEC_OFF), "cert.Length": (off.get("cert", 0), 4, 72), "rsrc_name.Length": (off["rsrc_name"], 2, 5)}
    if c["inflate"]:
        name, delta = c["inflate"]
        o, wd, v = fields[name]
        if o:
            struct.pack_into("<H" if wd == 2 else "<I", out, o, (v + delta) & (0xffff if wd == 2 else 0xffffffff))
    data = bytes(out)
    if c["cut"]:
        data = data[:max(0, len(data) - c["cut"])]
    return data, {"off": off, "size": chunks, "order": order, "fields": fields, "total": total}


def family(r, tier):
    """[(label, bytes)]: each chunk last x cuts inside it x inflated counts; many-key version blocks; ordinal-only exports"""
    out = []
    base, info = build()
    out.append(("base", base))
    chunknames = [n for n in info["order"] if n != "code"]
    cuts_of = lambda size: sorted({0, 1, 2, 3, 4, 6, 8, size // 2, size - 1, size - 2, size - 4} - {-1, -2, -3, -4} - set(x for x in [size] if x <= 0))
    for ol in ("names", "functions"):
        for (nf, nn) in ((6, 3), (3, 3), (5, 0), (40, 2)):
            for last in chunknames:
                d, inf = build(nf=nf, nn=nn, ord_len=ol, last=last)
                size = inf["size"][last]
                cs = cuts_of(size) if (nf, nn) == (6, 3) or last in ("ordinals", "functions", "names", "namestr", "expdir") else [0]
                for cut in cs:
                    if 0 <= cut < size + 1:
                        out.append(("last=%s cut=%d nf=%d nn=%d ord=%s" % (last, cut, nf, nn, ol), d[:len(d) - cut]))
    inflations = [1, 2, 3, 16, 255, 0x7fff, 0xffff, 0x10000, 0x7fffffff, 0xffffffff, -1]
    for fname in info["fields"]:
        for delta in inflations:
            for last in (None, "ordinals", "functions", "names", "version", "rsrcdir", "rsrc_d16", "codeview", "cert", "rsrc_name", "impdesc", "delaydesc"):
                if tier == "quick" and last is not None and r.random() < 0.7:
                    continue
                d, _ = build(inflate=(fname, delta), last=last)
                out.append(("inflate %s by %d last=%s" % (fname, delta, last), d))
    for nkeys in (0, 1, 63, 64, 65, 127, 128, 129, 192, 193, 194, 195, 256, 257, 300) + ((400, 513, 1000) if tier != "quick" else ()):
        for dup in (False, True):
            for last in (None, "version"):
                d, _ = build(nkeys=nkeys, dupkeys=dup, last=last)
                out.append(("version keys=%d dup=%s last=%s" % (nkeys, dup, last), d))
                if last:
                    out.append(("version keys=%d dup=%s last=%s cut=3" % (nkeys, dup, last), d[:-3]))
    for nimp in (0, 1, 5, 40):
        imps = [("lib%d.dll" % i, ["f%d_%d" % (i, j) if j % 3 else j + 1 for j in range(1 + i % 4)]) for i in range(nimp)]
        for last in (None, "impdesc", "delaydesc"):
            d, _ = build(imports=imps, delay=imps[:2], last=last)
            out.append(("imports=%d last=%s" % (nimp, last), d))
    return out
