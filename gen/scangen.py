"""Abstract rule sets / files of Scan.tla and their concretisation (DESIGN.md appendix C)."""
import struct, json

UNDEF = -1
MOD_IDS = {"tests": 1, "pe": 2, "hash": 3}
HASH_OF = {}     # file id -> md5 hex digest (filled by the check that uses rule kind "Hash")
MOD_NAMES = {v: k for k, v in MOD_IDS.items()}
ERR = {0: "SUCCESS", 26: "TIMEOUT", 28: "CALLBACK_ERROR", 30: "TOO_MANY_MATCHES", 61: "BLOCK_NOT_READY", 46: "TOO_MANY_RE_FIBERS"}
BOMB_RE = "/BOMB(x{1,60}){1,60}y/"          # needs more than RE_MAX_FIBERS (1024) fibers on BOMB_DATA
BOMB_DATA = b"BOMB" + b"x" * 300 + b"y"
U8_OFF_FROM_END = 3   # uint8(filesize - 3) is the probed byte; files carry 'Q' there iff u8


def marker(m):
    return ("MK%d;" % m).encode()


def minimal_pe(ep_rva=0x1010):
    """A 1-section PE32 image, 0x400 bytes. Entry point file offset = 0x200 + (ep_rva - 0x1000)."""
    dos = bytearray(64)
    dos[0:2] = b"MZ"
    struct.pack_into("<I", dos, 0x3c, 64)
    coff = struct.pack("<HHIIIHH", 0x14c, 1, 0, 0, 0, 224, 0x0102)
    opt = bytearray(224)
    struct.pack_into("<H", opt, 0, 0x10b)
    struct.pack_into("<I", opt, 16, ep_rva)        # AddressOfEntryPoint
    struct.pack_into("<I", opt, 28, 0x400000)      # ImageBase
    struct.pack_into("<I", opt, 32, 0x1000)        # SectionAlignment
    struct.pack_into("<I", opt, 36, 0x200)         # FileAlignment
    struct.pack_into("<H", opt, 40, 4)             # MajorOperatingSystemVersion
    struct.pack_into("<H", opt, 48, 4)             # MajorSubsystemVersion
    struct.pack_into("<I", opt, 56, 0x2000)        # SizeOfImage
    struct.pack_into("<I", opt, 60, 0x200)         # SizeOfHeaders
    struct.pack_into("<H", opt, 68, 3)             # Subsystem
    struct.pack_into("<I", opt, 92, 16)            # NumberOfRvaAndSizes
    sec = bytearray(40)
    sec[0:5] = b".text"
    struct.pack_into("<IIII", sec, 8, 0x200, 0x1000, 0x200, 0x200)
    struct.pack_into("<I", sec, 36, 0x60000020)
    img = bytes(dos) + b"PE\0\0" + coff + bytes(opt) + bytes(sec)
    img += b"\0" * (0x200 - len(img))
    img += b"\xc3" * 0x200
    return img, 0x200 + (ep_rva - 0x1000)


def minimal_elf(entry=0x400090):
    """ELF64 ET_EXEC with one PT_LOAD at vaddr 0x400000 offset 0: entry point offset = entry - 0x400000."""
    eh = bytearray(64)
    eh[0:4] = b"\x7fELF"
    eh[4] = 2; eh[5] = 1; eh[6] = 1
    struct.pack_into("<HHI", eh, 16, 2, 62, 1)
    struct.pack_into("<QQQ", eh, 24, entry, 64, 0)
    struct.pack_into("<IHHHHHH", eh, 48, 0, 64, 56, 1, 64, 0, 0)
    ph = struct.pack("<IIQQQQQQ", 1, 5, 0, 0x400000, 0x400000, 0x100, 0x100, 0x1000)
    img = bytes(eh) + ph
    img += b"\x90" * (0x100 - len(img))
    return img, entry - 0x400000


# ----------------------------------------------------------------------------- conditions
def cond_text(c, rule_names):
    k = c["k"]
    if k == "T": return "true"
    if k == "F": return "false"
    if k == "M": return "$m"
    if k == "NM": return "not $m"
    if k == "Cnt": return "#m == %d" % c["b"]
    if k == "Ref": return rule_names[c["a"] - 1]
    if k == "NRef": return "not " + rule_names[c["a"] - 1]
    if k == "EP": return "entrypoint >= 0"
    if k == "EPV": return "entrypoint == %d" % c["a"]
    if k == "FS": return "filesize == %d" % c["a"]
    if k == "U8": return "uint8(filesize - %d) == 0x51" % U8_OFF_FROM_END
    if k == "Undef": return "uint8(filesize + 7) == 0"
    if k == "Mod": return "tests.constants.one == 1"
    if k == "PeSec": return "pe.number_of_sections == 1"
    if k == "Ext": return "ext_t == %d" % c["a"]
    if k == "Hash": return 'hash.md5(0, filesize) == "%s"' % HASH_OF[c["a"]]
    raise ValueError(k)


def C(k, a=0, b=0):
    return {"k": k, "a": a, "b": b}


def needs_module(c):
    return {"Mod": "tests", "PeSec": "pe", "Hash": "hash"}.get(c["k"])


def rule_name(i):
    return "r%d" % i


def sources(rules, extra_imports=()):
    """-> list of (namespace name, source text), and the import sequence (module ids) in emission order."""
    names = [rule_name(i + 1) for i in range(len(rules))]
    groups = []   # contiguous runs of the same namespace
    for i, r in enumerate(rules):
        if groups and groups[-1][0] == r["ns"]:
            groups[-1][1].append(i)
        else:
            groups.append((r["ns"], [i]))
    imported = set()   # (ns, module)
    imports = []
    out = []
    for gi, (ns, idxs) in enumerate(groups):
        mods = []
        for i in idxs:
            m = needs_module(rules[i]["cond"])
            if m and m not in mods:
                mods.append(m)
        for m in extra_imports:
            if gi == 0 and m not in mods:
                mods.append(m)
        txt = ""
        for m in mods:
            txt += 'import "%s"\n' % m
            if (ns, m) not in imported:
                imported.add((ns, m))
                imports.append(MOD_IDS[m])
        for i in idxs:
            r = rules[i]
            mod = ("global " if r["global"] else "") + ("private " if r["private"] else "")
            pads = "".join('    $p%d = "ZZPAD%dZZ%d"\n' % (j, j, i) for j in range(r.get("pad", 0)))
            strings = ('  strings:\n%s    $m = "%s"\n' % (pads, marker(r["mk"]).decode())) if r["mk"] else ""
            if r["mk"] and r.get("re"):
                # the same occurrences through the regexp engine (a class keeps it from being compiled as a literal)
                strings = '  strings:\n%s    $m = /MK%d[;:]/\n' % (pads, r["mk"])
            if r.get("bomb"):
                strings = '  strings:\n    $m = %s\n' % BOMB_RE
            cond = cond_text(r["cond"], names)
            if r.get("bomb"):
                cond = "(%s) and (#m >= 0)" % cond
            if r["mk"] and r.get("pad", 0):
                cond = "(%s) or any of ($p*)" % cond      # never-matching padding strings: push $m to a high string index
            if r["mk"] and r["cond"]["k"] not in ("M", "NM", "Cnt"):
                # a string that the condition does not mention must still be referenced
                cond = "(%s) and (#m >= 0)" % cond
            txt += "%srule %s {\n%s  condition:\n    %s\n}\n" % (mod, names[i], strings, cond)
        out.append(("ns%d" % ns, txt))
    return out, imports


# ----------------------------------------------------------------------------- files
def make_file(fid, kind, blocks_spec, u8, nmarkers, pad=b"."):
    """blocks_spec: list of dicts {filler: int, mk: [count per marker]}; the executable image (pe/elf) is put at the
    start of block 1 (or of block `exe_block`).  Returns (abstract file, bytes, block sizes)."""
    data = b""
    blocks = []
    sizes = []
    for bi, bs in enumerate(blocks_spec):
        blk = b""
        ep = UNDEF
        exe = bs.get("exe")
        if exe == "pe":
            img, ep = minimal_pe()
            blk += img
        elif exe == "elf":
            img, ep = minimal_elf()
            blk += img
        for m, cnt in enumerate(bs["mk"], start=1):
            for _ in range(cnt):
                blk += pad * bs.get("gap", 1) + marker(m)
        if bs.get("bomb"):
            blk += BOMB_DATA
        blk += pad * bs.get("filler", 0)
        blocks.append({"size": len(blk), "mk": list(bs["mk"]) + [0] * (nmarkers - len(bs["mk"])), "ep": ep})
        if bs.get("bomb"):
            blocks[-1]["bomb"] = True
        sizes.append(len(blk))
        data += blk
    # the u8 probe lives U8_OFF_FROM_END bytes before the end; plant 'Q' there when asked and the byte is filler
    if u8 and len(data) >= U8_OFF_FROM_END:
        pos = len(data) - U8_OFF_FROM_END
        if data[pos:pos + 1] == pad:
            data = data[:pos] + b"Q" + data[pos + 1:]
    has_u8 = len(data) >= U8_OFF_FROM_END and data[len(data) - U8_OFF_FROM_END] == 0x51
    pesec = bool(blocks_spec) and blocks_spec[0].get("exe") == "pe"
    f = {"id": fid, "size": len(data), "u8": bool(has_u8), "pesec": pesec, "ext": 0, "blocks": blocks}
    return f, data, sizes


def to_trace(rules, imports, scans, run_events, maxm):
    """Join the recorded driver events with the abstract inputs into the NDJSON consumed by ScanTrace.tla.
    scans: list of dicts {file, flags:[..], timeout:bool, mode} in the order of the ScanCall events."""
    out = [{"e": "Rules", "rules": rules, "imports": imports, "bomb": any(q.get("bomb") for q in rules)}]
    si = -1
    for ev in run_events:
        e = ev["e"]
        if e == "ScanCall":
            si += 1
            s = scans[si]
            f = dict(s["file"], nofs=True) if s["mode"] == "blocksnofs" else s["file"]
            out.append({"e": "Scan", "file": f, "flags": s["flags"], "timeout": s["timeout"], "mode": s["mode"]})
        elif e == "Iter":
            out.append({"e": "Iter", "ans": ev["ans"], "b": ev.get("b", -1), "op": ev["op"]})
        elif e == "ScanSuspend":
            out.append({"e": "Ret", "ret": "BLOCK_NOT_READY", "resid": ev["resid"], "entry_point": 0, "file_size": 0})
        elif e == "ScanResume":
            out.append({"e": "Resume"})
        elif e == "Cb":
            m = ev["msg"]
            if m in ("match", "nomatch", "toomany"):
                x = ev["ri"] + 1
            elif m in ("import", "imported"):
                x = MOD_IDS.get(ev["mod"], 99)
            else:
                x = 0
            out.append({"e": "Cb", "msg": m, "x": x, "reply": ev["reply"]})
        elif e == "ScanRet":
            ep = ev.get("entry_point", 0)
            fs = ev.get("file_size", 0)
            out.append({"e": "Ret", "ret": ERR.get(ev["ret"], "E%d" % ev["ret"]), "resid": ev.get("resid", {}),
                        "entry_point": UNDEF if ep == "undef" else ep, "file_size": UNDEF if fs == "undef" else fs})
    return out
