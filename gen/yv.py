"""Shared machinery of the checks: builds, driver runs, TLC runs, evidence, known findings."""
import hashlib, json, os, re, shutil, subprocess, sys, tempfile, time, random

VERIF = os.path.dirname(os.path.dirname(os.path.abspath(__file__)))
REPO = os.environ.get("VERIF_REPO", "/repo")
SPEC = os.path.join(VERIF, "spec")
JAR = "/opt/veriftools/tla/tla2tools.jar"
COMMUNITY = "/opt/veriftools/tla/CommunityModules-deps.jar"


def sh(cmd, **kw):
    return subprocess.run(cmd, capture_output=True, text=True, **kw)


def hx(b):
    if isinstance(b, str):
        b = b.encode("latin-1")
    return b.hex() if len(b) else "-"


class Broken(Exception):
    """The machinery itself failed (build error, TLC parse error ...): not a violation."""


# ----------------------------------------------------------------------------- builds
_build_cache = {}


def build(variant, extra_cflags=""):
    key = (variant, extra_cflags)
    if key in _build_cache:
        return _build_cache[key]
    env = dict(os.environ)
    env["VERIF_REPO"] = REPO
    if extra_cflags:
        env["VERIF_EXTRA_CFLAGS"] = extra_cflags
    r = sh([os.path.join(VERIF, "bin/build"), variant], env=env)
    if r.returncode != 0:
        raise Broken("build of variant %s failed:\n%s" % (variant, r.stderr[-3000:]))
    d = r.stdout.strip().splitlines()[-1]
    _build_cache[key] = d
    return d


def tool(bdir, name, sources, extra=()):
    """Compile a harness program against the library in bdir (cached by source hash)."""
    srcs = [os.path.join(VERIF, "harness", s) for s in sources]
    h = hashlib.sha256()
    for s in srcs:
        h.update(open(s, "rb").read())
    h.update(" ".join(extra).encode())
    exe = os.path.join(bdir, "%s-%s" % (name, h.hexdigest()[:12]))
    if os.path.exists(exe):
        return exe
    flags = json.load(open(os.path.join(bdir, "flags.json")))["cflags"]
    cmd = ["clang", "-w"] + flags + srcs + list(extra) + [os.path.join(bdir, "libyara.a"), "-lcrypto", "-lm", "-lpthread",
                                                           "-o", exe + ".tmp%d" % os.getpid()]
    r = sh(cmd)
    if r.returncode != 0:
        raise Broken("harness build failed: %s\n%s" % (" ".join(cmd[:4]), r.stderr[-3000:]))
    os.replace(exe + ".tmp%d" % os.getpid(), exe)
    return exe


def driver(variant="asan", extra_cflags=""):
    return tool(build(variant, extra_cflags), "yvdrive", ["yvdrive.c"])


def fault_driver(variant="asan"):
    return tool(build(variant), "yvfault", ["yvdrive.c", "allocwrap.c"],
                extra=["-DYV_FAULT", "-rdynamic", "-Wl,--wrap=malloc,--wrap=calloc,--wrap=realloc,--wrap=strdup,--wrap=strndup"])


SAN_ENV = {
    "ASAN_OPTIONS": "detect_leaks=1:abort_on_error=0:exitcode=99:allocator_may_return_null=1:detect_stack_use_after_return=0:handle_segv=1",
    "UBSAN_OPTIONS": "print_stacktrace=1:halt_on_error=1:exitcode=98",
    "LSAN_OPTIONS": "exitcode=97",
    "TSAN_OPTIONS": "exitcode=96:halt_on_error=1:second_deadlock_stack=1",
}


class Run:
    def __init__(self, events, rc, stderr, complete, script_path, trace_path):
        self.events, self.rc, self.stderr, self.complete = events, rc, stderr, complete
        self.script_path, self.trace_path = script_path, trace_path


def workdir(prop):
    d = os.path.join(os.environ.get("VERIF_WORK", os.path.join(VERIF, "build", "work")), prop)
    os.makedirs(d, exist_ok=True)
    return d


def run_script(exe, lines, wd, name="s", hang=60, timeout=900, env_extra=None, parse=True):
    """Run the driver on a script; returns Run. A run is complete iff the trace ends with End and rc == 0."""
    os.makedirs(wd, exist_ok=True)
    sp = os.path.join(wd, name + ".script")
    tp = os.path.join(wd, name + ".trace")
    with open(sp, "w") as f:
        f.write("\n".join(lines) + "\n")
    tmpd = os.path.join(wd, name + ".tmp")
    os.makedirs(tmpd, exist_ok=True)
    env = dict(os.environ)
    env.update(SAN_ENV)
    if env_extra:
        env.update(env_extra)
    try:
        r = subprocess.run([exe, "-o", tp, "-t", tmpd, "-hang", str(hang), sp], capture_output=True, text=True,
                           timeout=timeout, env=env, errors="replace")
        rc, err = r.returncode, r.stderr
    except subprocess.TimeoutExpired as e:
        rc, err = -9, "driver timeout after %ds" % timeout
    shutil.rmtree(tmpd, ignore_errors=True)
    events = []
    complete = False
    if os.path.exists(tp):
        if parse:
            with open(tp, errors="replace") as f:
                pend = None       # an event whose line was interrupted by events written from inside the call (FaultAt of the injector)
                for ln in f:
                    ln = ln.strip()
                    if not ln:
                        continue
                    if pend is not None:
                        try:
                            inner = json.loads(ln)
                            if isinstance(inner, dict) and inner.get("e") in ("FaultAt",):
                                held.append(inner); continue
                        except Exception:
                            pass
                        pend += ln
                        try:
                            ev = json.loads(pend)
                            events.append(ev); events.extend(held); pend = None
                        except Exception:
                            if len(pend) > 4000000:
                                events.append({"e": "Garbled", "raw": pend[:200]}); events.extend(held); pend = None
                        continue
                    try:
                        events.append(json.loads(ln))
                    except Exception:
                        if ln.startswith('{"e":"Compile"') and not ln.endswith("}"):
                            pend, held = ln, []
                        else:
                            events.append({"e": "Garbled", "raw": ln[:200]})
                if pend is not None:
                    events.append({"e": "Garbled", "raw": pend[:200]}); events.extend(held)
            ended = bool(events) and events[-1].get("e") == "End"
            # leaks that a LeakCheck event already attributed to an execution are reported again at exit
            lcs = [e["bytes"] for e in events if e.get("e") == "LeakCheck"]
            attributed = any(b > a for a, b in zip(lcs, lcs[1:]))
            only_leaks = rc != 0 and "LeakSanitizer" in (err or "") and "ERROR: AddressSanitizer" not in (err or "") and "runtime error" not in (err or "") and attributed
            complete = ended and (rc == 0 or only_leaks)
            fdp = [e["what"] for e in events if e.get("e") == "FdProblem"]
            if fdp:       # a leaked descriptor / a caller's descriptor closed by the library: the run does not count as clean
                complete = False
                err = (err or "") + "\nFdProblem: %s (%d occurrence(s))" % (fdp[0], len(fdp))
        else:
            with open(tp, "rb") as f:
                try:
                    f.seek(-12, 2)
                except OSError:
                    f.seek(0)
                complete = f.read().strip().endswith(b'{"e":"End"}') and rc == 0
    return Run(events, rc, err, complete, sp, tp)


def crash_summary(run):
    m = re.search(r"(ERROR: AddressSanitizer[^\n]*|runtime error:[^\n]*|ERROR: LeakSanitizer[^\n]*|WARNING: ThreadSanitizer[^\n]*|Assertion[^\n]*|FdProblem[^\n]*)", run.stderr or "")
    last = run.events[-1] if run.events else {}
    return "rc=%s last_event=%s %s" % (run.rc, last.get("e"), m.group(1) if m else (run.stderr or "")[-300:].replace("\n", " | "))


# ----------------------------------------------------------------------------- TLC
def tlc(module, cfg, wd, env=None, workers=16, extra=(), timeout=1800, simulate=None, depth=None, coverage=True,
        xmx="8g", deque=False, tier=None):
    """Run TLC on spec/<module>.tla with spec/<cfg>. Returns dict(ok, states, distinct, out, violated, coverage).
    tier="thorough" selects spec/<cfg stem>_thorough.cfg (a larger scope of the same model) when it exists."""
    os.makedirs(wd, exist_ok=True)
    if tier == "thorough" and not os.path.isabs(cfg):
        big = cfg.replace(".cfg", "_thorough.cfg")
        if os.path.exists(os.path.join(SPEC, big)):
            cfg, xmx, timeout = big, "24g", max(timeout, 3000)
    meta = tempfile.mkdtemp(prefix="meta_", dir=wd)
    cmd = ["java", "-Xmx" + xmx, "-Xss512m", "-XX:+UseParallelGC"]     # deep (non-tail) recursion of the functional modules
    if deque:
        cmd.append("-Dtlc2.tool.queue.IStateQueue=StateDeque")
    cmd += ["-cp", JAR + ":" + COMMUNITY, "tlc2.TLC", "-workers", str(workers), "-metadir", meta,
            "-config", os.path.join(SPEC, cfg), "-noGenerateSpecTE"]
    if coverage:
        cmd += ["-coverage", "1"]
    if simulate:
        cmd += ["-simulate", "num=%d" % simulate]
        if depth:
            cmd += ["-depth", str(depth)]
    cmd += list(extra) + [os.path.join(SPEC, module + ".tla")]
    e = dict(os.environ)
    if env:
        e.update({k: str(v) for k, v in env.items()})
    t0 = time.time()
    try:
        r = subprocess.run(cmd, capture_output=True, text=True, timeout=timeout, env=e, cwd=SPEC)
        out, rc = r.stdout + r.stderr, r.returncode
    except subprocess.TimeoutExpired as ex:
        out, rc = "TLC timeout", -9
    shutil.rmtree(meta, ignore_errors=True)
    res = {"rc": rc, "out": out, "wall": time.time() - t0, "states": 0, "distinct": 0, "violated": None, "actions": {}}
    m = re.search(r"(\d+) states generated, (\d+) distinct states found", out)
    if m:
        res["states"], res["distinct"] = int(m.group(1)), int(m.group(2))
    else:
        m = re.search(r"The number of states generated: (\d+)", out)
        if m:
            res["states"] = res["distinct"] = int(m.group(1))
    for m in re.finditer(r"^<(\w+) line \d+, col \d+ to line \d+, col \d+ of module (\w+)>: (\d+):(\d+)", out, re.M):
        res["actions"][m.group(1)] = [int(m.group(3)), int(m.group(4))]
    m = re.search(r"Invariant (\w+) is violated|Error: (Action property \w+ is violated|Temporal properties were violated|Temporal property \w+ was violated|Deadlock reached)|The postcondition[^\n]*violated|Assumption[^\n]*is false", out)
    if m:
        res["violated"] = m.group(0)
    # rc 0 = ok, 12 = safety violation, 13 = liveness, 10/11 = assumption/deadlock; others = broken
    res["ok"] = rc == 0 and res["violated"] is None
    res["broken"] = rc not in (0, 10, 11, 12, 13) or ("Parsing or semantic analysis failed" in out) or (rc != 0 and res["violated"] is None)
    return res


def require_tlc_ok(res, what):
    if res["broken"]:
        raise Broken("TLC failed on %s (rc=%s):\n%s" % (what, res["rc"], res["out"][-4000:]))


# ----------------------------------------------------------------------------- known findings
def all_known_findings():
    """known findings of the shared reference semantics apply wherever that oracle is reused (the signature is decided
    spec-side by TLC, never from the implementation's output alone)"""
    p = os.path.join(VERIF, "known_findings.json")
    if not os.path.exists(p):
        return []
    return [k for k in json.load(open(p))["findings"] if k["status"] == "known"]


def known_findings(prop):
    p = os.path.join(VERIF, "known_findings.json")
    if not os.path.exists(p):
        return []
    return [k for k in json.load(open(p))["findings"] if (k["property"] == prop or prop in k.get("also", [])) and k["status"] == "known"]


# ----------------------------------------------------------------------------- check result / evidence
class Result:
    def __init__(self, prop, tier, seed, level):
        self.prop, self.tier, self.seed, self.level = prop, tier, seed, level
        self.t0 = time.time()
        self.cov = {"states": 0, "transitions": 0, "traces_validated_against_impl": 0, "samples": [], "actions": {},
                    "evaluations": 0, "distinct_nontrivial": 0, "rule": "", "exhaustive": False, "parts": {}}
        self.assumptions = []
        self.violations = []   # (description, replay_path)
        self.known = {}        # finding id -> count/what
        self._distinct = set()

    def add_tlc(self, name, res):
        self.cov["states"] += res["distinct"]
        self.cov["transitions"] += res["states"]
        self.cov["parts"][name] = {"distinct_states": res["distinct"], "generated": res["states"], "wall_s": round(res["wall"], 1)}
        for a, v in res["actions"].items():
            self.cov["actions"][name + "." + a] = v

    def sample(self, s, maxn=6):
        if len(self.cov["samples"]) < maxn:
            self.cov["samples"].append(s)

    def count(self, n=1, distinct_key=None):
        self.cov["evaluations"] += n
        if distinct_key is not None:
            self._distinct.add(distinct_key)

    def violation(self, desc, replay):
        self.violations.append((desc, replay))

    def known_finding(self, fid, what):
        if fid not in self.known:
            self.known[fid] = [what, 0]
        self.known[fid][1] += 1

    def finish(self):
        self.cov["distinct_nontrivial"] = max(self.cov["distinct_nontrivial"], len(self._distinct))
        ev = {
            "property_id": self.prop, "tier": self.tier, "seed": self.seed, "level": self.level,
            "coverage": self.cov, "assumptions": self.assumptions, "wall_s": round(time.time() - self.t0, 2),
            "violations": len(self.violations),
            "known_findings": {k: {"what": v[0], "occurrences": v[1]} for k, v in self.known.items()},
        }
        if not self.cov["samples"]:
            self.cov["samples"].append("(no case recorded)")
        evdir = os.environ.get("VERIF_EVIDENCE_DIR", os.path.join(VERIF, "evidence"))
        os.makedirs(evdir, exist_ok=True)
        with open(os.path.join(evdir, self.prop + ".json"), "w") as f:
            json.dump(ev, f, indent=1, default=str)
        for fid, (what, n) in sorted(self.known.items()):
            print("KNOWN-FINDING: property=%s %s: %s (%d occurrence(s) this run)" % (self.prop, fid, what, n))
        for desc, replay in self.violations[:20]:
            print("VIOLATION property=%s replay=%s" % (self.prop, replay))
            print("  " + desc[:1500])
        sys.stdout.flush()
        return 1 if self.violations else 0


def save_replay(prop, name, obj):
    d = os.path.join(os.environ.get("VERIF_WORK", os.path.join(VERIF, "build")), "replay", prop) if os.environ.get("VERIF_WORK") else os.path.join(VERIF, "build", "replay", prop)
    os.makedirs(d, exist_ok=True)
    p = os.path.join(d, name + ".json")
    with open(p, "w") as f:
        json.dump(obj, f, indent=1, default=str)
    return p


def write_ndjson(path, records):
    with open(path, "w") as f:
        for r in records:
            f.write(json.dumps(r, separators=(",", ":")) + "\n")


def rng(seed, salt=""):
    return random.Random("%s/%s" % (seed, salt))
