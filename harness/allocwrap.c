/*
 * Allocation-fault injector for the C16 driver (linked with -Wl,--wrap=malloc,--wrap=calloc,--wrap=realloc,
 * --wrap=strdup,--wrap=strndup).  Every allocation made by libyara (the driver's own allocations bypass the wrappers)
 * is counted while yv_fault_enabled is set; allocation number yv_fail_at (and, in sticky mode, all later ones) returns
 * NULL.  The call stack of the first injected failure is kept for the trace.
 */
#define _GNU_SOURCE
#include <execinfo.h>
#include <stddef.h>
#include <stdio.h>
#include <string.h>

extern long yv_alloc_count, yv_fail_at, yv_faults_injected;
extern int yv_fail_sticky, yv_fault_enabled;
char yv_fault_stack[2048];
void yv_on_fault(const char* stack);

void* __real_malloc(size_t);
void* __real_calloc(size_t, size_t);
void* __real_realloc(void*, size_t);
char* __real_strdup(const char*);
char* __real_strndup(const char*, size_t);
#include <stdlib.h>

static int in_hook = 0;

static int should_fail(void)
{
  if (!yv_fault_enabled || in_hook) return 0;
  long k = ++yv_alloc_count;
  if (k == yv_fail_at || (yv_fail_sticky && yv_fail_at > 0 && k > yv_fail_at))
  {
    if (yv_faults_injected++ == 0)
    {
      void* frames[24];
      in_hook = 1;
      int n = backtrace(frames, 24);
      char** syms = backtrace_symbols(frames, n);
      yv_fault_stack[0] = 0;
      if (syms)
      {
        for (int i = 2; i < n && i < 12; i++)
        {
          /* "exe(function+0x12) [0x...]" -> function */
          char* l = strchr(syms[i], '(');
          char* r = l ? strpbrk(l, "+)") : NULL;
          if (l && r && r > l + 1)
          {
            size_t len = strlen(yv_fault_stack);
            snprintf(yv_fault_stack + len, sizeof(yv_fault_stack) - len, "%s%.*s", len ? "<" : "", (int) (r - l - 1), l + 1);
          }
        }
        free(syms);
      }
      yv_on_fault(yv_fault_stack);
      in_hook = 0;
    }
    return 1;
  }
  return 0;
}

void* __wrap_malloc(size_t n) { return should_fail() ? NULL : __real_malloc(n); }
void* __wrap_calloc(size_t a, size_t b) { return should_fail() ? NULL : __real_calloc(a, b); }
void* __wrap_realloc(void* p, size_t n) { return should_fail() ? NULL : __real_realloc(p, n); }
char* __wrap_strdup(const char* s) { return should_fail() ? NULL : __real_strdup(s); }
char* __wrap_strndup(const char* s, size_t n) { return should_fail() ? NULL : __real_strndup(s, n); }

/* the first backtrace() of a process loads libgcc_s (one-time heap allocations): do it before any heap baseline is taken */
__attribute__((constructor)) static void yv_warm_unwinder(void)
{
  void* frames[4];
  int n = backtrace(frames, 4);
  char** syms = backtrace_symbols(frames, n);
  free(syms);
}
