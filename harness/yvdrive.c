/*
 * yvdrive - script-driven libyara driver / trace recorder (see DESIGN.md 3.4).
 *
 * Reads a script (one operation per line, tokens separated by blanks, byte strings hex-encoded,
 * "-" = empty) and writes an NDJSON trace: one event per public API call (+ arguments + result +
 * cheap projected state) and one per callback message. The final line is {"e":"End"}; a trace
 * without it was truncated (sanitizer report, signal, assert, hang) and is rejected by the checks.
 */
#include <yara.h>
#include <yara/notebook.h>
#include <yara/arena.h>
#include <yara/bitmask.h>
#include <yara/hash.h>

#include <ctype.h>
#include <errno.h>
#include <fcntl.h>
#include <signal.h>
#include <stdarg.h>
#include <limits.h>
#include <stdio.h>
#include <stdlib.h>
#include <string.h>
#include <sys/stat.h>
#include <sys/wait.h>
#include <signal.h>
#include <time.h>
#include <unistd.h>

size_t __sanitizer_get_current_allocated_bytes(void);
#ifdef YARA_VERIF
extern size_t yr_verif_arena_initial_size;   /* hook H1 (compiler.c) */
extern void (*yr_verif_atom_hook)(uint32_t string_idx, const uint8_t* bytes, int length, int backtrack);   /* H3 */
extern void (*yr_verif_cand_hook)(size_t pos, uint32_t string_idx, int backtrack);                         /* H4 */
extern void (*yr_verif_chain_hook)(YR_SCAN_CONTEXT* context, YR_STRING* s, uint64_t off, int32_t len);      /* H7 (scan.c) */
extern void (*yr_verif_ac_tables_hook)(YR_AC_AUTOMATON* automaton);                                       /* H8 (ahocorasick.c) */
#endif

#ifdef YV_FAULT
void* __real_malloc(size_t); void* __real_calloc(size_t, size_t); void* __real_realloc(void*, size_t);
char* __real_strdup(const char*);
#define malloc __real_malloc
#define calloc __real_calloc
#define realloc __real_realloc
#define strdup __real_strdup
extern char yv_fault_stack[2048];
#else
static char yv_fault_stack[8];
#endif

#define MAXSLOT 64
#define MAXDATA 4096
#define MAXTOK 64

static FILE* out;
static int hang_seconds = 60;
static long op_no = 0;

typedef struct { uint8_t* p; size_t n; } BLOB;

static YR_COMPILER* compilers[MAXSLOT];
static uint8_t* qtables[MAXSLOT];   /* atom quality table handed to the compiler (it keeps the pointer) */
static YR_RULES* rulesets[MAXSLOT];
static YR_SCANNER* scanners[MAXSLOT];
static BLOB datas[MAXDATA];

typedef struct { char* name; BLOB content; } INCL;
static INCL includes[4096];
static int n_includes = 0;

/* ---------- allocation fault injection (linked with -Wl,--wrap=... in the "fault" driver) ---------- */
long yv_alloc_count = 0;     /* allocations seen so far */
long yv_fail_at = -1;        /* 1-based ordinal of the allocation that fails, -1 = none */
int yv_fail_sticky = 0;      /* all later ones fail too */
int yv_fault_enabled = 0;
long yv_faults_injected = 0;

/* ---------- output helpers ---------- */
static void jstr(const char* s, size_t n)
{
  fputc('"', out);
  for (size_t i = 0; i < n; i++)
  {
    unsigned char c = (unsigned char) s[i];
    if (c == '"' || c == '\\') fprintf(out, "\\%c", c);
    else if (c < 0x20 || c >= 0x7f) fprintf(out, "\\u%04x", c);
    else fputc(c, out);
  }
  fputc('"', out);
}

static void jcstr(const char* s) { if (s == NULL) fputs("null", out); else jstr(s, strlen(s)); }

/* called by the fault injector at the moment of the first injected failure (the operation may never return) */
void yv_on_fault(const char* stack)
{
  FILE* f = fopen("/proc/self/fd/2", "w");
  (void) f;
  fflush(out);
  char buf[2300];
  int n = snprintf(buf, sizeof buf, "\n{\"e\":\"FaultAt\",\"stack\":\"%s\"}\n", stack);
  if (write(fileno(out), buf, n)) {}
  if (f) fclose(f);
}

static void jbytes(const uint8_t* p, size_t n)
{
  fputc('[', out);
  for (size_t i = 0; i < n; i++) fprintf(out, i ? ",%d" : "%d", p[i]);
  fputc(']', out);
}

static void die(const char* fmt, ...)
{
  va_list ap; va_start(ap, fmt);
  fprintf(stderr, "yvdrive: op %ld: ", op_no); vfprintf(stderr, fmt, ap); fputc('\n', stderr);
  va_end(ap);
  fflush(out);
  _exit(4);
}

static void on_alarm(int sig)
{
  (void) sig;
  static const char msg[] = "{\"e\":\"Hang\"}\n";
  fflush(out);
  if (write(fileno(out), msg, sizeof(msg) - 1)) {}
  _exit(3);
}

static void on_fatal(int sig)
{
  char msg[64];
  fflush(out);
  int n = snprintf(msg, sizeof msg, "{\"e\":\"Signal\",\"sig\":%d}\n", sig);
  if (write(fileno(out), msg, n)) {}
  _exit(5);
}

#ifdef YARA_VERIF
static char* atom_buf = NULL; static size_t atom_len = 0, atom_cap = 0;
static void on_atom(uint32_t sidx, const uint8_t* bytes, int length, int backtrack)
{
  /* buffered: the hook fires while the Compile event line is being written */
  if (atom_cap - atom_len < 256) { atom_cap = atom_cap ? atom_cap * 2 : (1 << 16); atom_buf = (char*) realloc(atom_buf, atom_cap); }
  atom_len += snprintf(atom_buf + atom_len, atom_cap - atom_len, "{\"e\":\"Atom\",\"s\":%u,\"bt\":%d,\"b\":[", sidx, backtrack);
  for (int i = 0; i < length; i++) atom_len += snprintf(atom_buf + atom_len, atom_cap - atom_len, i ? ",%d" : "%d", bytes[i]);
  atom_len += snprintf(atom_buf + atom_len, atom_cap - atom_len, "]}\n");
}
static void on_cand(size_t pos, uint32_t sidx, int backtrack)
{
  fprintf(out, "{\"e\":\"Cand\",\"pos\":%zu,\"s\":%u,\"bt\":%d}\n", pos, sidx, backtrack);
}
/* H8: the logical size of the automaton's tables when they are complete, and how many entries the arena holds for each */
static long ac_logical = -1, ac_held_t = -1, ac_held_m = -1;
static void on_ac_tables(YR_AC_AUTOMATON* au)
{
  ac_logical = au->tables_size;
  ac_held_t = (long) (au->arena->buffers[YR_AC_TRANSITION_TABLE].used / sizeof(YR_AC_TRANSITION));
  ac_held_m = (long) (au->arena->buffers[YR_AC_STATE_MATCHES_TABLE].used / sizeof(uint32_t));
}

/* H7: one event per call of the chain confirmation algorithm, with the full projected state of the chain AFTER the call:
   the unconfirmed lists of every piece and the confirmed list of the head.  An unbounded gap (INT_MAX) is logged as -1. */
static void on_chain(YR_SCAN_CONTEXT* ctx, YR_STRING* s, uint64_t off, int32_t len)
{
  YR_STRING* head = s;
  int p = 1, n;
  while (head->chained_to != NULL) { head = head->chained_to; p++; }
  YR_STRING* last = head;
  n = 1;
  while (last->idx + 1 < ctx->rules->num_strings && (last + 1)->chained_to == last) { last++; n++; }
  fprintf(out, "{\"e\":\"ChainCb\",\"head\":%u,\"n\":%d,\"p\":%d,\"off\":%llu,\"len\":%d,\"gaps\":[", head->idx, n, p, (unsigned long long) off, len);
  for (int k = 1; k < n; k++)
    fprintf(out, "%s[%d,%d]", k > 1 ? "," : "", (head + k)->chain_gap_min, (head + k)->chain_gap_max == INT_MAX ? -1 : (head + k)->chain_gap_max);
  fprintf(out, "],\"unc\":[");
  for (int k = 0; k < n - 1; k++)
  {
    fprintf(out, "%s[", k ? "," : "");
    for (YR_MATCH* m = ctx->unconfirmed_matches[(head + k)->idx].head; m != NULL; m = m->next)
      fprintf(out, "%s[%lld,%d,%d]", m->prev ? "," : "", (long long) m->offset, m->match_length, m->chain_length);
    fprintf(out, "]");
  }
  fprintf(out, "],\"tailunc\":%d,\"conf\":[", ctx->unconfirmed_matches[last->idx].count);
  for (YR_MATCH* m = ctx->matches[head->idx].head; m != NULL; m = m->next)
    fprintf(out, "%s[%lld,%d]", m->prev ? "," : "", (long long) m->offset, m->match_length);
  fprintf(out, "]}\n");
}
#endif

static int fresh_iterator = 0;
static YR_MEMORY_BLOCK_ITERATOR* abandoned_it[64];
static int default_include = 0;
/* ---------- descriptor accounting: an API call must neither leak a descriptor nor close one of the caller's ---------- */
#include <dirent.h>
static int count_fds(void)
{
  int n = 0;
  DIR* d = opendir("/proc/self/fd");
  if (d == NULL) return -1;
  while (readdir(d) != NULL) n++;
  closedir(d);
  return n;
}

/* ---------- parsing helpers ---------- */
static int hexv(int c) { return isdigit(c) ? c - '0' : (tolower(c) - 'a' + 10); }

static BLOB unhex(const char* s)
{
  BLOB b = {NULL, 0};
  if (strcmp(s, "-") == 0) { b.p = (uint8_t*) calloc(1, 1); return b; }
  size_t n = strlen(s) / 2;
  b.p = (uint8_t*) malloc(n + 1);
  for (size_t i = 0; i < n; i++) b.p[i] = (uint8_t) (hexv(s[2 * i]) * 16 + hexv(s[2 * i + 1]));
  b.p[n] = 0;
  b.n = n;
  return b;
}

static int slot(const char* s, int max)
{
  int v = atoi(s);
  if (v < 0 || v >= max) die("bad slot %s", s);
  return v;
}

/* ---------- compiler callbacks ---------- */
typedef struct { int errors, warnings; int first; int first_code; YR_COMPILER* comp; } DIAG;

static void compiler_cb(int level, const char* file, int line, const YR_RULE* rule, const char* msg, void* ud)
{
  DIAG* d = (DIAG*) ud;
  if (level == YARA_ERROR_LEVEL_ERROR) { if (d->errors == 0 && d->comp) d->first_code = d->comp->last_error; d->errors++; } else d->warnings++;
  fprintf(out, "%s{\"lvl\":%s,\"line\":%d,\"file\":", d->first ? "" : ",",
          level == YARA_ERROR_LEVEL_ERROR ? "\"error\"" : "\"warning\"", line);
  jcstr(file);
  fputs(",\"rule\":", out);
  jcstr(rule ? rule->identifier : NULL);
  fputs(",\"msg\":", out);
  jcstr(msg);
  fputc('}', out);
  d->first = 0;
}

static const char* include_cb(const char* name, const char* calling_file, const char* calling_ns, void* ud)
{
  (void) calling_file; (void) calling_ns; (void) ud;
  for (int i = 0; i < n_includes; i++)
    if (strcmp(includes[i].name, name) == 0)
    {
      char* c = (char*) malloc(includes[i].content.n + 1);
      memcpy(c, includes[i].content.p, includes[i].content.n);
      c[includes[i].content.n] = 0;
      return c;
    }
  return NULL;
}

static void include_free(const char* p, void* ud) { (void) ud; free((void*) p); }

/* ---------- scan machinery ---------- */
typedef struct
{
  /* callback plan: replies[k] = reply to the k-th callback message (0-based), default continue */
  int nplan; int plan_k[32]; int plan_r[32];
  int cb_count;
  int log_matches;      /* log per-string match lists in rule messages */
  int walk_modules;     /* on MODULE_IMPORTED walk the whole object tree (reads every field of the module) */
  int quiet_nomatch;    /* do not log not-matching messages (bulk functional cases) */
  int sid;
} CBCTX;

static const char* msgname(int m)
{
  switch (m)
  {
  case CALLBACK_MSG_RULE_MATCHING: return "match";
  case CALLBACK_MSG_RULE_NOT_MATCHING: return "nomatch";
  case CALLBACK_MSG_SCAN_FINISHED: return "finished";
  case CALLBACK_MSG_IMPORT_MODULE: return "import";
  case CALLBACK_MSG_MODULE_IMPORTED: return "imported";
  case CALLBACK_MSG_TOO_MANY_MATCHES: return "toomany";
  case CALLBACK_MSG_CONSOLE_LOG: return "log";
  case CALLBACK_MSG_TOO_SLOW_SCANNING: return "tooslow";
  }
  return "unknown";
}

static const char* replyname(int r) { return r == CALLBACK_CONTINUE ? "continue" : r == CALLBACK_ABORT ? "abort" : "error"; }

static int rule_index(YR_SCAN_CONTEXT* ctx, YR_RULE* r) { return (int) (r - ctx->rules->rules_table); }

static int scan_cb(YR_SCAN_CONTEXT* ctx, int message, void* data, void* ud)
{
  CBCTX* c = (CBCTX*) ud;
  int k = c->cb_count++;
  int reply = CALLBACK_CONTINUE;
  for (int i = 0; i < c->nplan; i++) if (c->plan_k[i] == k) reply = c->plan_r[i];

  if (message == CALLBACK_MSG_RULE_NOT_MATCHING && c->quiet_nomatch && reply == CALLBACK_CONTINUE)
    return reply;

  fprintf(out, "{\"e\":\"Cb\",\"sid\":%d,\"k\":%d,\"msg\":\"%s\"", c->sid, k, msgname(message));
  if (message == CALLBACK_MSG_RULE_MATCHING || message == CALLBACK_MSG_RULE_NOT_MATCHING)
  {
    YR_RULE* r = (YR_RULE*) data;
    fprintf(out, ",\"ri\":%d,\"ns\":", rule_index(ctx, r));
    jcstr(r->ns->name);
    fputs(",\"rule\":", out);
    jcstr(r->identifier);
    if (c->log_matches)
    {
      YR_STRING* s;
      int first = 1;
      fputs(",\"strings\":[", out);
      yr_rule_strings_foreach(r, s)
      {
        YR_MATCH* m;
        int fm = 1;
        fprintf(out, "%s{\"id\":", first ? "" : ",");
        jcstr(s->identifier);
        fputs(",\"m\":[", out);
        /* raw list walk: yr_string_matches_foreach hides the matches of private strings */
        for (m = ctx->matches[s->idx].head; m != NULL; m = m->next)
        {
          fprintf(out, "%s[%lld,%d,%d,%d]", fm ? "" : ",", (long long) (m->base + m->offset), m->match_length,
                  m->xor_key, m->is_private ? 1 : 0);
          fm = 0;
        }
        fputs("]}", out);
        first = 0;
      }
      fputc(']', out);
    }
  }
  else if (message == CALLBACK_MSG_IMPORT_MODULE)
  {
    YR_MODULE_IMPORT* mi = (YR_MODULE_IMPORT*) data;
    fputs(",\"mod\":", out);
    jcstr(mi->module_name);
  }
  else if (message == CALLBACK_MSG_MODULE_IMPORTED)
  {
    YR_OBJECT* o = (YR_OBJECT*) data;
    if (c->walk_modules) { yr_object_print_data(o, 0, 1); }
    fputs(",\"mod\":", out);
    jcstr(o->identifier);
  }
  else if (message == CALLBACK_MSG_TOO_MANY_MATCHES || message == CALLBACK_MSG_TOO_SLOW_SCANNING)
  {
    YR_STRING* s = (YR_STRING*) data;
    fputs(",\"str\":", out);
    jcstr(s->identifier);
    fprintf(out, ",\"ri\":%d", (int) s->rule_idx);
  }
  else if (message == CALLBACK_MSG_CONSOLE_LOG)
  {
    fputs(",\"text\":", out);
    jcstr((const char*) data);
  }
  fprintf(out, ",\"reply\":\"%s\"}\n", replyname(reply));
  return reply;
}

static void parse_plan(const char* s, CBCTX* c)
{
  c->nplan = 0;
  if (strcmp(s, "-") == 0) return;
  char* dup = strdup(s);
  for (char* t = strtok(dup, ","); t; t = strtok(NULL, ","))
  {
    char* colon = strchr(t, ':');
    if (!colon || c->nplan >= 32) die("bad plan %s", s);
    c->plan_k[c->nplan] = atoi(t);
    c->plan_r[c->nplan] = colon[1] == 'a' ? CALLBACK_ABORT : colon[1] == 'e' ? CALLBACK_ERROR : CALLBACK_CONTINUE;
    c->nplan++;
  }
  free(dup);
}

/* programmable block iterator */
typedef struct
{
  const uint8_t* data; size_t n;
  int nblocks; uint64_t base[64]; uint64_t size[64]; uint64_t doff[64];
  int pos;                 /* index of the next block to hand out */
  long calls;              /* ordinal of iterator calls (first/next), 0-based, over the whole logical scan */
  int nnr; long nr[64];    /* ordinals answering not-ready */
  uint64_t fsize; int has_fsize;
  YR_MEMORY_BLOCK blk;
  int log;
  int sid;
} ITCTX;

static const uint8_t* it_fetch(YR_MEMORY_BLOCK* b) { return (const uint8_t*) b->context; }

static long iter_sleep_ms = 0;
static YR_MEMORY_BLOCK* it_answer(YR_MEMORY_BLOCK_ITERATOR* it, const char* op)
{
  ITCTX* c = (ITCTX*) it->context;
  long k = c->calls++;
  int notready = 0;
  for (int i = 0; i < c->nnr; i++) if (c->nr[i] == k) notready = 1;
  if (notready)
  {
    it->last_error = ERROR_BLOCK_NOT_READY;
    if (c->log) fprintf(out, "{\"e\":\"Iter\",\"sid\":%d,\"k\":%ld,\"op\":\"%s\",\"ans\":\"notready\"}\n", c->sid, k, op);
    return NULL;
  }
  it->last_error = ERROR_SUCCESS;
  if (c->pos >= c->nblocks)
  {
    if (c->log) fprintf(out, "{\"e\":\"Iter\",\"sid\":%d,\"k\":%ld,\"op\":\"%s\",\"ans\":\"null\"}\n", c->sid, k, op);
    return NULL;
  }
  int i = c->pos++;
  if (iter_sleep_ms > 0) { struct timespec ts = {iter_sleep_ms / 1000, (iter_sleep_ms % 1000) * 1000000L}; nanosleep(&ts, NULL); }   /* a source that takes time to deliver a block */
  c->blk.base = c->base[i];
  c->blk.size = c->size[i];
  c->blk.context = (void*) (c->data + c->doff[i]);
  c->blk.fetch_data = it_fetch;
  if (c->log) fprintf(out, "{\"e\":\"Iter\",\"sid\":%d,\"k\":%ld,\"op\":\"%s\",\"ans\":\"block\",\"b\":%d}\n", c->sid, k, op, i);
  return &c->blk;
}

static YR_MEMORY_BLOCK* it_first(YR_MEMORY_BLOCK_ITERATOR* it)
{
  ITCTX* c = (ITCTX*) it->context;
  /* a first() answered not-ready must be repeatable: position is reset before answering */
  c->pos = 0;
  return it_answer(it, "first");
}

static YR_MEMORY_BLOCK* it_next(YR_MEMORY_BLOCK_ITERATOR* it) { return it_answer(it, "next"); }

static uint64_t it_fsize(YR_MEMORY_BLOCK_ITERATOR* it) { return ((ITCTX*) it->context)->fsize; }

static void parse_blocks(const char* s, ITCTX* c)
{
  /* "size[@base],size[@base],..." ; data offsets accumulate ; default base = running data offset */
  c->nblocks = 0;
  uint64_t off = 0;
  if (strcmp(s, "-") == 0) return;
  char* dup = strdup(s);
  for (char* t = strtok(dup, ","); t; t = strtok(NULL, ","))
  {
    if (c->nblocks >= 64) die("too many blocks");
    char* at = strchr(t, '@');
    uint64_t sz = strtoull(t, NULL, 10);
    c->size[c->nblocks] = sz;
    c->base[c->nblocks] = at ? strtoull(at + 1, NULL, 10) : off;
    c->doff[c->nblocks] = off;
    off += sz;
    c->nblocks++;
  }
  free(dup);
  if (off > c->n) die("blocks exceed data (%llu > %zu)", (unsigned long long) off, c->n);
}

static void parse_longs(const char* s, long* v, int* n, int max)
{
  *n = 0;
  if (strcmp(s, "-") == 0) return;
  char* dup = strdup(s);
  for (char* t = strtok(dup, ","); t; t = strtok(NULL, ","))
  {
    if (*n >= max) die("too many values");
    v[(*n)++] = atol(t);
  }
  free(dup);
}

static int popcount_mask(YR_BITMASK* m, uint32_t nbits)
{
  int c = 0;
  if (m == NULL) return -1;
  for (uint32_t i = 0; i < nbits; i++) if (yr_bitmask_is_set(m, i)) c++;
  return c;
}

/* the scan flags the caller set (effective value right after yr_scanner_create / yr_scanner_set_flags): a scan must leave them */
static int user_flags[MAXSLOT];
static int scanner_slot_of(YR_SCANNER* s) { for (int i = 0; i < MAXSLOT; i++) if (scanners[i] == s) return i; return -1; }

static void log_resid(YR_SCANNER* s)
{
  YR_RULES* r = s->rules;
  long nm = 0, nu = 0;
  for (uint32_t i = 0; i < r->num_strings; i++)
  {
    nm += s->matches[i].count + (s->matches[i].head != NULL) + (s->matches[i].tail != NULL);
    nu += s->unconfirmed_matches[i].count + (s->unconfirmed_matches[i].head != NULL) + (s->unconfirmed_matches[i].tail != NULL);
  }
  /* module objects left in the objects table = entries beyond the external variables */
  int nobj = 0, next = 0;
  YR_EXTERNAL_VARIABLE* e = r->ext_vars_table;
  while (e != NULL && !EXTERNAL_VARIABLE_IS_NULL(e)) { next++; e++; }
  if (s->objects_table != NULL)
    for (int b = 0; b < s->objects_table->size; b++)
      for (YR_HASH_TABLE_ENTRY* en = s->objects_table->buckets[b]; en; en = en->next) nobj++;
  fprintf(out,
          "\"resid\":{\"matches\":%ld,\"unconfirmed\":%ld,\"ruleFlags\":%d,\"reqEval\":%d,\"nsUnsat\":%d,"
          "\"disabled\":%d,\"notebook\":%d,\"modules\":%d,\"flagsChanged\":%d}",
          nm, nu, popcount_mask(s->rule_matches_flags, r->num_rules), popcount_mask(s->required_eval, r->num_rules),
          popcount_mask(s->ns_unsatisfied_flags, r->num_namespaces),
          popcount_mask(s->strings_temp_disabled, r->num_strings), s->matches_notebook != NULL, nobj - next,
          scanner_slot_of(s) >= 0 && s->flags != user_flags[scanner_slot_of(s)]);
}

static void j_u64_or_undef(uint64_t v)
{
  if (v == (uint64_t) YR_UNDEFINED) fputs("\"undef\"", out);
  else fprintf(out, "%llu", (unsigned long long) v);
}

/* write data to a temp file, return path (static buffer) */
static const char* tmpdir = NULL;
static const char* data_to_file(int did)
{
  static char path[512];
  snprintf(path, sizeof path, "%s/data_%d.bin", tmpdir, did);
  FILE* f = fopen(path, "wb");
  if (!f) die("cannot write %s", path);
  if (datas[did].n) fwrite(datas[did].p, 1, datas[did].n, f);
  fclose(f);
  return path;
}

/* streams */
typedef struct { FILE* f; unsigned seed; int chunked; size_t limit; size_t done; long fail_at; long nwrites; } STRM;

static size_t strm_read(void* ptr, size_t size, size_t count, void* ud)
{
  STRM* s = (STRM*) ud;
  if (!s->chunked) return fread(ptr, size, count, s->f);
  /* deliver all-or-nothing per call like fread, but through single-byte freads (arbitrary chunking below the API
     is not expressible: the API contract is "count items of size"); vary by reading item by item */
  size_t got = 0;
  for (size_t i = 0; i < count; i++)
  {
    if (fread((char*) ptr + i * size, size, 1, s->f) != 1) break;
    got++;
  }
  return got;
}

static size_t strm_write(const void* ptr, size_t size, size_t count, void* ud)
{
  STRM* s = (STRM*) ud;
  if (s->limit && s->done + size * count > s->limit) return 0; /* disk full */
  if (++s->nwrites == s->fail_at) return 0;                       /* one write fails, the following ones succeed again */
  s->done += size * count;
  return fwrite(ptr, size, count, s->f);
}

static void define_on(const char* level, int idx, const char* t, const char* ident, const char* val)
{
  int ret = -1;
  BLOB sv = {NULL, 0};
  long long iv = 0; double fv = 0;
  if (t[0] == 's') sv = unhex(val);
  else if (t[0] == 'f') fv = atof(val);
  else iv = atoll(val);
  const char* id = strcmp(ident, "-") == 0 ? "" : ident;
  if ((level[0] == 'c' && !compilers[idx]) || (level[0] == 'r' && !rulesets[idx]) || (level[0] == 's' && !scanners[idx]))
  {
    fprintf(out, "{\"e\":\"%cDefine\",\"h\":%d,\"ret\":-1,\"skipped\":\"no object\"}\n", toupper(level[0]), idx);
    free(sv.p);
    return;
  }
  if (level[0] == 'c')
  {
    YR_COMPILER* c = compilers[idx];
    ret = t[0] == 'i' ? yr_compiler_define_integer_variable(c, id, iv)
        : t[0] == 'b' ? yr_compiler_define_boolean_variable(c, id, (int) iv)
        : t[0] == 'f' ? yr_compiler_define_float_variable(c, id, fv)
        : yr_compiler_define_string_variable(c, id, (char*) sv.p);
  }
  else if (level[0] == 'r')
  {
    YR_RULES* r = rulesets[idx];
    ret = t[0] == 'i' ? yr_rules_define_integer_variable(r, id, iv)
        : t[0] == 'b' ? yr_rules_define_boolean_variable(r, id, (int) iv)
        : t[0] == 'f' ? yr_rules_define_float_variable(r, id, fv)
        : yr_rules_define_string_variable(r, id, (char*) sv.p);
  }
  else
  {
    YR_SCANNER* s = scanners[idx];
    ret = t[0] == 'i' ? yr_scanner_define_integer_variable(s, id, iv)
        : t[0] == 'b' ? yr_scanner_define_boolean_variable(s, id, (int) iv)
        : t[0] == 'f' ? yr_scanner_define_float_variable(s, id, fv)
        : yr_scanner_define_string_variable(s, id, (char*) sv.p);
  }
  fprintf(out, "{\"e\":\"%cDefine\",\"h\":%d,\"ty\":\"%c\",\"id\":", toupper(level[0]), idx, t[0]);
  jcstr(id);
  fputs(",\"val\":", out);
  if (t[0] == 's') jbytes(sv.p, sv.n); else if (t[0] == 'f') fprintf(out, "\"%s\"", val); else fprintf(out, "%lld", iv);
  fprintf(out, ",\"ret\":%d}\n", ret);
  free(sv.p);
}

static void log_rules_info(int rid)
{
  YR_RULES* r = rulesets[rid];
  YR_RULE* rule;
  fprintf(out, "{\"e\":\"RulesInfo\",\"rid\":%d,\"num_rules\":%u,\"num_strings\":%u,\"num_ns\":%u,\"rules\":[", rid,
          r->num_rules, r->num_strings, r->num_namespaces);
  int first = 1;
  yr_rules_foreach(r, rule)
  {
    fprintf(out, "%s{\"ns\":", first ? "" : ",");
    jcstr(rule->ns->name);
    fputs(",\"name\":", out);
    jcstr(rule->identifier);
    fprintf(out, ",\"global\":%d,\"private\":%d,\"tags\":[", RULE_IS_GLOBAL(rule) ? 1 : 0, RULE_IS_PRIVATE(rule) ? 1 : 0);
    const char* tag; int ft = 1;
    yr_rule_tags_foreach(rule, tag) { fputs(ft ? "" : ",", out); jcstr(tag); ft = 0; }
    fputs("],\"metas\":[", out);
    YR_META* meta; int fm = 1;
    yr_rule_metas_foreach(rule, meta)
    {
      fprintf(out, "%s[", fm ? "" : ",");
      jcstr(meta->identifier);
      if (meta->type == META_TYPE_STRING) { fputc(',', out); jcstr(meta->string); }
      else fprintf(out, ",%lld", (long long) meta->integer);
      fprintf(out, ",%d]", meta->type);
      fm = 0;
    }
    fputs("],\"strings\":[", out);
    YR_STRING* s; int fs = 1;
    yr_rule_strings_foreach(rule, s) { fputs(fs ? "" : ",", out); jcstr(s->identifier); fs = 0; }
    fputs("]}", out);
    first = 0;
  }
  fputs("],\"externals\":[", out);
  YR_EXTERNAL_VARIABLE* e = r->ext_vars_table;
  first = 1;
  while (e != NULL && !EXTERNAL_VARIABLE_IS_NULL(e))
  {
    fprintf(out, "%s[", first ? "" : ",");
    jcstr(e->identifier);
    fprintf(out, ",%d,", e->type);
    if (e->type == EXTERNAL_VARIABLE_TYPE_STRING || e->type == EXTERNAL_VARIABLE_TYPE_MALLOC_STRING) jcstr(e->value.s);
    else if (e->type == EXTERNAL_VARIABLE_TYPE_FLOAT) fprintf(out, "\"%g\"", e->value.f);
    else fprintf(out, "%lld", (long long) e->value.i);
    fputc(']', out);
    first = 0;
    e++;
  }
  fputs("]}\n", out);
}

int main(int argc, char** argv)
{
  const char* script = NULL;
  out = stdout;
  for (int i = 1; i < argc; i++)
  {
    if (strcmp(argv[i], "-o") == 0 && i + 1 < argc) { out = fopen(argv[++i], "w"); if (!out) { perror("open"); return 4; } }
    else if (strcmp(argv[i], "-t") == 0 && i + 1 < argc) tmpdir = argv[++i];
    else if (strcmp(argv[i], "-hang") == 0 && i + 1 < argc) hang_seconds = atoi(argv[++i]);
    else script = argv[i];
  }
  if (!script) { fprintf(stderr, "usage: yvdrive [-o trace] [-t tmpdir] [-hang sec] script\n"); return 4; }
  if (!tmpdir) tmpdir = ".";
  FILE* in = strcmp(script, "-") == 0 ? stdin : fopen(script, "r");
  if (!in) { perror(script); return 4; }
  static char obuf[1 << 20];
  setvbuf(out, obuf, _IOFBF, sizeof obuf);
  signal(SIGALRM, on_alarm);
  signal(SIGFPE, on_fatal);
  signal(SIGABRT, on_fatal);

  size_t cap = 64u << 20; char* line = (char*) malloc(cap); ssize_t len;
  int default_log_matches = 1, default_quiet = 0, iter_log = 1, walk_modules = 0, flush_scan = 0;

  while ((len = getline(&line, &cap, in)) > 0)
  {
    op_no++;
    while (len > 0 && (line[len - 1] == '\n' || line[len - 1] == '\r')) line[--len] = 0;
    if (len == 0 || line[0] == '#') continue;
    char* tok[MAXTOK]; int nt = 0;
    for (char* t = strtok(line, " "); t && nt < MAXTOK; t = strtok(NULL, " ")) tok[nt++] = t;
    if (nt == 0) continue;
    const char* op = tok[0];
#define NEED(n) do { if (nt < (n) + 1) die("%s needs %d args", op, (n)); } while (0)
    alarm(hang_seconds);
    long faults_before = yv_faults_injected;
    (void) faults_before;

    if (!strcmp(op, "init")) { int r = yr_initialize(); fprintf(out, "{\"e\":\"Init\",\"ret\":%d}\n", r); }
    else if (!strcmp(op, "finalize")) { int r = yr_finalize(); fprintf(out, "{\"e\":\"Finalize\",\"ret\":%d}\n", r); }
    else if (!strcmp(op, "opt"))
    {
      NEED(2);
      if (!strcmp(tok[1], "logmatches")) default_log_matches = atoi(tok[2]);
      else if (!strcmp(tok[1], "quietnomatch")) default_quiet = atoi(tok[2]);
      else if (!strcmp(tok[1], "iterlog")) iter_log = atoi(tok[2]);
      else if (!strcmp(tok[1], "flushscan")) flush_scan = atoi(tok[2]);
      else if (!strcmp(tok[1], "freshit")) fresh_iterator = atoi(tok[2]);
      else if (!strcmp(tok[1], "itersleep")) iter_sleep_ms = atol(tok[2]);
      else if (!strcmp(tok[1], "defaultinclude")) default_include = atoi(tok[2]);   /* compilers keep the library's own include callback (real files) */
#ifdef YARA_VERIF
      else if (!strcmp(tok[1], "chainhook")) yr_verif_chain_hook = atoi(tok[2]) ? on_chain : NULL;
      else if (!strcmp(tok[1], "atomhook")) yr_verif_atom_hook = atoi(tok[2]) ? on_atom : NULL;
      else if (!strcmp(tok[1], "achooks")) { yr_verif_atom_hook = atoi(tok[2]) ? on_atom : NULL; yr_verif_cand_hook = atoi(tok[2]) ? on_cand : NULL; }
#endif
      else if (!strcmp(tok[1], "walkmodules")) { walk_modules = atoi(tok[2]); if (walk_modules && !freopen("/dev/null", "w", stdout)) {} }
      else if (!strcmp(tok[1], "hang")) hang_seconds = atoi(tok[2]);
      else if (!strcmp(tok[1], "failat")) { yv_fail_at = atol(tok[2]); yv_alloc_count = 0; yv_faults_injected = 0; yv_fault_enabled = 1; }
      else if (!strcmp(tok[1], "failsticky")) yv_fail_sticky = atoi(tok[2]);
#ifdef YARA_VERIF
      else if (!strcmp(tok[1], "arenasize")) yr_verif_arena_initial_size = strtoull(tok[2], 0, 10);
#endif
      else if (!strcmp(tok[1], "failoff")) { yv_fault_enabled = 0; yv_fail_at = -1; yv_fail_sticky = 0; yv_faults_injected = 0; }
      else die("unknown opt %s", tok[1]);
    }
    else if (!strcmp(op, "config"))
    {
      NEED(2);
      int r;
      if (!strcmp(tok[1], "stack")) r = yr_set_configuration_uint32(YR_CONFIG_STACK_SIZE, (uint32_t) strtoul(tok[2], 0, 10));
      else if (!strcmp(tok[1], "maxstr")) r = yr_set_configuration_uint32(YR_CONFIG_MAX_STRINGS_PER_RULE, (uint32_t) strtoul(tok[2], 0, 10));
      else if (!strcmp(tok[1], "maxmatchdata")) r = yr_set_configuration_uint32(YR_CONFIG_MAX_MATCH_DATA, (uint32_t) strtoul(tok[2], 0, 10));
      else if (!strcmp(tok[1], "maxproc")) r = yr_set_configuration_uint64(YR_CONFIG_MAX_PROCESS_MEMORY_CHUNK, strtoull(tok[2], 0, 10));
      else die("unknown config %s", tok[1]);
      fprintf(out, "{\"e\":\"Config\",\"name\":\"%s\",\"val\":%s,\"ret\":%d}\n", tok[1], tok[2], r);
    }
    else if (!strcmp(op, "data"))
    {
      NEED(2);
      int d = slot(tok[1], MAXDATA);
      free(datas[d].p);
      datas[d] = unhex(tok[2]);
      /* the scanned buffer is exactly as long as the data: one byte read behind it is a heap overflow for the sanitizer
         (the terminating byte that unhex() appends for source texts would hide it) */
      if (datas[d].n > 0)
      {
        uint8_t* exact = (uint8_t*) malloc(datas[d].n);
        memcpy(exact, datas[d].p, datas[d].n);
        free(datas[d].p);
        datas[d].p = exact;
      }
    }
    else if (!strcmp(op, "datarep"))
    {
      /* datarep <did> <hex-unit> <times> : unit repeated */
      NEED(3);
      int d = slot(tok[1], MAXDATA);
      BLOB u = unhex(tok[2]);
      size_t times = strtoull(tok[3], 0, 10);
      free(datas[d].p);
      datas[d].n = u.n * times;
      datas[d].p = (uint8_t*) malloc(datas[d].n + 1);
      for (size_t i = 0; i < times; i++) memcpy(datas[d].p + i * u.n, u.p, u.n);
      free(u.p);
    }
    else if (!strcmp(op, "datacat"))
    {
      /* datacat <did> <did1> <did2> ... */
      NEED(2);
      int d = slot(tok[1], MAXDATA);
      size_t n = 0;
      for (int i = 2; i < nt; i++) n += datas[slot(tok[i], MAXDATA)].n;
      uint8_t* p = (uint8_t*) malloc(n + 1);
      size_t o = 0;
      for (int i = 2; i < nt; i++) { BLOB* b = &datas[slot(tok[i], MAXDATA)]; if (b->n) memcpy(p + o, b->p, b->n); o += b->n; }
      free(datas[d].p);
      datas[d].p = p; datas[d].n = n;
    }
    else if (!strcmp(op, "mutate"))
    {
      /* mutate <src> <dst> <off> <width> <value> <be 0|1> : copy src, overwrite width bytes at off */
      NEED(6);
      int a = slot(tok[1], MAXDATA), d = slot(tok[2], MAXDATA);
      size_t off = strtoull(tok[3], 0, 10); int width = atoi(tok[4]); unsigned long long val = strtoull(tok[5], 0, 10); int be = atoi(tok[6]);
      uint8_t* p = (uint8_t*) malloc(datas[a].n + 1);
      if (datas[a].n) memcpy(p, datas[a].p, datas[a].n);
      for (int i = 0; i < width && off + i < datas[a].n; i++) p[off + i] = (uint8_t) (val >> (8 * (be ? width - 1 - i : i)));
      free(datas[d].p); datas[d].p = p; datas[d].n = datas[a].n;
    }
    else if (!strcmp(op, "truncate"))
    {
      NEED(3);
      int a = slot(tok[1], MAXDATA), d = slot(tok[2], MAXDATA);
      size_t n = strtoull(tok[3], 0, 10);
      if (n > datas[a].n) n = datas[a].n;
      uint8_t* p = (uint8_t*) malloc(n + 1);
      if (n) memcpy(p, datas[a].p, n);
      free(datas[d].p); datas[d].p = p; datas[d].n = n;
    }
    else if (!strcmp(op, "datafile"))
    {
      NEED(2);
      int d = slot(tok[1], MAXDATA);
      FILE* f = fopen(tok[2], "rb");
      if (!f) die("cannot open %s", tok[2]);
      fseek(f, 0, SEEK_END); long n = ftell(f); fseek(f, 0, SEEK_SET);
      free(datas[d].p);
      datas[d].p = (uint8_t*) malloc(n + 1); datas[d].n = n;
      if (n && fread(datas[d].p, 1, n, f) != (size_t) n) die("short read %s", tok[2]);
      fclose(f);
    }
    else if (!strcmp(op, "compiler"))
    {
      NEED(1);
      int c = slot(tok[1], MAXSLOT);
      int r = yr_compiler_create(&compilers[c]);
      if (r == ERROR_SUCCESS) { if (!default_include) yr_compiler_set_include_callback(compilers[c], include_cb, include_free, NULL); }
      else compilers[c] = NULL;
      fprintf(out, "{\"e\":\"CompilerCreate\",\"cid\":%d,\"ret\":%d}\n", c, r);
    }
    else if (!strcmp(op, "include"))
    {
      NEED(2);
      if (n_includes >= 4096) die("too many includes");
      int found = -1;
      for (int i = 0; i < n_includes; i++) if (!strcmp(includes[i].name, tok[1])) found = i;
      if (found < 0) { found = n_includes++; includes[found].name = strdup(tok[1]); }
      else free(includes[found].content.p);
      includes[found].content = unhex(tok[2]);
    }
    else if (!strcmp(op, "qtable"))
    {
      /* qtable <c> <hex of entries (4 atom bytes + 1 quality each, sorted)> <threshold> */
      NEED(3);
      int c = slot(tok[1], MAXSLOT);
      if (compilers[c] == NULL) continue;
      BLOB t = unhex(tok[2]);
      free(qtables[c]);
      qtables[c] = t.p;
      yr_compiler_set_atom_quality_table(compilers[c], t.p, (int) (t.n / 5), (unsigned char) atoi(tok[3]));
      fprintf(out, "{\"e\":\"QTable\",\"cid\":%d,\"entries\":%d}\n", c, (int) (t.n / 5));
    }
    else if (!strcmp(op, "strict"))
    {
      NEED(2);
      int c = slot(tok[1], MAXSLOT);
      if (compilers[c]) compilers[c]->strict_escape = atoi(tok[2]) != 0;
    }
    else if (!strcmp(op, "cdefine")) { NEED(4); define_on("c", slot(tok[1], MAXSLOT), tok[2], tok[3], tok[4]); }
    else if (!strcmp(op, "rdefine")) { NEED(4); define_on("r", slot(tok[1], MAXSLOT), tok[2], tok[3], tok[4]); }
    else if (!strcmp(op, "sdefine")) { NEED(4); define_on("s", slot(tok[1], MAXSLOT), tok[2], tok[3], tok[4]); }
    else if (!strcmp(op, "add") || !strcmp(op, "addfile") || !strcmp(op, "addfd") || !strcmp(op, "addbytes"))
    {
      NEED(3);
      int c = slot(tok[1], MAXSLOT);
      const char* ns = strcmp(tok[2], "-") == 0 ? NULL : tok[2];
      if (compilers[c] == NULL)
      {
        fprintf(out, "{\"e\":\"Compile\",\"cid\":%d,\"via\":\"%s\",\"ret\":-1,\"errors\":0,\"warnings\":0,\"diag\":[],\"skipped\":\"no compiler\"}\n", c, op);
        continue;
      }
      if (compilers[c]->errors > 0)
      {
        /* adding sources after a failed compilation is an API misuse (assert in compiler.c) */
        fprintf(out, "{\"e\":\"Compile\",\"cid\":%d,\"via\":\"%s\",\"ret\":-1,\"errors\":0,\"warnings\":0,\"diag\":[],\"skipped\":\"compiler has errors\"}\n", c, op);
        continue;
      }
      BLOB src = unhex(tok[3]);
      DIAG d = {0, 0, 1, 0, compilers[c]};
      fprintf(out, "{\"e\":\"Compile\",\"cid\":%d,\"via\":\"%s\",\"ns\":", c, op);
      jcstr(ns);
      fprintf(out, ",\"srclen\":%zu,\"diag\":[", src.n);
      yr_compiler_set_callback(compilers[c], compiler_cb, &d);
      int r;
      int fds_before = count_fds();
      if (!strcmp(op, "add")) r = yr_compiler_add_string(compilers[c], (const char*) src.p, ns);
      else if (!strcmp(op, "addbytes")) r = yr_compiler_add_bytes(compilers[c], src.p, src.n, ns);
      else
      {
        char path[512];
        snprintf(path, sizeof path, "%s/src_%ld.yar", tmpdir, op_no);
        FILE* f = fopen(path, "wb"); fwrite(src.p, 1, src.n, f); fclose(f);
        if (!strcmp(op, "addfile")) { f = fopen(path, "rb"); r = yr_compiler_add_file(compilers[c], f, ns, path); fclose(f); }
        else { int fd = open(path, O_RDONLY); r = yr_compiler_add_fd(compilers[c], fd, ns, path); close(fd); }
        unlink(path);
      }
      fprintf(out, "],\"ret\":%d,\"errors\":%d,\"warnings\":%d,\"code\":%d}\n", r, d.errors, d.warnings, r > 0 ? (d.first_code ? d.first_code : compilers[c]->last_error) : 0);
      if (count_fds() != fds_before)
        fprintf(out, "{\"e\":\"FdProblem\",\"what\":\"%s left %d more open descriptors than before the call\"}\n", op, count_fds() - fds_before);
#ifdef YARA_VERIF
      if (atom_len) { fwrite(atom_buf, 1, atom_len, out); atom_len = 0; }
#endif
      free(src.p);
    }
    else if (!strcmp(op, "getrules"))
    {
      NEED(2);
      int c = slot(tok[1], MAXSLOT), rr = slot(tok[2], MAXSLOT);
      if (compilers[c] == NULL || compilers[c]->errors > 0)
      {
        /* calling get_rules after a failed compilation is an API misuse (assert in compiler.c) */
        rulesets[rr] = NULL;
        fprintf(out, "{\"e\":\"GetRules\",\"cid\":%d,\"rid\":%d,\"ret\":-1,\"skipped\":\"compiler has errors\"}\n", c, rr);
        continue;
      }
#ifdef YARA_VERIF
      yr_verif_ac_tables_hook = on_ac_tables; ac_logical = -1;
#endif
      int r = yr_compiler_get_rules(compilers[c], &rulesets[rr]);
      if (r != ERROR_SUCCESS) rulesets[rr] = NULL;
      if (r == ERROR_SUCCESS && ac_logical >= 0)
        fprintf(out, "{\"e\":\"AcTables\",\"size\":%ld,\"t\":%ld,\"m\":%ld}\n", ac_logical, ac_held_t, ac_held_m);
      fprintf(out, "{\"e\":\"GetRules\",\"cid\":%d,\"rid\":%d,\"ret\":%d", c, rr, r);
      if (r == ERROR_SUCCESS) fprintf(out, ",\"num_rules\":%u,\"num_strings\":%u", rulesets[rr]->num_rules, rulesets[rr]->num_strings);
      fputs("}\n", out);
    }
    else if (!strcmp(op, "audit"))
    {
      /* relocation audit (Arena.tla RegisteredPointersValid / AllRegistered on the real arena): every 8-byte word of every
         buffer, at every byte offset, whose value is an address inside one of the arena's buffers must be in the relocation
         list; every registered slot must hold NULL or an address inside the arena */
      NEED(1);
      int rr = slot(tok[1], MAXSLOT);
      if (!rulesets[rr]) { fprintf(out, "{\"e\":\"RelocAudit\",\"rid\":%d,\"skipped\":\"no rules\"}\n", rr); continue; }
      YR_ARENA* a = rulesets[rr]->arena;
      unsigned char* reg[YR_MAX_ARENA_BUFFERS] = {0};
      long nreloc = 0, dangling = 0, unregistered = 0, null_slots = 0, candidates = 0, outside = 0, misaligned = 0;
      char firsts[512] = ""; char firstd[512] = "";
      for (uint32_t b = 0; b < a->num_buffers; b++) reg[b] = (unsigned char*) calloc(a->buffers[b].used + 8, 1);
      for (YR_RELOC* rl = a->reloc_list_head; rl != NULL; rl = rl->next)
      {
        nreloc++;
        if (rl->buffer_id >= a->num_buffers || (size_t) rl->offset + 8 > a->buffers[rl->buffer_id].used) { outside++; continue; }
        if (rl->offset % 8 != 0) misaligned++;
        reg[rl->buffer_id][rl->offset] = 1;
        uint64_t v; memcpy(&v, a->buffers[rl->buffer_id].data + rl->offset, 8);
        if (v == 0) { null_slots++; continue; }
        int inside = 0;
        for (uint32_t k = 0; k < a->num_buffers; k++)
          if (a->buffers[k].data && v >= (uint64_t) (uintptr_t) a->buffers[k].data && v <= (uint64_t) (uintptr_t) a->buffers[k].data + a->buffers[k].used) inside = 1;
        if (!inside) { dangling++; if (strlen(firstd) < 400) sprintf(firstd + strlen(firstd), "%s[%u,%u]", firstd[0] ? "," : "", rl->buffer_id, rl->offset); }
      }
      for (uint32_t b = 0; b < a->num_buffers; b++)
      {
        if (a->buffers[b].used < 8) continue;
        for (size_t off = 0; off + 8 <= a->buffers[b].used; off++)
        {
          /* a word that overlaps a registered slot is made of parts of that pointer (and of its neighbour): it only looks like an
             address by coincidence (pointers embedded in byte code sit at any offset, so every offset is examined) */
          if (!reg[b][off])
          {
            int overlaps = 0;
            for (size_t k = (off >= 7 ? off - 7 : 0); k <= off + 7 && k < a->buffers[b].used; k++) if (reg[b][k]) overlaps = 1;
            if (overlaps) continue;
          }
          uint64_t v; memcpy(&v, a->buffers[b].data + off, 8);
          if (v < 4096) continue;
          for (uint32_t k = 0; k < a->num_buffers; k++)
            if (a->buffers[k].data && v >= (uint64_t) (uintptr_t) a->buffers[k].data && v < (uint64_t) (uintptr_t) a->buffers[k].data + a->buffers[k].used)
            {
              candidates++;
              if (!reg[b][off]) { unregistered++; if (strlen(firsts) < 400) sprintf(firsts + strlen(firsts), "%s[%u,%zu,%u]", firsts[0] ? "," : "", b, off, k); }
              break;
            }
        }
      }
      for (uint32_t b = 0; b < a->num_buffers; b++) free(reg[b]);
      /* the two tables of the automaton have one entry per slot: same number of entries, and every transition leads to a slot
         inside both (what lies beyond the used part of a buffer is not saved) */
      long ac_t = -1, ac_m = -1, ac_bad = 0;
      if (a->num_buffers > YR_AC_STATE_MATCHES_TABLE)
      {
        ac_t = (long) (a->buffers[YR_AC_TRANSITION_TABLE].used / sizeof(YR_AC_TRANSITION));
        ac_m = (long) (a->buffers[YR_AC_STATE_MATCHES_TABLE].used / sizeof(uint32_t));
        YR_AC_TRANSITION* tt = (YR_AC_TRANSITION*) a->buffers[YR_AC_TRANSITION_TABLE].data;
        for (long i = 0; i < ac_t; i++)
          if (tt[i] != 0 && ((long) YR_AC_NEXT_STATE(tt[i]) >= ac_t || (long) YR_AC_NEXT_STATE(tt[i]) >= ac_m)) ac_bad++;
      }
      fprintf(out, "{\"e\":\"RelocAudit\",\"ac_t\":%ld,\"ac_m\":%ld,\"ac_bad\":%ld,\"rid\":%d,\"relocs\":%ld,\"null\":%ld,\"pointers\":%ld,\"unregistered\":%ld,\"dangling\":%ld,\"outside\":%ld,\"misaligned_slots\":%ld,\"first_unregistered\":[%s],\"first_dangling\":[%s]}\n",
              ac_t, ac_m, ac_bad, rr, nreloc, null_slots, candidates, unregistered, dangling, outside, misaligned, firsts, firstd);
    }
    else if (!strcmp(op, "rdisable"))
    {
      /* rdisable <rules> <rule index>: yr_rule_disable on the rule with that index of the compiled rules */
      NEED(2);
      YR_RULES* rs = rulesets[slot(tok[1], MAXSLOT)];
      int ri = atoi(tok[2]);
      if (rs && ri >= 0 && ri < (int) rs->num_rules) yr_rule_disable(&rs->rules_table[ri]);
    }
    else if (!strcmp(op, "rinfo")) { NEED(1); if (rulesets[slot(tok[1], MAXSLOT)]) log_rules_info(slot(tok[1], MAXSLOT)); }
    else if (!strcmp(op, "cdestroy"))
    {
      NEED(1);
      int c = slot(tok[1], MAXSLOT);
      if (compilers[c]) yr_compiler_destroy(compilers[c]);
      compilers[c] = NULL;
      free(qtables[c]);
      qtables[c] = NULL;
      fprintf(out, "{\"e\":\"CompilerDestroy\",\"cid\":%d}\n", c);
    }
    else if (!strcmp(op, "save") || !strcmp(op, "savestream"))
    {
      NEED(2);
      int rr = slot(tok[1], MAXSLOT);
      int r;
      if (!rulesets[rr]) { fprintf(out, "{\"e\":\"Save\",\"rid\":%d,\"ret\":-1,\"skipped\":\"no rules\"}\n", rr); continue; }
      if (!strcmp(op, "save")) r = yr_rules_save(rulesets[rr], tok[2]);
      else
      {
        STRM s = {fopen(tok[2], "wb"), 0, 0, nt > 3 ? strtoull(tok[3], 0, 10) : 0, 0, nt > 4 ? atol(tok[4]) : 0, 0};
        YR_STREAM st; st.user_data = &s; st.write = strm_write; st.read = NULL;
        r = yr_rules_save_stream(rulesets[rr], &st);
        fclose(s.f);
      }
      struct stat sb; long sz = stat(tok[2], &sb) == 0 ? (long) sb.st_size : -1;
      fprintf(out, "{\"e\":\"Save\",\"rid\":%d,\"via\":\"%s\",\"ret\":%d,\"len\":%ld}\n", rr, op, r, sz);
    }
    else if (!strcmp(op, "load") || !strcmp(op, "loadstream"))
    {
      NEED(2);
      int rr = slot(tok[1], MAXSLOT);
      int r;
      if (access(tok[2], R_OK) != 0) { fprintf(out, "{\"e\":\"Load\",\"rid\":%d,\"ret\":-1,\"skipped\":\"no file\"}\n", rr); continue; }
      if (!strcmp(op, "load")) r = yr_rules_load(tok[2], &rulesets[rr]);
      else
      {
        STRM s = {fopen(tok[2], "rb"), 0, 1, 0, 0};
        if (!s.f) die("cannot open %s", tok[2]);
        YR_STREAM st; st.user_data = &s; st.read = strm_read; st.write = NULL;
        r = yr_rules_load_stream(&st, &rulesets[rr]);
        fclose(s.f);
      }
      if (r != ERROR_SUCCESS) rulesets[rr] = NULL;
      fprintf(out, "{\"e\":\"Load\",\"rid\":%d,\"via\":\"%s\",\"ret\":%d", rr, op, r);
      if (r == ERROR_SUCCESS) fprintf(out, ",\"num_rules\":%u,\"num_strings\":%u", rulesets[rr]->num_rules, rulesets[rr]->num_strings);
      fputs("}\n", out);
    }
    else if (!strcmp(op, "loadstream2"))
    {
      /* loadstream2 <r1> <r2> <path>: two rule sets read one after the other from ONE stream that holds two images back to back
         (a loader must consume exactly its own image) */
      NEED(3);
      int r1 = slot(tok[1], MAXSLOT), r2 = slot(tok[2], MAXSLOT);
      STRM s = {fopen(tok[3], "rb"), 0, 1, 0, 0};
      if (!s.f) die("cannot open %s", tok[3]);
      YR_STREAM st; st.user_data = &s; st.read = strm_read; st.write = NULL;
      int a = yr_rules_load_stream(&st, &rulesets[r1]);
      long pos1 = ftell(s.f);
      if (a != ERROR_SUCCESS) rulesets[r1] = NULL;
      int b = yr_rules_load_stream(&st, &rulesets[r2]);
      if (b != ERROR_SUCCESS) rulesets[r2] = NULL;
      fclose(s.f);
      fprintf(out, "{\"e\":\"Load2\",\"ret1\":%d,\"pos1\":%ld,\"ret2\":%d}\n", a, pos1, b);
    }
    else if (!strcmp(op, "prefixsweep") || !strcmp(op, "corrupt"))
    {
      /* prefixsweep <path> <lo> <hi> <chunked 0|1>      : load every prefix n in [lo, hi) of the file
         corrupt <path> <off> <width> <value> <chunked> : overwrite <width> bytes at <off> (little endian) and load */
      NEED(4);
      fflush(out);
      FILE* f = fopen(tok[1], "rb");
      if (!f) die("cannot open %s", tok[1]);
      fseek(f, 0, SEEK_END); long L = ftell(f); fseek(f, 0, SEEK_SET);
      uint8_t* img = (uint8_t*) malloc(L + 16);
      if (L && fread(img, 1, L, f) != (size_t) L) die("short read");
      fclose(f);
      char path[512];
      snprintf(path, sizeof path, "%s/prefix.bin", tmpdir);
      int is_sweep = !strcmp(op, "prefixsweep");
      long lo = is_sweep ? atol(tok[2]) : 0, hi = is_sweep ? atol(tok[3]) : 1;
      int chunked = atoi(tok[is_sweep ? 4 : 5]);
      if (!is_sweep)
      {
        long off = atol(tok[2]); int width = atoi(tok[3]); unsigned long long val = strtoull(tok[4], 0, 10);
        for (int i = 0; i < width && off + i < L; i++) img[off + i] = (uint8_t) (val >> (8 * i));
        fprintf(out, "{\"e\":\"Corrupt\",\"off\":%ld,\"width\":%d,\"val\":%llu,\"len\":%ld,\"rets\":[", off, width, val, L);
      }
      else
        fprintf(out, "{\"e\":\"PrefixSweep\",\"lo\":%ld,\"hi\":%ld,\"len\":%ld,\"rets\":[", lo, hi, L);
      for (long n = lo; n < hi; n++)
      {
        long plen = is_sweep ? n : L;
        FILE* w = fopen(path, "wb");
        if (plen) fwrite(img, 1, plen, w);
        fclose(w);
        YR_RULES* rl = NULL;
        int r;
        alarm(hang_seconds);
        if (!chunked) r = yr_rules_load(path, &rl);
        else
        {
          STRM st = {fopen(path, "rb"), 0, 1, 0, 0};
          YR_STREAM ys; ys.user_data = &st; ys.read = strm_read; ys.write = NULL;
          r = yr_rules_load_stream(&ys, &rl);
          fclose(st.f);
        }
        int scanret = -1;
        if (r == ERROR_SUCCESS && rl != NULL)
        {
          /* characterise a load that should not have succeeded: scan a small buffer under the sanitizer */
          CBCTX cb; memset(&cb, 0, sizeof cb); cb.quiet_nomatch = 1; cb.sid = 99;
          FILE* keep = out; out = fopen("/dev/null", "w");
          scanret = yr_rules_scan_mem(rl, (const uint8_t*) "MK1;..MK2;#1#+2+abc", 19, 0, scan_cb, &cb, 5);
          fclose(out); out = keep;
          yr_rules_destroy(rl);
        }
        fprintf(out, "%s[%d,%d]", n == lo ? "" : ",", r, scanret);
      }
      fputs("]}\n", out);
      unlink(path);
      free(img);
    }
    else if (!strcmp(op, "rdestroy"))
    {
      NEED(1);
      int rr = slot(tok[1], MAXSLOT);
      int r = rulesets[rr] ? yr_rules_destroy(rulesets[rr]) : -1;
      rulesets[rr] = NULL;
      fprintf(out, "{\"e\":\"RulesDestroy\",\"rid\":%d,\"ret\":%d}\n", rr, r);
    }
    else if (!strcmp(op, "scanner"))
    {
      NEED(2);
      int s = slot(tok[1], MAXSLOT), rr = slot(tok[2], MAXSLOT);
      if (rulesets[rr] == NULL)
      {
        scanners[s] = NULL;
        fprintf(out, "{\"e\":\"ScannerCreate\",\"sid\":%d,\"rid\":%d,\"ret\":-1,\"skipped\":\"no rules\"}\n", s, rr);
        continue;
      }
      int r = yr_scanner_create(rulesets[rr], &scanners[s]);
      if (r != ERROR_SUCCESS) scanners[s] = NULL; else user_flags[s] = scanners[s]->flags;
      fprintf(out, "{\"e\":\"ScannerCreate\",\"sid\":%d,\"rid\":%d,\"ret\":%d}\n", s, rr, r);
    }
    else if (!strcmp(op, "sflags"))
    {
      NEED(2);
      int s = slot(tok[1], MAXSLOT);
      if (!scanners[s]) continue;
      yr_scanner_set_flags(scanners[s], atoi(tok[2]));
      user_flags[s] = scanners[s]->flags;
      fprintf(out, "{\"e\":\"SetFlags\",\"sid\":%d,\"flags\":%d,\"eff\":%d}\n", s, atoi(tok[2]), scanners[s]->flags);
    }
    else if (!strcmp(op, "stimeout"))
    {
      NEED(2);
      int s = slot(tok[1], MAXSLOT);
      if (!scanners[s]) continue;
      yr_scanner_set_timeout(scanners[s], atoi(tok[2]));
      fprintf(out, "{\"e\":\"SetTimeout\",\"sid\":%d,\"sec\":%d}\n", s, atoi(tok[2]));
    }
    else if (!strcmp(op, "stimeoutns"))
    {
      NEED(2);
      int s = slot(tok[1], MAXSLOT);
      if (!scanners[s]) continue;
      scanners[s]->timeout = strtoull(tok[2], 0, 10);
      fprintf(out, "{\"e\":\"SetTimeout\",\"sid\":%d,\"ns\":%s}\n", s, tok[2]);
    }
    else if (!strcmp(op, "sdestroy"))
    {
      NEED(1);
      int s = slot(tok[1], MAXSLOT);
      if (scanners[s]) yr_scanner_destroy(scanners[s]);
      scanners[s] = NULL;
      free(abandoned_it[s]); abandoned_it[s] = NULL;
      fprintf(out, "{\"e\":\"ScannerDestroy\",\"sid\":%d}\n", s);
    }
    else if (!strcmp(op, "scan"))
    {
      /* scan <s> <did> <mode> <blocks> <nr> <plan> [maxcalls] [tag]
         mode: mem | file | fd | blocks | blocksnofs (iterator without file_size) */
      NEED(6);
      int s = slot(tok[1], MAXSLOT), d = slot(tok[2], MAXDATA);
      const char* mode = tok[3];
      int maxcalls = nt > 7 ? atoi(tok[7]) : 100;
      const char* tag = nt > 8 ? tok[8] : "-";
      YR_SCANNER* sc = scanners[s];
      if (!sc)
      {
        fprintf(out, "{\"e\":\"ScanCall\",\"sid\":%d,\"did\":%d,\"skipped\":\"no scanner\"}\n{\"e\":\"ScanRet\",\"sid\":%d,\"ret\":-1,\"skipped\":\"no scanner\"}\n", s, d, s);
        continue;
      }
      CBCTX cb; memset(&cb, 0, sizeof cb);
      cb.sid = s; cb.log_matches = default_log_matches; cb.quiet_nomatch = default_quiet; cb.walk_modules = walk_modules;
      parse_plan(tok[6], &cb);
      yr_scanner_set_callback(sc, scan_cb, &cb);
      fprintf(out, "{\"e\":\"ScanCall\",\"sid\":%d,\"did\":%d,\"len\":%zu,\"mode\":\"%s\",\"blocks\":\"%s\",\"nr\":\"%s\",\"plan\":\"%s\",\"flags\":%d,\"tag\":\"%s\"}\n",
              s, d, datas[d].n, mode, tok[4], tok[5], tok[6], sc->flags, tag);
      if (flush_scan) fflush(out);
      int r = -1, calls = 0;
      int scan_fds_before = count_fds();
      struct timespec t0, t1;
      clock_gettime(CLOCK_MONOTONIC, &t0);
      if (!strcmp(mode, "mem")) { r = yr_scanner_scan_mem(sc, datas[d].p, datas[d].n); calls = 1; }
      else if (!strcmp(mode, "file")) { r = yr_scanner_scan_file(sc, data_to_file(d)); calls = 1; }
      else if (!strcmp(mode, "proc"))
      {
        /* the memory of a child process (a copy of this one, waiting): what it contains is not modelled - the scan is there
           for what it leaves behind in the scanner */
        pid_t pid = fork();
        if (pid == 0) { for (;;) pause(); }
        r = pid > 0 ? yr_scanner_scan_proc(sc, pid) : -1; calls = 1;
        if (pid > 0) { kill(pid, SIGKILL); waitpid(pid, NULL, 0); }
      }
      else if (!strcmp(mode, "fd"))
      {
        int fd = open(data_to_file(d), O_RDONLY);
        r = yr_scanner_scan_fd(sc, fd); calls = 1;
        if (fcntl(fd, F_GETFD) == -1 || close(fd) != 0)
          fprintf(out, "{\"e\":\"FdProblem\",\"what\":\"yr_scanner_scan_fd closed the caller's descriptor\"}\n");
      }
      else
      {
        ITCTX ic; memset(&ic, 0, sizeof ic);
        ic.data = datas[d].p; ic.n = datas[d].n; ic.sid = s; ic.log = iter_log;
        parse_blocks(tok[4], &ic);
        parse_longs(tok[5], ic.nr, &ic.nnr, 64);
        ic.fsize = datas[d].n;
        /* the iterator handle lives on the heap; with `opt freshit 1` every repeated call is given a NEW handle for the same
           source (contents carried over, the old one released), as a caller that builds the structure per call would */
        YR_MEMORY_BLOCK_ITERATOR* old_it = abandoned_it[s]; abandoned_it[s] = NULL;
        YR_MEMORY_BLOCK_ITERATOR* itp = (YR_MEMORY_BLOCK_ITERATOR*) malloc(sizeof(YR_MEMORY_BLOCK_ITERATOR));
        itp->context = &ic; itp->first = it_first; itp->next = it_next;
        itp->file_size = strcmp(mode, "blocksnofs") == 0 ? NULL : it_fsize;
        itp->last_error = ERROR_SUCCESS;
        do
        {
          if (calls > 0) fprintf(out, "{\"e\":\"ScanResume\",\"sid\":%d,\"call\":%d}\n", s, calls + 1);
          if (calls > 0 && fresh_iterator)
          {
            YR_MEMORY_BLOCK_ITERATOR* n = (YR_MEMORY_BLOCK_ITERATOR*) malloc(sizeof(YR_MEMORY_BLOCK_ITERATOR));
            *n = *itp; free(itp); itp = n;
          }
          r = yr_scanner_scan_mem_blocks(sc, itp);
          calls++;
          if (r == ERROR_BLOCK_NOT_READY)
          {
            fprintf(out, "{\"e\":\"ScanSuspend\",\"sid\":%d,\"call\":%d,", s, calls);
            log_resid(sc);
            fputs("}\n", out);
          }
        } while (r == ERROR_BLOCK_NOT_READY && calls < maxcalls);
        free(old_it);
        /* the handle of a suspended scan stays alive until the next scan call on this scanner / its destruction */
        if (r != ERROR_BLOCK_NOT_READY) free(itp); else abandoned_it[s] = itp;
      }
      clock_gettime(CLOCK_MONOTONIC, &t1);
      if (count_fds() != scan_fds_before)
        fprintf(out, "{\"e\":\"FdProblem\",\"what\":\"a %s scan left %d more open descriptors than before the call\"}\n", mode, count_fds() - scan_fds_before);
      fprintf(out, "{\"e\":\"ScanRet\",\"sid\":%d,\"ret\":%d,\"calls\":%d,\"ncb\":%d,\"ms\":%ld,\"entry_point\":", s, r, calls, cb.cb_count,
              (long) ((t1.tv_sec - t0.tv_sec) * 1000 + (t1.tv_nsec - t0.tv_nsec) / 1000000));
      j_u64_or_undef(sc->entry_point);
      fputs(",\"file_size\":", out);
      j_u64_or_undef(sc->file_size);
      fputc(',', out);
      log_resid(sc);
      fputs("}\n", out);
      yr_scanner_set_callback(sc, NULL, NULL);
    }
    else if (!strcmp(op, "rscan"))
    {
      /* rscan <r> <did> <mode> <flags> <timeout> <plan>   (rules-level convenience API) */
      NEED(6);
      int rr = slot(tok[1], MAXSLOT), d = slot(tok[2], MAXDATA);
      const char* mode = tok[3];
      int flags = atoi(tok[4]), timeout = atoi(tok[5]);
      CBCTX cb; memset(&cb, 0, sizeof cb);
      cb.sid = 100 + rr; cb.log_matches = default_log_matches; cb.quiet_nomatch = default_quiet;
      parse_plan(tok[6], &cb);
      fprintf(out, "{\"e\":\"ScanCall\",\"sid\":%d,\"did\":%d,\"len\":%zu,\"mode\":\"r%s\",\"blocks\":\"-\",\"nr\":\"-\",\"plan\":\"%s\",\"flags\":%d,\"tag\":\"-\"}\n",
              100 + rr, d, datas[d].n, mode, tok[6], flags);
      int r = -1;
      if (!strcmp(mode, "mem")) r = yr_rules_scan_mem(rulesets[rr], datas[d].p, datas[d].n, flags, scan_cb, &cb, timeout);
      else if (!strcmp(mode, "file")) r = yr_rules_scan_file(rulesets[rr], data_to_file(d), flags, scan_cb, &cb, timeout);
      else if (!strcmp(mode, "fd"))
      {
        int fd = open(data_to_file(d), O_RDONLY);
        r = yr_rules_scan_fd(rulesets[rr], fd, flags, scan_cb, &cb, timeout);
        if (fcntl(fd, F_GETFD) == -1 || close(fd) != 0)
          fprintf(out, "{\"e\":\"FdProblem\",\"what\":\"yr_rules_scan_fd closed the caller's descriptor\"}\n");
      }
      else die("bad rscan mode %s", mode);
      fprintf(out, "{\"e\":\"ScanRet\",\"sid\":%d,\"ret\":%d,\"calls\":1,\"ncb\":%d}\n", 100 + rr, r, cb.cb_count);
    }
    else if (!strcmp(op, "leakcheck"))
    {
      /* live heap bytes once the driver's own blobs are released: must return to the value of the previous check */
      size_t bytes = 0;
      for (int i = 0; i < MAXDATA; i++) { free(datas[i].p); datas[i].p = NULL; datas[i].n = 0; }
      for (int i = 0; i < n_includes; i++) { free(includes[i].name); free(includes[i].content.p); }
      n_includes = 0;
#if defined(__has_feature)
#if __has_feature(address_sanitizer)
      bytes = __sanitizer_get_current_allocated_bytes();
#endif
#endif
      fprintf(out, "{\"e\":\"LeakCheck\",\"bytes\":%zu}\n", bytes);
    }
    else if (!strcmp(op, "rmfile")) { NEED(1); unlink(tok[1]); }
    else if (!strcmp(op, "sleepms")) { NEED(1); struct timespec ts = {atol(tok[1]) / 1000, (atol(tok[1]) % 1000) * 1000000L}; nanosleep(&ts, NULL); }
    else if (!strcmp(op, "reset")) { fputs("{\"e\":\"Reset\"}\n", out); }
    else if (!strcmp(op, "note")) { NEED(1); fputs("{\"e\":\"Note\",\"text\":", out); jcstr(tok[1]); fputs("}\n", out); fflush(out); }
    else if (!strcmp(op, "allocs")) { fprintf(out, "{\"e\":\"Allocs\",\"count\":%ld,\"injected\":%ld}\n", yv_alloc_count, yv_faults_injected); }
    else die("unknown op %s", op);
    alarm(0);
    if (yv_faults_injected != faults_before)
    {
      fprintf(out, "{\"e\":\"Fault\",\"during\":\"%s\",\"k\":%ld,\"injected\":%ld,\"stack\":", op, yv_fail_at, yv_faults_injected - faults_before);
      jcstr(yv_fault_stack);
      fputs("}\n", out);
    }
  }
  fputs("{\"e\":\"End\"}\n", out);
  fflush(out);
  return 0;
}
