/*
 * yvmt - multi-threaded libyara driver (C09).
 *
 * usage: yvmt <plan-file> <out-dir>
 * plan file (text):
 *   rules <hex source> [ext definitions are: "ext <t> <id> <val>" lines before]
 *   data <id> <hex> | datafile <id> <path>
 *   thread <tid> <n-ops> followed by n-ops lines:
 *        scan <did> <mode:mem|file|fd|rmem> <plan> <timeout_s> <repeat>
 *        sdefine <t> <id> <val>
 *   go
 * Every thread owns a scanner over the SHARED rule set and writes its events (same vocabulary as yvdrive) into its own
 * memory buffer, dumped to <out-dir>/thread_<tid>.ndjson at the end.  Hook H5 events (YR_TRYCATCH use count) are
 * recorded in a global array in the order in which the library emits them under its mutex -> <out-dir>/hook.ndjson.
 */
#include <yara.h>
#include <yara/globals.h>

#include <fcntl.h>
#include <pthread.h>
#include <signal.h>
#include <stdarg.h>
#include <sys/mman.h>
#include <signal.h>
#include <stdio.h>
#include <stdlib.h>
#include <string.h>
#include <unistd.h>

#define MAXT 64
#define MAXOPS 256
#define MAXDATA 64

typedef struct { uint8_t* p; size_t n; char path[512]; } BLOB;
typedef struct { char kind; int did; char mode[8]; char plan[64]; int timeout; int repeat; char ty; char id[64]; char val[256]; } OP;
typedef struct { int tid; int nops; OP ops[MAXOPS]; char* buf; size_t len, cap; int cb_count; int nplan; int plan_k[8]; int plan_r[8]; } THR;

static BLOB datas[MAXDATA];
static THR thr[MAXT];
static int nthr = 0;
static YR_RULES* rules;
static pthread_barrier_t barrier;

#ifdef YARA_VERIF
extern void (*yr_verif_trycatch_hook)(int kind, int usecount);
#endif
static struct { int kind, usecount, installed; } hook_ev[1 << 20];
static int n_hook = 0;

static void* main_thread_disposition = NULL;   /* SIGBUS disposition before any scan */

static void on_trycatch(int kind, int usecount)
{
  /* called with exception_handler_mutex held: the order of calls is the order of the critical sections */
  static void* baseline = NULL; static int have_baseline = 0;
  struct sigaction cur;
  sigaction(SIGBUS, NULL, &cur);
  /* the disposition seen when the count is back to 0 (or before the first enter) is the baseline (under a sanitizer it is
     the sanitizer's own handler, not SIG_DFL); "installed" = the current disposition differs from the baseline */
  if (!have_baseline) { baseline = main_thread_disposition; have_baseline = 1; }
  int installed = (void*) cur.sa_sigaction != baseline;
  if (n_hook < (1 << 20)) { hook_ev[n_hook].kind = kind; hook_ev[n_hook].usecount = usecount; hook_ev[n_hook].installed = installed; n_hook++; }
}

static void emit(THR* t, const char* fmt, ...)
{
  va_list ap;
  if (t->cap - t->len < 4096) { t->cap = t->cap ? t->cap * 2 : (1 << 16); t->buf = (char*) realloc(t->buf, t->cap); }
  va_start(ap, fmt);
  int n = vsnprintf(t->buf + t->len, t->cap - t->len, fmt, ap);
  va_end(ap);
  if (n > 0 && (size_t) n < t->cap - t->len) t->len += n;
}

static int hexv(int c) { return c >= '0' && c <= '9' ? c - '0' : ((c | 32) - 'a' + 10); }
static BLOB unhex(const char* s)
{
  BLOB b; memset(&b, 0, sizeof b);
  if (!strcmp(s, "-")) { b.p = (uint8_t*) calloc(1, 1); return b; }
  size_t n = strlen(s) / 2;
  b.p = (uint8_t*) malloc(n + 1);
  for (size_t i = 0; i < n; i++) b.p[i] = (uint8_t) (hexv(s[2 * i]) * 16 + hexv(s[2 * i + 1]));
  b.p[n] = 0; b.n = n;
  return b;
}

static const char* msgname(int m)
{
  switch (m) { case 1: return "match"; case 2: return "nomatch"; case 3: return "finished"; case 4: return "import"; case 5: return "imported";
               case 6: return "toomany"; case 7: return "log"; case 8: return "tooslow"; }
  return "unknown";
}

static int scan_cb(YR_SCAN_CONTEXT* ctx, int message, void* data, void* ud)
{
  THR* t = (THR*) ud;
  int k = t->cb_count++;
  int reply = CALLBACK_CONTINUE;
  for (int i = 0; i < t->nplan; i++) if (t->plan_k[i] == k) reply = t->plan_r[i];
  const char* rn = reply == 0 ? "continue" : reply == 1 ? "abort" : "error";
  if (message == CALLBACK_MSG_RULE_MATCHING || message == CALLBACK_MSG_RULE_NOT_MATCHING)
  {
    YR_RULE* r = (YR_RULE*) data;
    emit(t, "{\"e\":\"Cb\",\"msg\":\"%s\",\"ri\":%d,\"rule\":\"%s\",\"reply\":\"%s\"}\n", msgname(message), (int) (r - ctx->rules->rules_table), r->identifier, rn);
  }
  else if (message == CALLBACK_MSG_IMPORT_MODULE)
    emit(t, "{\"e\":\"Cb\",\"msg\":\"import\",\"mod\":\"%s\",\"reply\":\"%s\"}\n", ((YR_MODULE_IMPORT*) data)->module_name, rn);
  else if (message == CALLBACK_MSG_MODULE_IMPORTED)
    emit(t, "{\"e\":\"Cb\",\"msg\":\"imported\",\"mod\":\"%s\",\"reply\":\"%s\"}\n", ((YR_OBJECT*) data)->identifier, rn);
  else if (message == CALLBACK_MSG_TOO_MANY_MATCHES)
    emit(t, "{\"e\":\"Cb\",\"msg\":\"toomany\",\"ri\":%d,\"reply\":\"%s\"}\n", (int) ((YR_STRING*) data)->rule_idx, rn);
  else
    emit(t, "{\"e\":\"Cb\",\"msg\":\"%s\",\"reply\":\"%s\"}\n", msgname(message), rn);
  return reply;
}

static void parse_plan(THR* t, const char* s)
{
  t->nplan = 0;
  if (!strcmp(s, "-")) return;
  char tmp[64]; strncpy(tmp, s, 63); tmp[63] = 0;
  for (char* p = strtok(tmp, ","); p && t->nplan < 8; p = strtok(NULL, ","))
  {
    char* c = strchr(p, ':');
    if (!c) continue;
    t->plan_k[t->nplan] = atoi(p);
    t->plan_r[t->nplan] = c[1] == 'a' ? CALLBACK_ABORT : c[1] == 'e' ? CALLBACK_ERROR : CALLBACK_CONTINUE;
    t->nplan++;
  }
}

static void* worker(void* arg)
{
  THR* t = (THR*) arg;
  YR_SCANNER* sc = NULL;
  int r = yr_scanner_create(rules, &sc);
  emit(t, "{\"e\":\"ScannerCreate\",\"ret\":%d}\n", r);
  pthread_barrier_wait(&barrier);
  if (r != ERROR_SUCCESS) return NULL;
  yr_scanner_set_callback(sc, scan_cb, t);
  for (int i = 0; i < t->nops; i++)
  {
    OP* o = &t->ops[i];
    if (o->kind == 'd')
    {
      int rr = o->ty == 'i' ? yr_scanner_define_integer_variable(sc, o->id, atoll(o->val))
             : o->ty == 'b' ? yr_scanner_define_boolean_variable(sc, o->id, atoi(o->val))
             : o->ty == 'f' ? yr_scanner_define_float_variable(sc, o->id, atof(o->val))
             : yr_scanner_define_string_variable(sc, o->id, o->val);
      emit(t, "{\"e\":\"SDefine\",\"id\":\"%s\",\"ty\":\"%c\",\"val\":\"%s\",\"ret\":%d}\n", o->id, o->ty, o->val, rr);
      continue;
    }
    for (int rep = 0; rep < o->repeat; rep++)
    {
      t->cb_count = 0;
      parse_plan(t, o->plan);
      yr_scanner_set_timeout(sc, o->timeout);
      emit(t, "{\"e\":\"ScanCall\",\"did\":%d,\"mode\":\"%s\",\"plan\":\"%s\",\"timeout\":%d}\n", o->did, o->mode, o->plan, o->timeout);
      int ret;
      if (!strcmp(o->mode, "mem")) ret = yr_scanner_scan_mem(sc, datas[o->did].p, datas[o->did].n);
      else if (!strcmp(o->mode, "file")) ret = yr_scanner_scan_file(sc, datas[o->did].path);
      else if (!strcmp(o->mode, "fd"))
      {
        /* the descriptor belongs to the caller: it must still be open after the scan (a scan that closes it lets another
           thread's open() reuse the number while this thread still uses it) */
        int fd = open(datas[o->did].path, O_RDONLY);
        ret = yr_scanner_scan_fd(sc, fd);
        int alive = fcntl(fd, F_GETFD) != -1;
        int cr = close(fd);
        if (!alive || cr != 0) emit(t, "{\"e\":\"FdLost\",\"alive\":%d,\"close\":%d}\n", alive, cr);
      }
      else if (!strcmp(o->mode, "bus"))
      {
        /* a scan that takes a memory fault: a private file of two pages is mapped, then cut to one page; reading the second
           page raises SIGBUS inside the scan, which must end with ERROR_COULD_NOT_MAP_FILE and leave the calling thread's
           signal mask as it was (SigHandler.tla, Fault) */
        long ps = sysconf(_SC_PAGESIZE);
        char path[600];
        snprintf(path, sizeof path, "%s.bus.%lx", datas[o->did].path, (unsigned long) pthread_self());
        int fd = open(path, O_RDWR | O_CREAT | O_TRUNC, 0600);
        ret = -1;
        if (fd >= 0 && ftruncate(fd, 2 * ps) == 0)
        {
          if (pwrite(fd, datas[o->did].p, datas[o->did].n < (size_t) ps ? datas[o->did].n : (size_t) ps, 0) < 0) {}
          void* m = mmap(NULL, 2 * ps, PROT_READ, MAP_SHARED, fd, 0);
          if (m != MAP_FAILED && ftruncate(fd, ps) == 0)
          {
            sigset_t before, after;
            pthread_sigmask(SIG_SETMASK, NULL, &before);
            ret = yr_scanner_scan_mem(sc, (const uint8_t*) m, 2 * ps);
            pthread_sigmask(SIG_SETMASK, NULL, &after);
            int changed = 0;
            for (int sg = 1; sg < 32; sg++) if (sigismember(&before, sg) != sigismember(&after, sg)) changed++;
            emit(t, "{\"e\":\"BusScan\",\"ret\":%d,\"mask_changed\":%s}\n", ret, changed ? "true" : "false");
            munmap(m, 2 * ps);
          }
        }
        if (fd >= 0) close(fd);
        unlink(path);
      }
      else ret = yr_rules_scan_mem(rules, datas[o->did].p, datas[o->did].n, 0, scan_cb, t, o->timeout);
      emit(t, "{\"e\":\"ScanRet\",\"ret\":%d,\"ncb\":%d}\n", ret, t->cb_count);
    }
  }
  yr_scanner_destroy(sc);
  return NULL;
}

int main(int argc, char** argv)
{
  if (argc < 3) { fprintf(stderr, "usage: yvmt plan outdir\n"); return 4; }
  FILE* in = fopen(argv[1], "r");
  if (!in) { perror(argv[1]); return 4; }
  yr_initialize();
  { struct sigaction cur; sigaction(SIGBUS, NULL, &cur); main_thread_disposition = (void*) cur.sa_sigaction; }
#ifdef YARA_VERIF
  yr_verif_trycatch_hook = on_trycatch;
#endif
  YR_COMPILER* comp = NULL;
  yr_compiler_create(&comp);
  size_t cap = 64u << 20; char* line = (char*) malloc(cap); ssize_t len;
  THR* cur = NULL;
  while ((len = getline(&line, &cap, in)) > 0)
  {
    while (len > 0 && (line[len - 1] == '\n' || line[len - 1] == '\r')) line[--len] = 0;
    char* tok[16]; int nt = 0;
    for (char* p = strtok(line, " "); p && nt < 16; p = strtok(NULL, " ")) tok[nt++] = p;
    if (!nt) continue;
    if (!strcmp(tok[0], "ext") && nt >= 4)
    {
      if (tok[1][0] == 'i') yr_compiler_define_integer_variable(comp, tok[2], atoll(tok[3]));
      else if (tok[1][0] == 'b') yr_compiler_define_boolean_variable(comp, tok[2], atoi(tok[3]));
      else if (tok[1][0] == 'f') yr_compiler_define_float_variable(comp, tok[2], atof(tok[3]));
      else yr_compiler_define_string_variable(comp, tok[2], tok[3]);
    }
    else if (!strcmp(tok[0], "rules") && nt >= 3)
    {
      BLOB s = unhex(tok[2]);
      int e = yr_compiler_add_string(comp, (char*) s.p, strcmp(tok[1], "-") ? tok[1] : NULL);
      if (e) { fprintf(stderr, "yvmt: rules do not compile (%d errors)\n", e); return 4; }
      free(s.p);
    }
    else if (!strcmp(tok[0], "data") && nt >= 3)
    {
      int d = atoi(tok[1]);
      datas[d] = unhex(tok[2]);
      snprintf(datas[d].path, sizeof datas[d].path, "%s/data_%d.bin", argv[2], d);
      FILE* f = fopen(datas[d].path, "wb"); if (datas[d].n) fwrite(datas[d].p, 1, datas[d].n, f); fclose(f);
    }
    else if (!strcmp(tok[0], "datarep") && nt >= 4)
    {
      int d = atoi(tok[1]); BLOB u = unhex(tok[2]); size_t times = strtoull(tok[3], 0, 10);
      datas[d].n = u.n * times; datas[d].p = (uint8_t*) malloc(datas[d].n + 1);
      for (size_t i = 0; i < times; i++) memcpy(datas[d].p + i * u.n, u.p, u.n);
      snprintf(datas[d].path, sizeof datas[d].path, "%s/data_%d.bin", argv[2], d);
      FILE* f = fopen(datas[d].path, "wb"); fwrite(datas[d].p, 1, datas[d].n, f); fclose(f);
    }
    else if (!strcmp(tok[0], "thread") && nt >= 2) { cur = &thr[nthr++]; memset(cur, 0, sizeof *cur); cur->tid = atoi(tok[1]); }
    else if (!strcmp(tok[0], "scan") && cur && nt >= 6)
    {
      OP* o = &cur->ops[cur->nops++]; memset(o, 0, sizeof *o);
      o->kind = 's'; o->did = atoi(tok[1]); strncpy(o->mode, tok[2], 7); strncpy(o->plan, tok[3], 63); o->timeout = atoi(tok[4]); o->repeat = atoi(tok[5]);
    }
    else if (!strcmp(tok[0], "sdefine") && cur && nt >= 4)
    {
      OP* o = &cur->ops[cur->nops++]; memset(o, 0, sizeof *o);
      o->kind = 'd'; o->ty = tok[1][0]; strncpy(o->id, tok[2], 63); strncpy(o->val, tok[3], 255);
    }
    else if (!strcmp(tok[0], "go")) break;
  }
  if (yr_compiler_get_rules(comp, &rules) != ERROR_SUCCESS) { fprintf(stderr, "yvmt: get_rules failed\n"); return 4; }
  yr_compiler_destroy(comp);
  pthread_t th[MAXT];
  pthread_barrier_init(&barrier, NULL, nthr);
  for (int i = 0; i < nthr; i++) pthread_create(&th[i], NULL, worker, &thr[i]);
  for (int i = 0; i < nthr; i++) pthread_join(th[i], NULL);
  for (int i = 0; i < nthr; i++)
  {
    char path[600]; snprintf(path, sizeof path, "%s/thread_%d.ndjson", argv[2], thr[i].tid);
    FILE* f = fopen(path, "w"); if (thr[i].len) fwrite(thr[i].buf, 1, thr[i].len, f); fputs("{\"e\":\"End\"}\n", f); fclose(f);
  }
  char path[600]; snprintf(path, sizeof path, "%s/hook.ndjson", argv[2]);
  FILE* f = fopen(path, "w");
  for (int i = 0; i < n_hook; i++) fprintf(f, "[%d,%d,%d]\n", hook_ev[i].kind, hook_ev[i].usecount, hook_ev[i].installed);
  fclose(f);
  yr_rules_destroy(rules);
  yr_finalize();
  return 0;
}
