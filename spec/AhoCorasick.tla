----------------------------- MODULE AhoCorasick -----------------------------
(***************************************************************************)
(* The shared Aho-Corasick automaton (libyara/ahocorasick.c) and the scan  *)
(* loop that consults it (scanner.c:74-173).                               *)
(*   - trie insertion: one state per distinct atom prefix (yr_ac_add_string)*)
(*     a match entry [s, bt] is PREPENDED to the state's list,             *)
(*     bt = depth + offset of the atom inside its string;                  *)
(*   - failure links by breadth-first traversal, a state's match list is   *)
(*     its own entries followed by the (linked, not copied) list of its    *)
(*     failure state (_yr_ac_create_failure_links);                        *)
(*   - failure-link optimisation: a failure state whose transitions are a  *)
(*     subset of the state's own is skipped (_yr_ac_optimize_failure_links);*)
(*   - scan loop: BEFORE consuming byte i the list of the current state is *)
(*     delivered (entries with bt <= i), then the byte is consumed through *)
(*     goto / failure links; after the last byte the list is delivered     *)
(*     once more.                                                          *)
(* Property (C05, C01): at every position the delivered candidates are     *)
(* exactly the atoms that end there - whatever other atoms share the       *)
(* automaton.                                                              *)
(* Switches (non-vacuity): StrictBacktrack (bt < i instead of <=),         *)
(* NoFailureLists (own entries only), BlindOptimise (skip without subset). *)
(***************************************************************************)
EXTENDS Naturals, Integers, Sequences, FiniteSets, TLC

CONSTANTS StrictBacktrack, NoFailureLists, BlindOptimise

\* atoms: a SEQUENCE (insertion order) of [s |-> string index, b |-> Seq(byte), bt |-> Nat]
States(atoms) == {SubSeq(atoms[k].b, 1, n) : k \in 1..Len(atoms), n \in 0..0} \cup
                 UNION {{SubSeq(atoms[k].b, 1, n) : n \in 0..Len(atoms[k].b)} : k \in 1..Len(atoms)} \cup {<< >>}
Root == << >>
Trans(st, S) == {x \in 0..255 : Append(st, x) \in S}
Parent(st) == SubSeq(st, 1, Len(st) - 1)

RECURSIVE Fail(_, _)
Fail(st, S) ==                                   \* _yr_ac_create_failure_links
  IF Len(st) <= 1 THEN Root
  ELSE LET x == st[Len(st)]
           RECURSIVE Walk(_)
           Walk(f) == IF Append(f, x) \in S THEN Append(f, x)
                      ELSE IF f = Root THEN Root ELSE Walk(Fail(f, S))
       IN Walk(Fail(Parent(st), S))

RECURSIVE OptFail(_, _)
OptFail(st, S) ==                                \* _yr_ac_optimize_failure_links (BFS: shallower states first)
  LET f == Fail(st, S)
  IN IF f = Root \/ st = Root THEN f
     ELSE IF BlindOptimise \/ Trans(f, S) \subseteq Trans(st, S) THEN OptFail(f, S) ELSE f

\* own entries of a state, most recently added first (prepending)
Own(st, atoms) ==
  LET idx == {k \in 1..Len(atoms) : atoms[k].b = st}
      RECURSIVE Rev(_, _)
      Rev(k, acc) == IF k = 0 THEN acc ELSE Rev(k - 1, IF k \in idx THEN Append(acc, [s |-> atoms[k].s, bt |-> atoms[k].bt]) ELSE acc)
  IN Rev(Len(atoms), << >>)

RECURSIVE List(_, _, _)
List(st, atoms, S) ==
  IF st = Root THEN Own(Root, atoms)
  ELSE IF NoFailureLists THEN Own(st, atoms)
  ELSE Own(st, atoms) \o List(Fail(st, S), atoms, S)

RECURSIVE Next(_, _, _)
Next(st, x, S) ==                                \* scanner.c:136-151
  IF Append(st, x) \in S THEN Append(st, x)
  ELSE IF st = Root THEN Root ELSE Next(OptFail(st, S), x, S)

StateAfter(atoms, buf, i) ==
  LET S == States(atoms)
      RECURSIVE Run(_, _)
      Run(k, st) == IF k = i THEN st ELSE Run(k + 1, Next(st, buf[k + 1], S))
  IN Run(0, Root)

\* what the scan loop hands to verification at position i (0..Len(buf)): set of <<string, backtrack>>
Delivered(atoms, buf, i) ==
  LET L == List(StateAfter(atoms, buf, i), atoms, States(atoms))
  IN {<<L[k].s, L[k].bt>> : k \in {j \in 1..Len(L) : IF StrictBacktrack THEN L[j].bt < i ELSE L[j].bt <= i}}

\* the property: exactly the atoms that are a suffix of the input consumed so far (and start inside the buffer)
IsSuffix(a, buf, i) == Len(a) <= i /\ \A k \in 1..Len(a) : a[k] = buf[i - Len(a) + k]
Expected(atoms, buf, i) == {<<atoms[k].s, atoms[k].bt>> : k \in {j \in 1..Len(atoms) : IsSuffix(atoms[j].b, buf, i) /\ atoms[j].bt <= i}}

CandidatesExact(atoms, buf) == \A i \in 0..Len(buf) : Delivered(atoms, buf, i) = Expected(atoms, buf, i)

\* ---- exhaustive small scope: every sequence of <= MaxAtoms atoms over Alphabet with length <= MaxLen, every input <= MaxInput
CONSTANTS Alphabet, MaxLen, MaxAtoms, MaxInput
VARIABLES atomsV, bufV
SeqsUpTo(A, n) == UNION {[1..k -> A] : k \in 0..n}
AtomUniverse == {[s |-> s, b |-> w, bt |-> Len(w) + off] : s \in 1..MaxAtoms, w \in SeqsUpTo(Alphabet, MaxLen), off \in {0, 1}}
Init == /\ atomsV \in {q \in SeqsUpTo(AtomUniverse, MaxAtoms) : \A k \in 1..Len(q) : q[k].s = k}
        /\ bufV = << >>
Next2 == /\ Len(bufV) < MaxInput
         /\ \E x \in Alphabet : bufV' = Append(bufV, x)
         /\ UNCHANGED atomsV
Spec == Init /\ [][Next2]_<<atomsV, bufV>>
Inv == Delivered(atomsV, bufV, Len(bufV)) = Expected(atomsV, bufV, Len(bufV))

\* ---- judgement of a recorded run (hooks H3 + H4): c = [atoms, buf, cands: Seq(<<pos, string, backtrack>>)]
ACTraceOK(c) ==
  \A i \in 0..Len(c.buf) :
     {<<c.cands[k][2], c.cands[k][3]>> : k \in {j \in 1..Len(c.cands) : c.cands[j][1] = i}} = Expected(c.atoms, c.buf, i)
=============================================================================
