---------------------------- MODULE ApiLifecycle ----------------------------
(***************************************************************************)
(* Life cycle and result-code contract of the public API objects           *)
(* (compiler, rule set, scanner) under allocation failure (C16) and        *)
(* failed compilation (C07).                                               *)
(* Environment action Fault: the next operation suffers an allocation      *)
(* failure somewhere inside.  Contract of every operation:                 *)
(*   - without a fault it yields its normal result;                        *)
(*   - with a fault it yields its normal result (the failure was absorbed) *)
(*     or ERROR_INSUFFICIENT_MEMORY / a diagnosed compile error;           *)
(*   - whatever happened, the objects can be destroyed, a fault-free       *)
(*     compile + scan afterwards behaves normally, and once everything is  *)
(*     destroyed the heap is back to its baseline.                         *)
(***************************************************************************)
EXTENDS Naturals, Integers, Sequences, FiniteSets, TLC

OOM == 1
VARIABLES comp,      \* "absent" | "live" | "failed" (a source did not compile: only destroy is legal)
          rules,     \* "absent" | "live"
          scanner,   \* "absent" | "live"
          armed,     \* a fault is injected into the next operation
          history    \* results so far (for the invariants)
lvars == <<comp, rules, scanner, armed, history>>

Outcome(normal) == IF armed THEN {normal, "oom"} ELSE {normal}

Fault == ~armed /\ armed' = TRUE /\ UNCHANGED <<comp, rules, scanner, history>>

CompilerCreate(o) == /\ comp = "absent" /\ o \in Outcome("ok")
                     /\ comp' = IF o = "ok" THEN "live" ELSE "absent"
                     /\ armed' = FALSE /\ history' = Append(history, <<"CompilerCreate", o>>) /\ UNCHANGED <<rules, scanner>>
AddSource(o) ==      /\ comp = "live" /\ o \in (Outcome("ok") \cup {"errors"})       \* "errors": ret > 0 with >= 1 error diagnostic
                     /\ comp' = IF o = "ok" THEN "live" ELSE "failed"
                     /\ armed' = FALSE /\ history' = Append(history, <<"AddSource", o>>) /\ UNCHANGED <<rules, scanner>>
GetRules(o) ==       /\ comp = "live" /\ rules = "absent" /\ o \in Outcome("ok")
                     /\ rules' = IF o = "ok" THEN "live" ELSE "absent"
                     /\ armed' = FALSE /\ history' = Append(history, <<"GetRules", o>>) /\ UNCHANGED <<comp, scanner>>
ScannerCreate(o) ==  /\ rules = "live" /\ scanner = "absent" /\ o \in Outcome("ok")
                     /\ scanner' = IF o = "ok" THEN "live" ELSE "absent"
                     /\ armed' = FALSE /\ history' = Append(history, <<"ScannerCreate", o>>) /\ UNCHANGED <<comp, rules>>
Scan(o) ==           /\ scanner = "live" /\ o \in Outcome("ok")
                     /\ armed' = FALSE /\ history' = Append(history, <<"Scan", o>>) /\ UNCHANGED <<comp, rules, scanner>>
Destroy(x) ==        /\ CASE x = "compiler" -> comp # "absent" /\ comp' = "absent" /\ UNCHANGED <<rules, scanner>>
                          [] x = "scanner" -> scanner # "absent" /\ scanner' = "absent" /\ UNCHANGED <<comp, rules>>
                          [] x = "rules" -> rules # "absent" /\ scanner = "absent" /\ rules' = "absent" /\ UNCHANGED <<comp, scanner>>
                     /\ UNCHANGED <<armed, history>>

LInit == comp = "absent" /\ rules = "absent" /\ scanner = "absent" /\ armed = FALSE /\ history = << >>
LNext == \/ Fault \/ \E o \in {"ok", "oom", "errors"} : CompilerCreate(o) \/ AddSource(o) \/ GetRules(o) \/ ScannerCreate(o) \/ Scan(o)
         \/ \E x \in {"compiler", "rules", "scanner"} : Destroy(x)
LSpec == LInit /\ [][LNext]_lvars
Bound == Len(history) <= 7

\* from every reachable state everything can be destroyed (no operation outcome leaves an undestroyable object)
AlwaysDestroyable == (comp # "absent" => ENABLED Destroy("compiler")) /\ (scanner # "absent" => ENABLED Destroy("scanner"))
                     /\ ((rules # "absent" /\ scanner = "absent") => ENABLED Destroy("rules"))
\* a failed compiler is never used again (API contract the drivers respect)
FailedCompilerUnused == \A i \in 1..Len(history) : \A j \in (i + 1)..Len(history) :
                           (history[i] = <<"AddSource", "errors">>) => history[j][1] \notin {"AddSource", "GetRules"}
                              \/ \E k \in (i + 1)..(j - 1) : history[k][1] = "CompilerCreate"

\* ---- judgement of one recorded operation (trace validation): normal = the result of the fault-free run
OpOK(c) ==
  IF ~c.fault THEN c.ret = c.normal /\ (c.op = "AddSource" => (c.ret > 0) = (c.errors > 0))
  ELSE \/ c.ret = c.normal
       \/ c.ret = OOM
       \/ (c.op = "AddSource" /\ c.ret > 0 /\ c.errors > 0)           \* diagnosed: error callback invoked
       \/ (c.op \in {"Scan", "Load", "Save"} /\ c.ret \in c.allowed)   \* documented scan/load errors caused by the failure
\* C07: a compilation fails iff it says so through the error callback, with a message and a line number
CompileOK(c) == /\ (c.ret > 0) = (c.errors > 0)
                /\ c.ret = c.errors
                /\ \A i \in DOMAIN c.msgs : c.msgs[i] > 0
                /\ \A i \in DOMAIN c.lines : c.lines[i] >= 0      \* errors detected at end of input carry line 0
\* sources with several independent errors, one per rule, each on a line of its own: the callbacks carry exactly those lines, in
\* order (the parser recovers at the end of a rule; what was noted for one error must not leak into the report of the next)
ErrLinesOK(c) == c.got = c.expected
\* after the fault sequence: the health check observed the normal result, and the heap is back to the baseline
\* and a failure that every operation absorbed (all of them returned what they return without it) changes nothing in what the
\* scans report: "returns an error or completes correctly"
RunOK(c) == /\ c.health = c.health_normal /\ c.heap_delta = 0
            /\ (("absorbed" \in DOMAIN c /\ c.absorbed) => c.same_results)
=============================================================================
