-------------------------------- MODULE Arena --------------------------------
(***************************************************************************)
(* The compiler's arena (libyara/arena.c): buffers of cells that are plain *)
(* data or pointers, a relocation list, raw pointers held by client code   *)
(* across allocations, growth by realloc (which may MOVE a buffer), and    *)
(* the compiled-rules file: save (pointers -> references), load            *)
(* (references -> pointers), load of a truncated or damaged file.          *)
(*                                                                         *)
(* Addresses are abstract: (buffer, offset, epoch); the epoch of a buffer  *)
(* changes whenever it moves, so a pointer value is valid iff its epoch is *)
(* the buffer's current one.                                               *)
(* Switches reproduce the mechanisms the properties exclude:               *)
(*   Terminator = FALSE   relocation list read "until end of stream" (D5)  *)
(*   AllRegistered = FALSE a pointer cell may be written unregistered (C08) *)
(*   Refetch = FALSE      client code may use a raw pointer taken before   *)
(*                        an allocation (C19)                              *)
(***************************************************************************)
EXTENDS Naturals, Integers, Sequences, FiniteSets, TLC, ArenaFile

CONSTANTS NB,           \* number of buffers
          MaxCells,     \* cells per buffer
          InitCap,      \* initial capacity (cells) - 1 makes every allocation move the buffer
          Terminator, AllRegistered, Refetch

Buf == 1..NB
Data(d) == [k |-> "data", d |-> d, b |-> 0, o |-> 0, e |-> 0]
Ptr(b, o, e) == [k |-> "ptr", d |-> 0, b |-> b, o |-> o, e |-> e]
Ref(b, o) == [k |-> "ref", d |-> 0, b |-> b, o |-> o, e |-> 0]

VARIABLES cells,      \* [Buf -> Seq(cell)]
          cap, epoch, \* [Buf -> Nat]
          relocs,     \* set of <<b, off>> (1-based cell offsets) registered as pointer slots
          held,       \* raw pointers in client locals: set of Ptr values
          usedStale,  \* a stale raw pointer was dereferenced
          nops
avars == <<cells, cap, epoch, relocs, held, usedStale, nops>>

Valid(p) == p.e = epoch[p.b] /\ p.o <= Len(cells[p.b])

\* ---- allocation (arena.c:132): may move the buffer; registered slots pointing into it are fixed up
Alloc(b) ==
  /\ Len(cells[b]) < MaxCells
  /\ LET moved == Len(cells[b]) + 1 > cap[b]
         ne == IF moved THEN epoch[b] + 1 ELSE epoch[b]
         Fix(c, bb, oo) == IF moved /\ c.k = "ptr" /\ c.b = b /\ c.e = epoch[b] /\ <<bb, oo>> \in relocs
                             THEN Ptr(c.b, c.o, ne) ELSE c
     IN /\ epoch' = [epoch EXCEPT ![b] = ne]
        /\ cap' = [cap EXCEPT ![b] = IF moved THEN 2 * (IF @ = 0 THEN InitCap ELSE @) ELSE @]
        /\ cells' = [bb \in Buf |-> LET fixed == [oo \in 1..Len(cells[bb]) |-> Fix(cells[bb][oo], bb, oo)]
                                    IN IF bb = b THEN Append(fixed, Data(0)) ELSE fixed]
        \* client discipline: raw pointers are re-derived from references after every allocation
        /\ held' = IF Refetch THEN {IF p.b = b THEN Ptr(p.b, p.o, ne) ELSE p : p \in held} ELSE held
  /\ UNCHANGED <<relocs, usedStale>>

\* the client takes the raw address of a cell
Hold(b, o) == /\ o \in 1..Len(cells[b])
              /\ held' = held \cup {Ptr(b, o, epoch[b])}
              /\ UNCHANGED <<cells, cap, epoch, relocs, usedStale>>

\* ... and writes a pointer to target (tb, to) through a held raw pointer, registering the slot or not
WritePtr(p, tb, to, registered) ==
  /\ p \in held /\ to \in 1..Len(cells[tb])
  /\ (AllRegistered => registered)
  /\ IF Valid(p)
       THEN /\ cells' = [cells EXCEPT ![p.b][p.o] = Ptr(tb, to, epoch[tb])]
            /\ relocs' = IF registered THEN relocs \cup {<<p.b, p.o>>} ELSE relocs
            /\ UNCHANGED usedStale
       ELSE usedStale' = TRUE /\ UNCHANGED <<cells, relocs>>      \* write through a dangling pointer
  /\ UNCHANGED <<cap, epoch, held>>

Drop(p) == p \in held /\ held' = held \ {p} /\ UNCHANGED <<cells, cap, epoch, relocs, usedStale>>

\* ---- the saved image, as a sequence of units
Image ==
  LET body(b) == [o \in 1..Len(cells[b]) |->
                    LET c == cells[b][o]
                    IN IF c.k = "ptr" /\ <<b, o>> \in relocs THEN Ref(c.b, c.o) ELSE c]   \* unregistered pointers stay raw
      RECURSIVE Bodies(_)
      Bodies(b) == IF b > NB THEN << >> ELSE body(b) \o Bodies(b + 1)
      RECURSIVE SeqOf(_)
      SeqOf(S) == IF S = {} THEN << >> ELSE LET x == CHOOSE y \in S : TRUE IN <<[k |-> "rel", b |-> x[1], o |-> x[2]]>> \o SeqOf(S \ {x})
  IN [hdr |-> NB, tbl |-> [b \in Buf |-> Len(cells[b])], body |-> Bodies(1), rel |-> SeqOf(relocs),
      fin |-> IF Terminator THEN <<"end">> ELSE << >>]

ImageLen(F) == 1 + F.hdr + Len(F.body) + Len(F.rel) + Len(F.fin)
BodiesEnd(F) == 1 + F.hdr + Len(F.body)

\* loading the first n units of F ("ok" / "invalid" / "corrupt"); nrel = relocation entries applied
LoadPrefix(F, n) ==
  IF n < 1 THEN [ret |-> "invalid", nrel |-> 0]
  ELSE IF n < 1 + F.hdr THEN [ret |-> "corrupt", nrel |-> 0]
  ELSE IF n < BodiesEnd(F) THEN [ret |-> "corrupt", nrel |-> 0]
  ELSE LET k == IF n - BodiesEnd(F) < Len(F.rel) THEN n - BodiesEnd(F) ELSE Len(F.rel)
       IN IF Terminator
            THEN (IF n >= ImageLen(F) THEN [ret |-> "ok", nrel |-> k] ELSE [ret |-> "corrupt", nrel |-> k])
            ELSE [ret |-> "ok", nrel |-> k]                        \* as originally coded: end of stream ends the list

\* ---- properties
NoStaleDeref == ~usedStale                                           \* C19
RegisteredPointersValid ==                                           \* C19: growth leaves no stale registered reference
  \A b \in Buf : \A o \in 1..Len(cells[b]) :
     (cells[b][o].k = "ptr" /\ <<b, o>> \in relocs) => cells[b][o].e = epoch[cells[b][o].b]
ImageIndependentOfEpochs ==                                          \* C08: no raw address is written out
  \A i \in 1..Len(Image.body) : Image.body[i].k # "ptr"
TruncatedNeverLoads ==                                               \* C17
  \A n \in 0..(ImageLen(Image) - 1) : LoadPrefix(Image, n).ret # "ok"
CompleteLoads == LoadPrefix(Image, ImageLen(Image)).ret = "ok" /\ LoadPrefix(Image, ImageLen(Image)).nrel = Len(Image.rel)

Init == /\ cells = [b \in Buf |-> << >>] /\ cap = [b \in Buf |-> 0] /\ epoch = [b \in Buf |-> 0]
        /\ relocs = {} /\ held = {} /\ usedStale = FALSE /\ nops = 0
Next == /\ nops' = nops + 1
        /\ \/ \E b \in Buf : Alloc(b)
           \/ \E b \in Buf, o \in 1..MaxCells : Hold(b, o)
           \/ \E p \in held, tb \in Buf, to \in 1..MaxCells, r \in BOOLEAN : WritePtr(p, tb, to, r)
           \/ \E p \in held : Drop(p)
Spec == Init /\ [][Next]_avars
Bound == nops <= 9 /\ Cardinality(held) <= 2

=============================================================================
