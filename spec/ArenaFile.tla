------------------------------ MODULE ArenaFile ------------------------------
(* Byte-level view of a compiled-rules file (arena.c: YR_ARENA_FILE_HEADER 6 bytes, 12 bytes per buffer-table entry,   *)
(* bodies, 8 bytes per relocation entry, terminated by a null reference) and the result class of loading its prefixes. *)
(* file = [nb, sizes (Seq of Nat), nrel]                                                                               *)
EXTENDS Naturals, Sequences
HdrLen == 6
TblEnt == 12
RelEnt == 8
SumSeq(s) == LET RECURSIVE S(_)
                 S(k) == IF k = 0 THEN 0 ELSE s[k] + S(k - 1)
             IN S(Len(s))
FileLen(f) == HdrLen + TblEnt * f.nb + SumSeq(f.sizes) + RelEnt * (f.nrel + 1)
LoadBytes(f, n) ==
  IF n < HdrLen THEN "invalid"
  ELSE IF n < HdrLen + TblEnt * f.nb THEN "corrupt"
  ELSE IF n < HdrLen + TblEnt * f.nb + SumSeq(f.sizes) THEN "corrupt"
  ELSE IF n < FileLen(f) THEN "corrupt" ELSE "ok"

\* a single-field corruption of the header or of the buffer table must be refused (any error class)
CorruptOK(ret) == ret # "ok"

\* the relocation audit of a real arena (driver op `audit`): Arena!RegisteredPointersValid and the AllRegistered discipline
\* seen from the implementation - no word of any buffer holds an address of the arena unless its slot is in the
\* relocation list, and every listed slot lies inside its buffer and holds NULL or an address of the arena
\* ... and every transition of the automaton leads to a slot inside both of its tables (only the used part of a buffer is saved)
AuditOK(c) == /\ c.unregistered = 0 /\ c.dangling = 0 /\ c.outside = 0
              /\ ("ac_bad" \in DOMAIN c => c.ac_bad = 0)
\* two images back to back in one stream: loading the first consumes exactly its own bytes, so that the second loads too
ConsumesExactlyOK(c) == c.ret1 = 0 /\ c.pos1 = c.len1 /\ c.ret2 = 0
\* a rule set the compiler accepted can be written out, whatever the sizes of its sections (c.n = number of entries that sets the size)
SaveSizeOK(c) == c.save = 0 /\ c.savestream = 0 /\ c.load = 0
\* hook H8: when the tables of the automaton are complete, the arena holds at least as many entries of each as their logical
\* size (what lies beyond the used part of a buffer is neither saved nor protected)
ACTablesOK(c) == c.t >= c.size /\ c.m >= c.size

\* a save through a stream that accepts `limit` bytes (ArenaSave.tla: ResultHonest and OriginalIntact seen from outside)
ERROR_WRITING_FILE == 58
\* a save in which ONE write failed (the following ones would succeed again) reports the failure, and what it left behind does not load
LeftoverOK(c) == c.save = ERROR_WRITING_FILE /\ c.load # 0
SaveFailOK(c) == /\ (c.limit < c.full => c.ret = ERROR_WRITING_FILE)
                 /\ (c.limit >= c.full => c.ret = 0)
                 /\ AuditOK(c) /\ c.same
=============================================================================
