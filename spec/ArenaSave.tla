----------------------------- MODULE ArenaSave -----------------------------
(* The procedure yr_arena_save_stream (arena.c:627-800), one action per      *)
(* write / per relocation entry, with a stream that may fail at any write    *)
(* (disk full, closed pipe).  The relocatable pointers of the arena being    *)
(* saved are converted to references before the buffers are written and back *)
(* while the relocation list is written; C08 demands that "the original      *)
(* stays usable after saving" - whatever the stream did.                     *)
(* ReturnAtOnce = TRUE is the procedure as originally coded (every failed    *)
(* write returns immediately): the MUST-violate configuration (D43).         *)
EXTENDS Naturals, FiniteSets

CONSTANTS NSlots,        \* registered pointer slots
          NBufs,         \* buffers with data
          ReturnAtOnce

Total == 2 + NBufs + NSlots + 1          \* header, buffer table, buffers, relocation entries, terminator

VARIABLES pc, i, slot, written, ok, failAt
svars == <<pc, i, slot, written, ok, failAt>>

Init == /\ pc = "hdr" /\ i = 1 /\ slot = [s \in 1..NSlots |-> "ptr"] /\ written = 0 /\ ok = TRUE
        /\ failAt \in 0..Total           \* 0: the stream never fails

Fails == written + 1 = failAt
\* one write of the stream: TRUE iff it succeeded
Wrote == ~Fails

WriteHdr ==
  /\ pc = "hdr"
  /\ IF Wrote THEN written' = written + 1 /\ pc' = "table" /\ UNCHANGED ok
              ELSE ok' = FALSE /\ pc' = "done" /\ UNCHANGED written          \* nothing was converted yet
  /\ UNCHANGED <<i, slot, failAt>>

WriteTable ==
  /\ pc = "table"
  /\ IF Wrote THEN written' = written + 1 /\ pc' = "swap" /\ UNCHANGED ok
              ELSE ok' = FALSE /\ pc' = "done" /\ UNCHANGED written
  /\ UNCHANGED <<i, slot, failAt>>

Swap ==                                   \* pointer -> reference, slot by slot
  /\ pc = "swap"
  /\ IF i <= NSlots THEN slot' = [slot EXCEPT ![i] = "ref"] /\ i' = i + 1 /\ UNCHANGED pc
                    ELSE pc' = "bufs" /\ i' = 1 /\ UNCHANGED slot
  /\ UNCHANGED <<written, ok, failAt>>

WriteBuf ==
  /\ pc = "bufs"
  /\ IF i > NBufs THEN pc' = "relocs" /\ i' = 1 /\ UNCHANGED <<written, ok>>
     ELSE IF ~ok THEN i' = i + 1 /\ UNCHANGED <<pc, written, ok>>            \* an earlier write failed: skip, keep going
     ELSE IF Wrote THEN written' = written + 1 /\ i' = i + 1 /\ UNCHANGED <<pc, ok>>
     ELSE /\ ok' = FALSE /\ UNCHANGED written
          /\ IF ReturnAtOnce THEN pc' = "done" /\ UNCHANGED i ELSE i' = i + 1 /\ UNCHANGED pc
  /\ UNCHANGED <<slot, failAt>>

RelocStep ==                              \* write the entry of slot i, then reference -> pointer
  /\ pc = "relocs"
  /\ IF i > NSlots THEN pc' = "fin" /\ UNCHANGED <<i, slot, written, ok>>
     ELSE IF ok /\ Fails /\ ReturnAtOnce THEN ok' = FALSE /\ pc' = "done" /\ UNCHANGED <<i, slot, written>>
     ELSE /\ slot' = [slot EXCEPT ![i] = "ptr"] /\ i' = i + 1 /\ UNCHANGED pc
          /\ IF ~ok THEN UNCHANGED <<written, ok>>
             ELSE IF Wrote THEN written' = written + 1 /\ UNCHANGED ok
             ELSE ok' = FALSE /\ UNCHANGED written
  /\ UNCHANGED failAt

Fin ==                                    \* the terminator of the relocation list (the fix of D5)
  /\ pc = "fin"
  /\ IF ~ok THEN UNCHANGED <<written, ok>>
     ELSE IF Wrote THEN written' = written + 1 /\ UNCHANGED ok
     ELSE ok' = FALSE /\ UNCHANGED written
  /\ pc' = "done"
  /\ UNCHANGED <<i, slot, failAt>>

Next == WriteHdr \/ WriteTable \/ Swap \/ WriteBuf \/ RelocStep \/ Fin
Spec == Init /\ [][Next]_svars /\ WF_svars(Next)

TypeOK == pc \in {"hdr", "table", "swap", "bufs", "relocs", "fin", "done"} /\ written \in 0..Total /\ ok \in BOOLEAN
\* C08: the original stays usable after saving - every registered slot holds a pointer again once the call has returned
OriginalIntact == pc = "done" => \A s \in 1..NSlots : slot[s] = "ptr"
\* success is reported iff every item reached the stream
ResultHonest == pc = "done" => (ok <=> written = Total)
Terminates == <>(pc = "done")
=============================================================================
