---- MODULE ArenaSave_TTrace_1790591964 ----
EXTENDS Sequences, TLCExt, Toolbox, Naturals, TLC, ArenaSave

_expression ==
    LET ArenaSave_TEExpression == INSTANCE ArenaSave_TEExpression
    IN ArenaSave_TEExpression!expression
----

_trace ==
    LET ArenaSave_TETrace == INSTANCE ArenaSave_TETrace
    IN ArenaSave_TETrace!trace
----

_inv ==
    ~(
        TLCGet("level") = Len(_TETrace)
        /\
        pc = ("done")
        /\
        failAt = (3)
        /\
        i = (1)
        /\
        slot = (<<"ref", "ref", "ref">>)
        /\
        written = (2)
        /\
        ok = (FALSE)
    )
----

_init ==
    /\ slot = _TETrace[1].slot
    /\ failAt = _TETrace[1].failAt
    /\ i = _TETrace[1].i
    /\ ok = _TETrace[1].ok
    /\ pc = _TETrace[1].pc
    /\ written = _TETrace[1].written
----

_next ==
    /\ \E i,j \in DOMAIN _TETrace:
        /\ \/ /\ j = i + 1
              /\ i = TLCGet("level")
        /\ slot  = _TETrace[i].slot
        /\ slot' = _TETrace[j].slot
        /\ failAt  = _TETrace[i].failAt
        /\ failAt' = _TETrace[j].failAt
        /\ i  = _TETrace[i].i
        /\ i' = _TETrace[j].i
        /\ ok  = _TETrace[i].ok
        /\ ok' = _TETrace[j].ok
        /\ pc  = _TETrace[i].pc
        /\ pc' = _TETrace[j].pc
        /\ written  = _TETrace[i].written
        /\ written' = _TETrace[j].written

\* Uncomment the ASSUME below to write the states of the error trace
\* to the given file in Json format. Note that you can pass any tuple
\* to `JsonSerialize`. For example, a sub-sequence of _TETrace.
    \* ASSUME
    \*     LET J == INSTANCE Json
    \*         IN J!JsonSerialize("ArenaSave_TTrace_1790591964.json", _TETrace)

=============================================================================

 Note that you can extract this module `ArenaSave_TEExpression`
  to a dedicated file to reuse `expression` (the module in the 
  dedicated `ArenaSave_TEExpression.tla` file takes precedence 
  over the module `ArenaSave_TEExpression` below).

---- MODULE ArenaSave_TEExpression ----
EXTENDS Sequences, TLCExt, Toolbox, Naturals, TLC, ArenaSave

expression == 
    [
        \* To hide variables of the `ArenaSave` spec from the error trace,
        \* remove the variables below.  The trace will be written in the order
        \* of the fields of this record.
        slot |-> slot
        ,failAt |-> failAt
        ,i |-> i
        ,ok |-> ok
        ,pc |-> pc
        ,written |-> written
        
        \* Put additional constant-, state-, and action-level expressions here:
        \* ,_stateNumber |-> _TEPosition
        \* ,_slotUnchanged |-> slot = slot'
        
        \* Format the `slot` variable as Json value.
        \* ,_slotJson |->
        \*     LET J == INSTANCE Json
        \*     IN J!ToJson(slot)
        
        \* Lastly, you may build expressions over arbitrary sets of states by
        \* leveraging the _TETrace operator.  For example, this is how to
        \* count the number of times a spec variable changed up to the current
        \* state in the trace.
        \* ,_slotModCount |->
        \*     LET F[s \in DOMAIN _TETrace] ==
        \*         IF s = 1 THEN 0
        \*         ELSE IF _TETrace[s].slot # _TETrace[s-1].slot
        \*             THEN 1 + F[s-1] ELSE F[s-1]
        \*     IN F[_TEPosition - 1]
    ]

=============================================================================



Parsing and semantic processing can take forever if the trace below is long.
 In this case, it is advised to uncomment the module below to deserialize the
 trace from a generated binary file.

\*
\*---- MODULE ArenaSave_TETrace ----
\*EXTENDS IOUtils, TLC, ArenaSave
\*
\*trace == IODeserialize("ArenaSave_TTrace_1790591964.bin", TRUE)
\*
\*=============================================================================
\*

---- MODULE ArenaSave_TETrace ----
EXTENDS TLC, ArenaSave

trace == 
    <<
    ([pc |-> "hdr",failAt |-> 3,i |-> 1,slot |-> <<"ptr", "ptr", "ptr">>,written |-> 0,ok |-> TRUE]),
    ([pc |-> "table",failAt |-> 3,i |-> 1,slot |-> <<"ptr", "ptr", "ptr">>,written |-> 1,ok |-> TRUE]),
    ([pc |-> "swap",failAt |-> 3,i |-> 1,slot |-> <<"ptr", "ptr", "ptr">>,written |-> 2,ok |-> TRUE]),
    ([pc |-> "swap",failAt |-> 3,i |-> 2,slot |-> <<"ref", "ptr", "ptr">>,written |-> 2,ok |-> TRUE]),
    ([pc |-> "swap",failAt |-> 3,i |-> 3,slot |-> <<"ref", "ref", "ptr">>,written |-> 2,ok |-> TRUE]),
    ([pc |-> "swap",failAt |-> 3,i |-> 4,slot |-> <<"ref", "ref", "ref">>,written |-> 2,ok |-> TRUE]),
    ([pc |-> "bufs",failAt |-> 3,i |-> 1,slot |-> <<"ref", "ref", "ref">>,written |-> 2,ok |-> TRUE]),
    ([pc |-> "done",failAt |-> 3,i |-> 1,slot |-> <<"ref", "ref", "ref">>,written |-> 2,ok |-> FALSE])
    >>
----


=============================================================================

---- CONFIG ArenaSave_TTrace_1790591964 ----
CONSTANTS
    NSlots = 3
    NBufs = 2
    ReturnAtOnce = TRUE

INVARIANT
    _inv

CHECK_DEADLOCK
    \* CHECK_DEADLOCK off because of PROPERTY or INVARIANT above.
    FALSE

INIT
    _init

NEXT
    _next

CONSTANT
    _TETrace <- _trace

ALIAS
    _expression
=============================================================================
\* Generated on Mon Sep 28 10:39:24 UTC 2026