------------------------------- MODULE Atoms -------------------------------
(* The contract between atom extraction (atoms.c) and the rest of the engine.

   For every string the compiler hands a set of ATOMS - short byte strings, each with a distance - to the Aho-Corasick
   automaton (hook H3 records them as inserted).  The scanner verifies a string only where one of its atoms occurs, so
   the atoms must be NECESSARY: every occurrence of the string contains one of its atoms - for a text string at exactly
   the recorded distance from the start of the occurrence (the verification of a text string starts `bt` bytes before
   the END of the atom), for hex strings, regular expressions and base64 strings somewhere inside it (the verification
   runs forwards and backwards from the atom).  Which atoms are chosen (their quality) is free: any necessary set is
   correct, a better one is only faster.  An atom of length 0 occurs everywhere.

   c.samples are byte strings proposed by the generator as whole occurrences of the string; whether a sample IS an
   occurrence is decided here by the reference semantics (TextMatch / ReMatch), samples that are not are ignored.    *)
EXTENDS TextMatch, ReMatch

OccursAt(a, s, endpos) == /\ endpos <= Len(s) /\ endpos >= Len(a.b)
                          /\ \A i \in 1..Len(a.b) : s[endpos - Len(a.b) + i] = a.b[i]
OccursSomewhere(a, s) == \E e \in Len(a.b)..Len(s) : OccursAt(a, s, e)

\* text strings: the sample is an occurrence of one of the variants the modifiers allow (ascii / wide / nocase / xor)
TextIsOccurrence(c, s) == LET m == [c.mods EXCEPT !.fullword = FALSE] IN Len(s) > 0 /\ \E x \in Allowed(c.pat, m, s, 0) : x[1] = Len(s)
TextAtomsNecessary(c) ==
  \A k \in 1..Len(c.samples) : LET s == c.samples[k] IN
     TextIsOccurrence(c, s) =>
        \E j \in 1..Len(c.atoms) : IF c.mods.b64 \/ c.mods.b64w THEN OccursSomewhere(c.atoms[j], s)
                                   ELSE OccursAt(c.atoms[j], s, c.atoms[j].bt)

\* hex strings and regular expressions: the sample is matched in full by one of the flag variants
ReIsOccurrence(c, s) == Len(s) > 0 /\ \E fl \in Variants(c) : Len(s) \in Ends(c.ast, s, 0, fl)
ReAtomsNecessary(c) ==
  \A k \in 1..Len(c.samples) : LET s == c.samples[k] IN
     ReIsOccurrence(c, s) => \E j \in 1..Len(c.atoms) : OccursSomewhere(c.atoms[j], s)

AtomsOK(c) == IF c.sort = "text" THEN TextAtomsNecessary(c) ELSE ReAtomsNecessary(c)
\* how many samples were occurrences (coverage, printed by the judge)
=============================================================================
