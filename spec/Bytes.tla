------------------------------- MODULE Bytes -------------------------------
(* Byte-level vocabulary shared by the matching specifications.            *)
EXTENDS Naturals, Integers, Sequences, FiniteSets, Bitwise

Byte == 0..255
Lower(b) == IF b >= 65 /\ b <= 90 THEN b + 32 ELSE b
Upper(b) == IF b >= 97 /\ b <= 122 THEN b - 32 ELSE b
IsDigit(b) == b >= 48 /\ b <= 57
IsAlpha(b) == (b >= 65 /\ b <= 90) \/ (b >= 97 /\ b <= 122)
IsAlnum(b) == IsDigit(b) \/ IsAlpha(b)
IsWordChar(b) == IsAlnum(b) \/ b = 95
IsSpace(b) == b \in {32, 9, 10, 11, 12, 13}
BXor(a, b) == a ^^ b

\* s widened the YARA way: every byte followed by a zero byte
Wide(s) == [i \in 1..(2 * Len(s)) |-> IF i % 2 = 1 THEN s[(i + 1) \div 2] ELSE 0]

\* sub-sequence of buf starting at 0-based offset o, length n (must fit)
Sub(buf, o, n) == [i \in 1..n |-> buf[o + i]]
Fits(buf, o, n) == o >= 0 /\ o + n <= Len(buf)

SeqSet(s) == {s[i] : i \in DOMAIN s}
Min2(a, b) == IF a < b THEN a ELSE b
Max2(a, b) == IF a > b THEN a ELSE b
=============================================================================
