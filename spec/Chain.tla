------------------------------- MODULE Chain -------------------------------
(* The chain confirmation algorithm of scan.c AS BUILT (_yr_scan_verify_chained_string_match,
   _yr_scan_update_match_chain_length, _yr_scan_add_match_to_list, _yr_scan_remove_match_from_list).

   A string whose top-level concatenation contains a lazy jump above YR_STRING_CHAINING_THRESHOLD is compiled as a chain
   of pieces S1 <- S2 <- ... <- SN (re.c, yr_re_ast_split_at_chaining_point; parser.c:872).  Every piece is searched on
   its own; each match of a piece is handed to the confirmation algorithm as a CALLBACK (piece, offset, length), in the
   order in which the scanner finds them.  The algorithm keeps, per non-tail piece, a list of UNCONFIRMED matches sorted
   by offset, and appends to the CONFIRMED list of the head the matches of the whole chain.

   gaps[p] = [lo, hi] is the jump between piece p and piece p + 1 (hi < 0: unbounded); N = Len(gaps) + 1.
   State: [unc |-> <<list of [off, len, cl]>> per piece 1..N-1, conf |-> list of [off, len]].

   This module gives
     * Callback(st, gaps, p, off, len): the state after one call, statement by statement as in the C code;
     * IdealOK(conf, CB, gaps): what the confirmed list should be, given the SET of callbacks (every head from which
       a tail can be reached through matches at distances within the gaps, with a length that ends at such a tail);
     * Orderly(cbs, gaps): the assumptions on the ORDER of the callbacks under which the algorithm is complete
       (checked by TLC in ChainMC.tla: Orderly => final conf is ideal; without Orderly it is not: finding D12/D13).  *)
EXTENDS Naturals, Integers, Sequences, FiniteSets

NPieces(gaps) == Len(gaps) + 1

LeHi(e, g, x) == g.hi < 0 \/ e + g.hi >= x          \* e + chain_gap_max >= x   (INT_MAX stands for "unbounded")
InRange(m, g, off) == LET e == m.off + m.len IN LeHi(e, g, off) /\ e + g.lo <= off

RemoveAt(s, k) == SubSeq(s, 1, k - 1) \o SubSeq(s, k + 1, Len(s))

\* _yr_scan_add_match_to_list(replace_if_exists = false): the list stays sorted by offset; an entry with the same offset wins
Insert(list, m) ==
  IF \E k \in 1..Len(list) : list[k].off = m.off THEN list
  ELSE SelectSeq(list, LAMBDA x : x.off < m.off) \o <<m>> \o SelectSeq(list, LAMBDA x : x.off > m.off)

\* scan.c:465-498: walk the unconfirmed matches of the preceding piece in list order; drop those that end too far below
\* `lowest`; stop at the first one at a distance within the gap (the entries after it are neither examined nor dropped)
RECURSIVE PruneWalk(_, _, _, _, _)
PruneWalk(list, k, g, lowest, off) ==
  IF k > Len(list) THEN [list |-> list, found |-> FALSE]
  ELSE LET e == list[k].off + list[k].len IN
       IF ~LeHi(e, g, lowest) THEN PruneWalk(RemoveAt(list, k), k, g, lowest, off)
       ELSE IF InRange(list[k], g, off) THEN [list |-> list, found |-> TRUE]
       ELSE PruneWalk(list, k + 1, g, lowest, off)

\* _yr_scan_update_match_chain_length(string = piece p, match_to_update = unc[p][k], chain_length = c)
RECURSIVE Update(_, _, _, _, _)
Update(unc, gaps, p, k, c) ==
  IF unc[p][k].cl = c THEN unc
  ELSE LET u1 == [unc EXCEPT ![p][k].cl = c] IN
       IF p = 1 THEN u1
       ELSE LET m == u1[p][k]
                RECURSIVE Walk(_, _)
                Walk(u, j) == IF j > Len(u[p - 1]) THEN u
                              ELSE IF InRange(u[p - 1][j], gaps[p - 1], m.off) THEN Walk(Update(u, gaps, p - 1, j, c + 1), j + 1)
                              ELSE Walk(u, j + 1)
            IN Walk(u1, 1)

\* scan.c:508-590: the matching piece is the tail and some match of the preceding piece is at a distance within the gap
TailStep(st, gaps, off, len) ==
  LET N == NPieces(gaps)
      RECURSIVE W(_, _)
      W(u, j) == IF j > Len(u[N - 1]) THEN u
                 ELSE IF InRange(u[N - 1][j], gaps[N - 1], off) THEN W(Update(u, gaps, N - 1, j, 1), j + 1)
                 ELSE W(u, j + 1)
      u2 == W(st.unc, 1)
      done == SelectSeq(u2[1], LAMBDA m : m.cl = N - 1)
      rest == SelectSeq(u2[1], LAMBDA m : m.cl # N - 1)
      RECURSIVE AddAll(_, _)
      AddAll(conf, k) == IF k > Len(done) THEN conf
                         ELSE AddAll(Insert(conf, [off |-> done[k].off, len |-> off - done[k].off + len]), k + 1)
  IN [unc |-> [u2 EXCEPT ![1] = rest], conf |-> AddAll(st.conf, 1)]

Callback(st, gaps, p, off, len) ==
  LET N == NPieces(gaps) IN
  IF p = 1 THEN [st EXCEPT !.unc[1] = Insert(@, [off |-> off, len |-> len, cl |-> 0])]
  ELSE LET lowest == IF p < N /\ Len(st.unc[p]) > 0 THEN st.unc[p][1].off ELSE off
           w == PruneWalk(st.unc[p - 1], 1, gaps[p - 1], lowest, off)
           st1 == [st EXCEPT !.unc[p - 1] = w.list]
       IN IF ~w.found THEN st1
          ELSE IF p = N THEN TailStep(st1, gaps, off, len)
          ELSE [st1 EXCEPT !.unc[p] = Insert(@, [off |-> off, len |-> len, cl |-> 0])]

InitState(gaps) == [unc |-> [p \in 1..Len(gaps) |-> <<>>], conf |-> <<>>]

RECURSIVE RunFrom(_, _, _, _)
RunFrom(st, gaps, cbs, k) == IF k > Len(cbs) THEN st ELSE RunFrom(Callback(st, gaps, cbs[k].p, cbs[k].off, cbs[k].len), gaps, cbs, k + 1)
Run(gaps, cbs) == RunFrom(InitState(gaps), gaps, cbs, 1)

\* ---------------------------------------------------------------- what the confirmed list should be
CBSet(cbs) == {[p |-> cbs[k].p, off |-> cbs[k].off, len |-> cbs[k].len] : k \in 1..Len(cbs)}
Link(a, b, gaps) == b.p = a.p + 1 /\ InRange(a, gaps[a.p], b.off)

\* the tails that can be reached from match m of some piece
RECURSIVE Reach(_, _, _)
Reach(m, CB, gaps) == IF m.p = NPieces(gaps) THEN {m}
                      ELSE UNION {Reach(b, CB, gaps) : b \in {x \in CB : Link(m, x, gaps)}}

Heads(CB) == {m \in CB : m.p = 1}
IdealOffsets(CB, gaps) == {h.off : h \in {x \in Heads(CB) : Reach(x, CB, gaps) # {}}}

\* every confirmed entry is a head joined to a tail it reaches (soundness) ...
ConfSound(conf, CB, gaps) ==
  /\ \A j \in 1..(Len(conf) - 1) : conf[j].off < conf[j + 1].off
  /\ \A j \in 1..Len(conf) : \E h \in Heads(CB) : /\ h.off = conf[j].off
                                                  /\ \E t \in Reach(h, CB, gaps) : conf[j].len = t.off + t.len - h.off
\* ... and every head that reaches a tail is confirmed (completeness)
ConfComplete(conf, CB, gaps) == \A o \in IdealOffsets(CB, gaps) : \E j \in 1..Len(conf) : conf[j].off = o
IdealOK(conf, CB, gaps) == ConfSound(conf, CB, gaps) /\ ConfComplete(conf, CB, gaps)

\* ---------------------------------------------------------------- the order the algorithm relies on
\* A1: the matches of one piece arrive in ascending order of offset (the pruning at scan.c:476 takes the offset of the
\*     current match as the lowest offset at which this piece will ever be seen again);
\* A2: a match arrives before every match of the next piece that it links to;
\* A3: a non-tail piece is not seen twice at one offset with different lengths (only the first length is kept).
A1(cbs) == \A i, j \in 1..Len(cbs) : (i < j /\ cbs[i].p = cbs[j].p) => cbs[i].off <= cbs[j].off
A2(cbs, gaps) == \A i, j \in 1..Len(cbs) : (i < j /\ cbs[j].p + 1 = cbs[i].p) => ~InRange(cbs[j], gaps[cbs[j].p], cbs[i].off)
A3(cbs, gaps) == \A i, j \in 1..Len(cbs) : (cbs[i].p = cbs[j].p /\ cbs[i].p < NPieces(gaps) /\ cbs[i].off = cbs[j].off) => cbs[i].len = cbs[j].len
Orderly(cbs, gaps) == A1(cbs) /\ A2(cbs, gaps) /\ A3(cbs, gaps)

\* ---------------------------------------------------------------- judging a recorded scan (hook H7)
\* c.gaps: <<<<lo, hi>>, ...>>; c.cbs: sequence of [p, off, len, unc, conf] with the projected state AFTER each call
Gaps(c) == [k \in 1..Len(c.gaps) |-> [lo |-> c.gaps[k][1], hi |-> c.gaps[k][2]]]
Cbs(c) == [k \in 1..Len(c.cbs) |-> [p |-> c.cbs[k].p, off |-> c.cbs[k].off, len |-> c.cbs[k].len]]
LoggedState(e) == [unc |-> [p \in 1..Len(e.unc) |-> [k \in 1..Len(e.unc[p]) |-> [off |-> e.unc[p][k][1], len |-> e.unc[p][k][2], cl |-> e.unc[p][k][3]]]],
                   conf |-> [k \in 1..Len(e.conf) |-> [off |-> e.conf[k][1], len |-> e.conf[k][2]]]]
FinalConf(c) == IF Len(c.cbs) = 0 THEN <<>> ELSE LoggedState(c.cbs[Len(c.cbs)]).conf

\* stateful conformance: after every call the real lists are the lists of the model
RECURSIVE ConformsFrom(_, _, _, _)
ConformsFrom(st, gaps, c, k) ==
  IF k > Len(c.cbs) THEN TRUE
  ELSE LET nx == Callback(st, gaps, c.cbs[k].p, c.cbs[k].off, c.cbs[k].len)
       IN nx = LoggedState(c.cbs[k]) /\ ConformsFrom(nx, gaps, c, k + 1)
ConformsAsBuilt(c) == ConformsFrom(InitState(Gaps(c)), Gaps(c), c, 1)

ChainWellFormed(c) == /\ Len(c.gaps) = c.n - 1 /\ c.n >= 2
                      /\ \A k \in 1..Len(c.cbs) : c.cbs[k].p \in 1..c.n /\ c.cbs[k].off >= 0 /\ c.cbs[k].len >= 0

\* the confirmed list is what it should be for the callbacks that occurred (whatever the algorithm)
ChainIdeal(c) == ChainWellFormed(c) /\ IdealOK(FinalConf(c), CBSet(Cbs(c)), Gaps(c))
\* D12/D13: the callbacks did not arrive in the order the algorithm relies on, and the lists evolved exactly as the
\* algorithm as built computes them
ChainKnownD12(c) == ChainWellFormed(c) /\ ~Orderly(Cbs(c), Gaps(c)) /\ ConformsAsBuilt(c)
=============================================================================
