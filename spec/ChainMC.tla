------------------------------ MODULE ChainMC ------------------------------
(* Exhaustive exploration of the chain confirmation algorithm (Chain.tla) over all sequences of callbacks of a small
   scope: offsets 0..MaxOff, lengths Lens, at most MaxCbs callbacks, the jumps GapSeq between the pieces.

     Sound             every confirmed entry joins a head to a tail that it reaches      (holds for EVERY order)
     CompleteOrderly   callbacks in the order the algorithm relies on => the confirmed list is ideal
     Complete          the same without the premise: VIOLATED as built (finding D12/D13; MC_Chain_D12.cfg)
     CompleteA1A2      with A1 and A2 only: violated (A3: the first length of a non-tail piece wins; MC_Chain_D13.cfg)
   CompleteA2A3 (without A1) is violated as well: the pruning of scan.c:476 is what needs A1 (MC_Chain_D12.cfg).          *)
EXTENDS Chain, TLC

CONSTANTS GapSeq, MaxOff, Lens, MaxCbs, OnlyOrderly
VARIABLES st, hist
vars == <<st, hist>>

\* jump sequences selectable from the configuration files
G_1_2 == <<[lo |-> 1, hi |-> 2]>>
G_0_1__1_2 == <<[lo |-> 0, hi |-> 1], [lo |-> 1, hi |-> 2]>>
G_0_1__1_inf == <<[lo |-> 0, hi |-> 1], [lo |-> 1, hi |-> -1]>>
G_0_2__0_1__1_2 == <<[lo |-> 0, hi |-> 2], [lo |-> 0, hi |-> 1], [lo |-> 1, hi |-> 2]>>

N == NPieces(GapSeq)
Init == st = InitState(GapSeq) /\ hist = <<>>
Deliver(p, off, len) ==
  /\ Len(hist) < MaxCbs
  /\ hist' = Append(hist, [p |-> p, off |-> off, len |-> len])
  /\ (OnlyOrderly => Orderly(hist', GapSeq))
  /\ st' = Callback(st, GapSeq, p, off, len)
HeadCb == \E off \in 0..MaxOff, len \in Lens : Deliver(1, off, len)
MiddleCb == \E p \in 2..(N - 1), off \in 0..MaxOff, len \in Lens : Deliver(p, off, len)
TailCb == \E off \in 0..MaxOff, len \in Lens : Deliver(N, off, len)
Next == HeadCb \/ MiddleCb \/ TailCb
Spec == Init /\ [][Next]_vars

TypeOK == /\ DOMAIN st.unc = 1..(N - 1)
          /\ \A p \in 1..(N - 1) : \A k \in 1..(Len(st.unc[p]) - 1) : st.unc[p][k].off < st.unc[p][k + 1].off
          /\ st = Run(GapSeq, hist)
Sound == ConfSound(st.conf, CBSet(hist), GapSeq)
Complete == ConfComplete(st.conf, CBSet(hist), GapSeq)
CompleteOrderly == Orderly(hist, GapSeq) => Complete
CompleteA1A2 == (A1(hist) /\ A2(hist, GapSeq)) => Complete
CompleteA2A3 == (A2(hist, GapSeq) /\ A3(hist, GapSeq)) => Complete
\* an unconfirmed match is only ever dropped when no later callback of an orderly sequence could use it
=============================================================================
