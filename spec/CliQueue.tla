------------------------------ MODULE CliQueue ------------------------------
(***************************************************************************)
(* The file queue of the command-line tool (cli/yara.c:382-472 and         *)
(* scanning_thread): one producer (directory walk), N consumer threads, a  *)
(* ring of Q+1 slots with head/tail, a mutex, two counting semaphores      *)
(* (used / unused slots) and file_queue_finish releasing FinishTokens      *)
(* tokens.  One action per statement between lock operations.              *)
(***************************************************************************)
EXTENDS Naturals, Integers, Sequences, FiniteSets, TLC

CONSTANTS NFiles,        \* number of files to enqueue (files are 1..NFiles, in this order)
          Consumers,     \* set of consumer ids (integers)
          Q,             \* MAX_QUEUED_FILES
          FinishTokens,  \* tokens released by file_queue_finish (YR_MAX_THREADS in the code)
          NoMutex        \* TRUE: the queue mutex is not taken (non-vacuity)

NoFile == 0
Files == [i \in 1..NFiles |-> i]
Slots == 0..Q
VARIABLES ring, head, tail, used, unused, qlock,
          pcP, todo,            \* producer: pc, files left
          pcC, got,             \* consumers: pc, file taken
          scanned,              \* bag: file -> times scanned
          overwritten           \* a slot was written while it still held an undelivered file
qvars == <<ring, head, tail, used, unused, qlock, pcP, todo, pcC, got, scanned, overwritten>>

Occupied == IF tail >= head THEN {i \in Slots : i >= head /\ i < tail} ELSE {i \in Slots : i >= head \/ i < tail}

\* ---- producer: file_queue_put
P_WaitUnused == /\ pcP = "wait" /\ todo # << >> /\ unused > 0
                /\ unused' = unused - 1 /\ pcP' = "lock"
                /\ UNCHANGED <<ring, head, tail, used, qlock, todo, pcC, got, scanned, overwritten>>
P_Lock == /\ pcP = "lock" /\ (NoMutex \/ qlock = 0)
          /\ qlock' = (IF NoMutex THEN qlock ELSE -1) /\ pcP' = "store"
          /\ UNCHANGED <<ring, head, tail, used, unused, todo, pcC, got, scanned, overwritten>>
P_Store == /\ pcP = "store"
           /\ overwritten' = (overwritten \/ tail \in Occupied)
           /\ ring' = [ring EXCEPT ![tail] = Head(todo)]
           /\ tail' = (tail + 1) % (Q + 1)
           /\ pcP' = "unlock"
           /\ UNCHANGED <<head, used, unused, qlock, todo, pcC, got, scanned>>
P_Unlock == /\ pcP = "unlock"
            /\ qlock' = (IF NoMutex THEN qlock ELSE 0)
            /\ used' = used + 1
            /\ todo' = Tail(todo)
            /\ pcP' = IF Len(todo) = 1 THEN "finish" ELSE "wait"
            /\ UNCHANGED <<ring, head, tail, unused, pcC, got, scanned, overwritten>>
P_Finish == /\ (pcP = "finish" \/ (pcP = "wait" /\ todo = << >>))
            /\ used' = used + FinishTokens /\ pcP' = "join"
            /\ UNCHANGED <<ring, head, tail, unused, qlock, todo, pcC, got, scanned, overwritten>>

\* ---- consumer c: file_queue_get -> scan -> file_queue_get ...
C_WaitUsed(c) == /\ pcC[c] = "wait" /\ used > 0
                 /\ used' = used - 1 /\ pcC' = [pcC EXCEPT ![c] = "lock"]
                 /\ UNCHANGED <<ring, head, tail, unused, qlock, pcP, todo, got, scanned, overwritten>>
C_Lock(c) == /\ pcC[c] = "lock" /\ (NoMutex \/ qlock = 0)
             /\ qlock' = (IF NoMutex THEN qlock ELSE c) /\ pcC' = [pcC EXCEPT ![c] = "take"]
             /\ UNCHANGED <<ring, head, tail, used, unused, pcP, todo, got, scanned, overwritten>>
C_Take(c) == /\ pcC[c] = "take"                          \* result = file_queue[queue_head].path (or NULL when empty)
             /\ got' = [got EXCEPT ![c] = IF head = tail THEN NoFile ELSE ring[head]]
             /\ pcC' = [pcC EXCEPT ![c] = IF head = tail THEN "unlock" ELSE "adv"]
             /\ UNCHANGED <<ring, head, tail, used, unused, qlock, pcP, todo, scanned, overwritten>>
C_Adv(c) == /\ pcC[c] = "adv"                            \* queue_head = (queue_head + 1) % (MAX_QUEUED_FILES + 1)
            /\ head' = (head + 1) % (Q + 1)
            /\ pcC' = [pcC EXCEPT ![c] = "unlock"]
            /\ UNCHANGED <<ring, tail, used, unused, qlock, pcP, todo, got, scanned, overwritten>>
C_Unlock(c) == /\ pcC[c] = "unlock"
               /\ qlock' = (IF NoMutex THEN qlock ELSE 0)
               /\ unused' = unused + 1                   \* released even when nothing was taken
               /\ pcC' = [pcC EXCEPT ![c] = IF got[c] = NoFile THEN "done" ELSE "scan"]
               /\ UNCHANGED <<ring, head, tail, used, pcP, todo, got, scanned, overwritten>>
C_Scan(c) == /\ pcC[c] = "scan"
             /\ scanned' = [scanned EXCEPT ![got[c]] = @ + 1]
             /\ pcC' = [pcC EXCEPT ![c] = "wait"]
             /\ UNCHANGED <<ring, head, tail, used, unused, qlock, pcP, todo, got, overwritten>>

FileSet == {Files[i] : i \in 1..Len(Files)}
QInit == /\ ring = [i \in Slots |-> NoFile] /\ head = 0 /\ tail = 0 /\ used = 0 /\ unused = Q /\ qlock = 0
         /\ pcP = "wait" /\ todo = Files /\ pcC = [c \in Consumers |-> "wait"] /\ got = [c \in Consumers |-> NoFile]
         /\ scanned = [f \in FileSet |-> 0] /\ overwritten = FALSE
QNext == \/ P_WaitUnused \/ P_Lock \/ P_Store \/ P_Unlock \/ P_Finish
         \/ \E c \in Consumers : C_WaitUsed(c) \/ C_Lock(c) \/ C_Take(c) \/ C_Adv(c) \/ C_Unlock(c) \/ C_Scan(c)
QSpec == QInit /\ [][QNext]_qvars /\ WF_qvars(QNext)
QFairSpec == QInit /\ [][QNext]_qvars /\ WF_qvars(P_WaitUnused) /\ WF_qvars(P_Lock) /\ WF_qvars(P_Store) /\ WF_qvars(P_Unlock) /\ WF_qvars(P_Finish)
             /\ \A c \in Consumers : WF_qvars(C_WaitUsed(c)) /\ WF_qvars(C_Lock(c)) /\ WF_qvars(C_Take(c)) /\ WF_qvars(C_Adv(c)) /\ WF_qvars(C_Unlock(c)) /\ WF_qvars(C_Scan(c))

NoSlotOverwritten == ~overwritten
AtMostOnce == \A f \in FileSet : scanned[f] <= 1
AllExited == \A c \in Consumers : pcC[c] = "done"
ExactlyOnce == (AllExited /\ pcP = "join") => \A f \in FileSet : scanned[f] = 1
MutexOK == NoMutex \/ (Cardinality({c \in Consumers : pcC[c] \in {"take", "adv", "unlock"}}) + (IF pcP \in {"store", "unlock"} THEN 1 ELSE 0) <= 1)
Termination == <>(AllExited)

\* ---- judgement of a recorded queue trace (hook H6): events <<op, seq, head, tail, path>> in mutex order
\* put: stores at the old tail; get: takes from the old head or reports empty; every path is got exactly once, in FIFO order
QueueTraceOK(c) ==
  LET evs == c.events
      puts == SelectSeq(evs, LAMBDA e : e.op = "put")
      gets == SelectSeq(evs, LAMBDA e : e.op = "get" /\ e.path # "-")
  IN /\ \A i \in 1..Len(evs) : evs[i].seq = i                                       \* nothing lost, mutex order
     /\ Len(puts) = Len(gets)                                                        \* every file put is taken ...
     /\ \A i \in 1..Len(puts) : puts[i].path = gets[i].path                          \* ... exactly once, in FIFO order
     /\ \A i \in 1..Len(puts) : puts[i].tail = (i % (c.q + 1))                       \* tail after the i-th put
     /\ \A i \in 1..Len(gets) : gets[i].head = (i % (c.q + 1))                       \* head after the i-th successful get
     /\ \A i \in 1..Len(evs) : LET np == Cardinality({j \in 1..i : evs[j].op = "put"})
                                   ng == Cardinality({j \in 1..i : evs[j].op = "get" /\ evs[j].path # "-"})
                               IN np - ng >= 0 /\ np - ng <= c.q                     \* never more than Q files in flight
=============================================================================
