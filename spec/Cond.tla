-------------------------------- MODULE Cond --------------------------------
(***************************************************************************)
(* Reference semantics of YARA rule conditions (manual writingrules.rst:   *)
(* "Conditions", "Undefined values", operator precedence table).           *)
(*                                                                         *)
(* Values:  [ty |-> "u"]                    undefined                      *)
(*          [ty |-> "i", v |-> Int]         integer (also booleans: 0 / 1) *)
(*          [ty |-> "f", v |-> Int]         float, scaled by 4 (quarters)  *)
(*          [ty |-> "s", v |-> Seq(Byte)]   string                         *)
(* Environment env:                                                        *)
(*   buf      bytes scanned, filesize, entrypoint (-1: undefined)          *)
(*   m        [string id -> Seq(<<offset, length>>)]  the TRUE match lists *)
(*   ext      [name -> value]   external variables in force for the scan   *)
(*   rules    [name -> BOOLEAN] verdicts of earlier rules                  *)
(* Integers are kept small (|x| < 2^23); the 64-bit boundary rules are     *)
(* stated symbolically: shift >= 64 -> 0, shift < 0 -> undefined,          *)
(* x \ 0 and x % 0 -> undefined.                                           *)
(***************************************************************************)
EXTENDS Bytes, TLC

U == [ty |-> "u"]
I(n) == [ty |-> "i", v |-> n]
F(q) == [ty |-> "f", v |-> q]
S(s) == [ty |-> "s", v |-> s]
BoolV(b) == I(IF b THEN 1 ELSE 0)
IsU(x) == x.ty = "u"

\* two's complement bit operations on small integers (sign extension from 24 bits)
W == 16777216
Enc(a) == IF a < 0 THEN a + W ELSE a
Dec(a) == IF a >= W \div 2 THEN a - W ELSE a
BAnd(a, b) == Dec(Enc(a) & Enc(b))
BOr(a, b)  == Dec(Enc(a) | Enc(b))
BXor2(a, b) == Dec(Enc(a) ^^ Enc(b))
BNot(a) == -a - 1
Pow2(n) == LET RECURSIVE P(_)
               P(k) == IF k = 0 THEN 1 ELSE 2 * P(k - 1)
           IN P(n)
\* C-style truncating division / remainder (sign of the dividend)
Abs(a) == IF a < 0 THEN -a ELSE a
TDiv(a, b) == LET q == Abs(a) \div Abs(b) IN IF (a < 0) # (b < 0) THEN -q ELSE q
TMod(a, b) == a - b * TDiv(a, b)
Shl(a, n) == IF n >= 64 THEN 0 ELSE IF n > 22 THEN 0 ELSE a * Pow2(n)     \* operands are kept small enough
Shr(a, n) == IF n >= 64 THEN 0 ELSE IF n > 30 THEN (IF a < 0 THEN -1 ELSE 0)
             ELSE LET d == Pow2(n) IN IF a >= 0 THEN a \div d ELSE -((-a + d - 1) \div d)

\* numeric promotion: int op float -> float
AsQ(x) == IF x.ty = "f" THEN x.v ELSE 4 * x.v
Num(x) == x.ty \in {"i", "f"}

Arith(op, a, b) ==
  IF IsU(a) \/ IsU(b) THEN U
  ELSE IF a.ty = "f" \/ b.ty = "f"
    THEN CASE op = "+" -> F(AsQ(a) + AsQ(b))
           [] op = "-" -> F(AsQ(a) - AsQ(b))
           [] op = "*" -> F((AsQ(a) * AsQ(b)) \div 4)      \* generator keeps products exact
           [] OTHER -> U
  ELSE CASE op = "+" -> I(a.v + b.v)
         [] op = "-" -> I(a.v - b.v)
         [] op = "*" -> I(a.v * b.v)
         [] op = "\\" -> IF b.v = 0 THEN U ELSE I(TDiv(a.v, b.v))
         [] op = "%" -> IF b.v = 0 THEN U ELSE I(TMod(a.v, b.v))
         [] op = "&" -> I(BAnd(a.v, b.v))
         [] op = "|" -> I(BOr(a.v, b.v))
         [] op = "^" -> I(BXor2(a.v, b.v))
         [] op = "<<" -> IF b.v < 0 THEN U ELSE I(Shl(a.v, b.v))
         [] op = ">>" -> IF b.v < 0 THEN U ELSE I(Shr(a.v, b.v))

SeqLess(s, t) ==     \* lexicographic on bytes
  \E k \in 1..(Min2(Len(s), Len(t)) + 1) :
     /\ \A j \in 1..(k - 1) : s[j] = t[j]
     /\ IF k > Len(s) THEN k <= Len(t) ELSE (k <= Len(t) /\ s[k] < t[k])

Cmp(op, a, b) ==
  IF IsU(a) \/ IsU(b) THEN U
  ELSE IF a.ty = "s" /\ b.ty = "s"
    THEN BoolV(CASE op = "==" -> a.v = b.v [] op = "!=" -> a.v # b.v
                 [] op = "<" -> SeqLess(a.v, b.v) [] op = "<=" -> SeqLess(a.v, b.v) \/ a.v = b.v
                 [] op = ">" -> SeqLess(b.v, a.v) [] op = ">=" -> SeqLess(b.v, a.v) \/ a.v = b.v)
  ELSE LET x == IF a.ty = "f" \/ b.ty = "f" THEN AsQ(a) ELSE a.v
           y == IF a.ty = "f" \/ b.ty = "f" THEN AsQ(b) ELSE b.v
       IN BoolV(CASE op = "==" -> x = y [] op = "!=" -> x # y [] op = "<" -> x < y
                  [] op = "<=" -> x <= y [] op = ">" -> x > y [] op = ">=" -> x >= y)

LowerSeq(s) == [k \in 1..Len(s) |-> Lower(s[k])]
ContainsSeq(s, t) == \E o \in 0..(Len(s) - Len(t)) : \A k \in 1..Len(t) : s[o + k] = t[k]
StartsSeq(s, t) == Len(t) <= Len(s) /\ \A k \in 1..Len(t) : s[k] = t[k]
EndsSeq(s, t) == Len(t) <= Len(s) /\ \A k \in 1..Len(t) : s[Len(s) - Len(t) + k] = t[k]

StrOp(op, a, b) ==
  IF IsU(a) \/ IsU(b) THEN U
  ELSE BoolV(CASE op = "contains"    -> ContainsSeq(a.v, b.v)
               [] op = "icontains"   -> ContainsSeq(LowerSeq(a.v), LowerSeq(b.v))
               [] op = "startswith"  -> StartsSeq(a.v, b.v)
               [] op = "istartswith" -> StartsSeq(LowerSeq(a.v), LowerSeq(b.v))
               [] op = "endswith"    -> EndsSeq(a.v, b.v)
               [] op = "iendswith"   -> EndsSeq(LowerSeq(a.v), LowerSeq(b.v))
               [] op = "iequals"     -> LowerSeq(a.v) = LowerSeq(b.v))

\* truth of a value used as a boolean; undefined is "undefined" here, false only at and / or / the rule verdict
Truthy(x) == IF x.ty = "s" THEN Len(x.v) > 0 ELSE x.v # 0

\* little / big endian readers; undefined when any byte lies outside the buffer
ReadInt(buf, off, n, be, signed) ==
  IF off < 0 \/ off + n > Len(buf) THEN U
  ELSE LET byte(k) == buf[off + (IF be THEN n - k ELSE k + 1)]       \* k-th least significant byte, k = 0..n-1
           top == byte(n - 1)
           \* two's complement: the most significant byte counts as top - 256 when the value is signed and its top bit is set
           \* (so that 32-bit signed reads stay inside TLC's integers; unsigned 32-bit reads are generated with top < 0x80)
           msb == IF signed /\ top >= 128 THEN top - 256 ELSE top
           RECURSIVE V(_)
           V(k) == IF k = n - 1 THEN msb * Pow2(8 * k) ELSE byte(k) * Pow2(8 * k) + V(k + 1)
       IN I(V(0))

\* ---- match-list queries (offsets 0-based; indexes of @ and ! are 1-based)
Matches(env, s) == env.m[s]
Found(env, s) == Len(Matches(env, s)) > 0
FoundAt(env, s, off) == \E k \in 1..Len(Matches(env, s)) : Matches(env, s)[k][1] = off
FoundIn(env, s, lo, hi) == \E k \in 1..Len(Matches(env, s)) : Matches(env, s)[k][1] >= lo /\ Matches(env, s)[k][1] <= hi
CountIn(env, s, lo, hi) == Cardinality({k \in 1..Len(Matches(env, s)) : Matches(env, s)[k][1] >= lo /\ Matches(env, s)[k][1] <= hi})

\* quantifier q over n items of which t are true:  [k |-> "all" | "any" | "none" | "n", v |-> value]
Quant(q, qv, t, n) ==
  CASE q = "all"  -> BoolV(t = n)
    [] q = "any"  -> BoolV(t >= 1)
    [] q = "none" -> BoolV(t = 0)
    [] q = "n"    -> IF IsU(qv) THEN U
                     ELSE IF qv.v = 0 THEN BoolV(t = 0)      \* "0 of" means none (manual, since 4.3)
                     ELSE BoolV(t >= qv.v)
    [] q = "pct"  -> IF IsU(qv) \/ n = 0 THEN U ELSE BoolV(t * 100 >= qv.v * n)

\* AS BUILT (exec.c OP_OF / OP_ITER_CONDITION / OP_ITER_END): the quantifier `all` is encoded as an undefined value on the
\* stack, so an integer quantifier that evaluates to undefined behaves as `all` (known finding D15); with ab = FALSE this is
\* the documented semantics
QuantAB(ab, q, qv, t, n) == IF ab /\ q = "n" /\ IsU(qv) THEN BoolV(t = n) ELSE Quant(q, qv, t, n)

RECURSIVE Eval(_, _, _)
Eval(e, env, loc) ==
  LET E(x) == Eval(x, env, loc) IN
  CASE e.t = "int" -> I(e.v)
    [] e.t = "flt" -> F(e.v)
    [] e.t = "str" -> S(e.v)
    [] e.t = "true" -> I(1)
    [] e.t = "false" -> I(0)
    [] e.t = "filesize" -> I(env.filesize)
    [] e.t = "entrypoint" -> IF env.entrypoint < 0 THEN U ELSE I(env.entrypoint)
    [] e.t = "ext" -> env.ext[e.name]
    [] e.t = "rule" -> BoolV(env.rules[e.name])
    [] e.t = "var" -> loc.vars[e.name]
    [] e.t = "neg" -> LET x == E(e.x) IN IF IsU(x) THEN U ELSE IF x.ty = "f" THEN F(-x.v) ELSE I(-x.v)
    [] e.t = "bnot" -> LET x == E(e.x) IN IF IsU(x) THEN U ELSE I(BNot(x.v))
    [] e.t = "bin" -> Arith(e.op, E(e.l), E(e.r))
    [] e.t = "cmp" -> Cmp(e.op, E(e.l), E(e.r))
    [] e.t = "strop" -> StrOp(e.op, E(e.l), E(e.r))
    [] e.t = "and" -> LET a == E(e.l) b == E(e.r)
                      IN BoolV((~IsU(a) /\ Truthy(a)) /\ (~IsU(b) /\ Truthy(b)))
    [] e.t = "or"  -> LET a == E(e.l) b == E(e.r)
                      IN BoolV((~IsU(a) /\ Truthy(a)) \/ (~IsU(b) /\ Truthy(b)))
    [] e.t = "not" -> LET a == E(e.x) IN IF IsU(a) THEN U ELSE BoolV(~Truthy(a))
    [] e.t = "defined" -> BoolV(~IsU(E(e.x)))
    [] e.t = "paren" -> E(e.x)
    \* strings ("cur" = the anonymous string of the enclosing for..of)
    [] e.t = "sfound" -> BoolV(Found(env, IF e.s = "cur" THEN loc.cur ELSE e.s))
    [] e.t = "sat" -> LET x == E(e.x) IN IF IsU(x) THEN U
                      ELSE BoolV(FoundAt(env, IF e.s = "cur" THEN loc.cur ELSE e.s, x.v))
    [] e.t = "sin" -> LET lo == E(e.lo) hi == E(e.hi) IN IF IsU(lo) \/ IsU(hi) THEN U
                      ELSE BoolV(FoundIn(env, IF e.s = "cur" THEN loc.cur ELSE e.s, lo.v, hi.v))
    [] e.t = "scount" -> I(Len(Matches(env, IF e.s = "cur" THEN loc.cur ELSE e.s)))
    [] e.t = "scountin" -> LET lo == E(e.lo) hi == E(e.hi) IN IF IsU(lo) \/ IsU(hi) THEN U
                           ELSE I(CountIn(env, IF e.s = "cur" THEN loc.cur ELSE e.s, lo.v, hi.v))
    [] e.t = "soff" -> LET i == E(e.i) ml == Matches(env, IF e.s = "cur" THEN loc.cur ELSE e.s)
                       IN IF IsU(i) THEN U ELSE IF i.v < 1 \/ i.v > Len(ml) THEN U ELSE I(ml[i.v][1])
    [] e.t = "slen" -> LET i == E(e.i) ml == Matches(env, IF e.s = "cur" THEN loc.cur ELSE e.s)
                       IN IF IsU(i) THEN U ELSE IF i.v < 1 \/ i.v > Len(ml) THEN U ELSE I(ml[i.v][2])
    [] e.t = "uint" -> LET x == E(e.x) IN IF IsU(x) THEN U ELSE ReadInt(env.buf, x.v, e.n, e.be, e.signed)
    \* q of (set) [in (lo..hi)] [at x]
    [] e.t = "of" ->
         LET n == Len(e.set)
             qv == IF e.q \in {"n", "pct"} THEN E(e.qv) ELSE U
             t == Cardinality({k \in 1..n : Found(env, e.set[k])})
         IN QuantAB(loc.ab, e.q, qv, t, n)
    [] e.t = "ofin" ->
         LET n == Len(e.set) lo == E(e.lo) hi == E(e.hi)
             qv == IF e.q \in {"n", "pct"} THEN E(e.qv) ELSE U
         IN IF IsU(lo) \/ IsU(hi) THEN U
            ELSE QuantAB(loc.ab, e.q, qv, Cardinality({k \in 1..n : FoundIn(env, e.set[k], lo.v, hi.v)}), n)
    [] e.t = "ofat" ->
         LET n == Len(e.set) x == E(e.x)
             qv == IF e.q \in {"n", "pct"} THEN E(e.qv) ELSE U
         IN IF IsU(x) THEN U
            ELSE QuantAB(loc.ab, e.q, qv, Cardinality({k \in 1..n : FoundAt(env, e.set[k], x.v)}), n)
    [] e.t = "ofrules" ->
         LET n == Len(e.set)
             qv == IF e.q \in {"n", "pct"} THEN E(e.qv) ELSE U
         IN QuantAB(loc.ab, e.q, qv, Cardinality({k \in 1..n : env.rules[e.set[k]]}), n)
    \* for q of (set) : ( body )      - the body sees the current string through $ # @ !
    [] e.t = "forof" ->
         LET n == Len(e.set)
             qv == IF e.q \in {"n", "pct"} THEN E(e.qv) ELSE U
             tv(k) == Eval(e.body, env, [loc EXCEPT !.cur = e.set[k]])
             t == Cardinality({k \in 1..n : ~IsU(tv(k)) /\ Truthy(tv(k))})
         IN QuantAB(loc.ab, e.q, qv, t, n)
    \* for q i in (lo..hi) / (v1, v2, ...) : ( body )
    [] e.t = "forin" ->
         LET qv == IF e.q \in {"n", "pct"} THEN E(e.qv) ELSE U
             rangeUndef == e.it = "range" /\ (IsU(E(e.lo)) \/ IsU(E(e.hi)))
             items == IF e.it = "range"
                        THEN [k \in 1..Max2(E(e.hi).v - E(e.lo).v + 1, 0) |-> I(E(e.lo).v + k - 1)]
                        ELSE [k \in 1..Len(e.vals) |-> E(e.vals[k])]
         IN IF rangeUndef THEN (IF loc.ab THEN BoolV(FALSE) ELSE U)     \* as built (iter_int_range_next): an undefined bound is an empty range (D19)
            ELSE LET n == Len(items)
                     tv(k) == Eval(e.body, env, [loc EXCEPT !.vars = (e.var :> items[k]) @@ loc.vars])
                     t == Cardinality({k \in 1..n : ~IsU(tv(k)) /\ Truthy(tv(k))})
                 IN IF n = 0 THEN BoolV(FALSE)      \* assumption (manual silent, exec.c:747): a loop over nothing is false
                    ELSE QuantAB(loc.ab, e.q, qv, t, n)

NoLoc == [cur |-> "none", vars |-> << >>, ab |-> FALSE]
LocAB == [cur |-> "none", vars |-> << >>, ab |-> TRUE]
\* the verdict as the virtual machine computes it where it is known to differ from the manual (D15, D19)
VerdictAB(e, env) == LET v == Eval(e, env, LocAB) IN ~IsU(v) /\ Truthy(v)

\* the verdict of a rule: its condition is defined and true
Verdict(e, env) == LET v == Eval(e, env, NoLoc) IN ~IsU(v) /\ Truthy(v)

\* D15 signature: a quantifier position holding an undefined integer
RECURSIVE HasUndefQuant(_, _, _)
HasUndefQuant(e, env, loc) ==
  LET H(x) == HasUndefQuant(x, env, loc) IN
  CASE e.t \in {"of", "ofin", "ofat", "ofrules"} -> e.q \in {"n", "pct"} /\ IsU(Eval(e.qv, env, loc))
    [] e.t = "forof" -> (e.q \in {"n", "pct"} /\ IsU(Eval(e.qv, env, loc)))
                        \/ \E k \in 1..Len(e.set) : HasUndefQuant(e.body, env, [loc EXCEPT !.cur = e.set[k]])
    [] e.t = "forin" -> HasUndefQuant(e.body, env, [loc EXCEPT !.vars = (e.var :> I(0)) @@ loc.vars])
    [] e.t \in {"and", "or", "cmp", "bin", "strop"} -> H(e.l) \/ H(e.r)
    [] e.t \in {"not", "defined", "paren", "neg", "bnot"} -> H(e.x)
    [] OTHER -> FALSE

\* D19 signature: a for..in range bound that evaluates to undefined (and D15 for its quantifier)
RECURSIVE HasUndefRange(_, _, _)
HasUndefRange(e, env, loc) ==
  LET H(x) == HasUndefRange(x, env, loc) IN
  CASE e.t = "forin" -> \/ (e.it = "range" /\ (IsU(Eval(e.lo, env, loc)) \/ IsU(Eval(e.hi, env, loc))))
                        \/ (e.q \in {"n", "pct"} /\ IsU(Eval(e.qv, env, loc)))
                        \/ HasUndefRange(e.body, env, [loc EXCEPT !.vars = (e.var :> I(0)) @@ loc.vars])
    [] e.t = "forof" -> \E k \in 1..Len(e.set) : HasUndefRange(e.body, env, [loc EXCEPT !.cur = e.set[k]])
    [] e.t \in {"and", "or"} -> H(e.l) \/ H(e.r)
    [] e.t \in {"not", "defined", "paren"} -> H(e.x)
    [] OTHER -> FALSE
\* ---------------------------------------------------------------- static checks of the compiler (grammar.y, rule `range`)
\* compile-time value of an integer expression: literals, parentheses, unary and binary operators over constants are
\* folded (Fold.tla); everything else (filesize, externals, string counts / offsets, function calls, loop variables) is
\* not a constant for the compiler.  U stands for "not a constant".
RECURSIVE CTV(_)
CTV(e) ==
  CASE e.t = "int" -> I(e.v)
    [] e.t = "paren" -> CTV(e.x)
    [] e.t = "neg" -> LET x == CTV(e.x) IN IF IsU(x) \/ x.ty # "i" THEN U ELSE I(0 - x.v)
    [] e.t = "bnot" -> LET x == CTV(e.x) IN IF IsU(x) \/ x.ty # "i" THEN U ELSE I(BNot(x.v))
    [] e.t = "bin" -> LET l == CTV(e.l) r == CTV(e.r) IN
                      \* grammar.y: a shift by a CONSTANT count of 64 or more is the constant 0 whatever its left operand is
                      IF e.op \in {"<<", ">>"} /\ ~IsU(r) /\ r.ty = "i" /\ r.v >= 64 THEN I(0)
                      ELSE IF IsU(l) \/ IsU(r) \/ l.ty # "i" \/ r.ty # "i" THEN U ELSE Arith(e.op, l, r)
    [] OTHER -> U
\* a range (lo..hi) is rejected at compile time exactly when both bounds are constants and lo > hi or lo < 0;
\* (n..n) is a valid range: ranges are inclusive
RangeRejected(lo, hi) == LET l == CTV(lo) h == CTV(hi) IN ~IsU(l) /\ ~IsU(h) /\ (l.v > h.v \/ l.v < 0)
RECURSIVE StaticRangeReject(_)
StaticRangeReject(e) ==
  LET H(x) == StaticRangeReject(x) IN
  CASE e.t \in {"sin", "scountin"} -> RangeRejected(e.lo, e.hi) \/ H(e.lo) \/ H(e.hi)
    [] e.t = "ofin" -> RangeRejected(e.lo, e.hi) \/ H(e.lo) \/ H(e.hi) \/ (e.q \in {"n", "pct"} /\ H(e.qv))
    [] e.t \in {"of", "ofrules"} -> e.q \in {"n", "pct"} /\ H(e.qv)
    [] e.t = "ofat" -> H(e.x) \/ (e.q \in {"n", "pct"} /\ H(e.qv))
    [] e.t = "forof" -> H(e.body) \/ (e.q \in {"n", "pct"} /\ H(e.qv))
    [] e.t = "forin" -> \/ H(e.body) \/ (e.q \in {"n", "pct"} /\ H(e.qv))
                        \/ (e.it = "range" /\ (RangeRejected(e.lo, e.hi) \/ H(e.lo) \/ H(e.hi)))
                        \/ (e.it = "enum" /\ \E k \in 1..Len(e.vals) : H(e.vals[k]))
    [] e.t \in {"and", "or", "cmp", "bin", "strop"} -> H(e.l) \/ H(e.r)
    [] e.t \in {"not", "defined", "paren", "neg", "bnot", "sat", "uint"} -> H(e.x)
    [] e.t \in {"soff", "slen"} -> H(e.i)
    [] OTHER -> FALSE
\* record of kind "static": the compiler's decision on a generated condition as far as ranges are concerned
StaticOK(c) == c.rejected = StaticRangeReject(c.ast)
=============================================================================
