----------------------------- MODULE Externals -----------------------------
(***************************************************************************)
(* External variables: three environments - compiler, rule set, scanner -  *)
(* with the type-compatibility tables and result codes of compiler.c:745,  *)
(* rules.c:44-170 and scanner.c:406-463, and the EXPECTATION of C20        *)
(* written from the property statement: a scan sees the most specific      *)
(* value (scanner's own definition, else the rule-set value in force when  *)
(* the scanner was created, else the compile-time value); definitions on   *)
(* one scanner never affect another scanner or the rule set; rejected      *)
(* definitions change nothing.                                             *)
(* SharedTable = TRUE models a scanner that writes through to the rule     *)
(* set's table (the bug the isolation clause excludes) - non-vacuity.      *)
(***************************************************************************)
EXTENDS Naturals, Integers, Sequences, FiniteSets, TLC

CONSTANTS Scanners, SharedTable

OK == 0
INVALID_ARGUMENT == 29
INVALID_TYPE == 48
DUPLICATED == 56

VARIABLES
  stage,        \* "compiling" | "compiled"
  cenv,         \* compiler: identifier -> [ty, v]
  renv,         \* rule set table
  senv,         \* [scanner -> table]  (objects_table of the scanner: a snapshot taken at creation)
  alive,        \* scanners created
  \* expectation (history variables, written from the property)
  sdefs,        \* [scanner -> identifier -> value]  definitions made on that scanner
  snap,         \* [scanner -> identifier -> value]  rule-set values in force when the scanner was created
  rexp,         \* identifier -> value: the rule-set values according to the history of rule-set level definitions
  lastRet

evars == <<stage, cenv, renv, senv, alive, sdefs, snap, rexp, lastRet>>

Empty == << >>
Has(env, id) == id \in DOMAIN env

\* a value as stored in a variable of type ty when defined through the API for type dty (int and bool share an object type)
Conv(ty, dty, v) ==
  IF ty = "b" /\ dty = "i" THEN (v # 0)
  ELSE IF ty = "i" /\ dty = "b" THEN (IF v THEN 1 ELSE 0)
  ELSE v

CDefine(id, ty, v) ==                   \* yr_compiler_define_*_variable
  /\ stage = "compiling"
  /\ IF Has(cenv, id)
       THEN lastRet' = DUPLICATED /\ UNCHANGED cenv
       ELSE lastRet' = OK /\ cenv' = cenv @@ (id :> [ty |-> ty, v |-> v])
  /\ UNCHANGED <<stage, renv, senv, alive, sdefs, snap, rexp>>

GetRules ==                             \* yr_compiler_get_rules: the table is copied into the rule set
  /\ stage = "compiling"
  /\ stage' = "compiled" /\ renv' = cenv /\ lastRet' = OK
  /\ rexp' = [id \in DOMAIN cenv |-> cenv[id].v]
  /\ UNCHANGED <<cenv, senv, alive, sdefs, snap>>

RDefine(id, ty, v) ==                   \* yr_rules_define_*_variable
  /\ stage = "compiled"
  /\ IF ~Has(renv, id) THEN lastRet' = INVALID_ARGUMENT /\ UNCHANGED <<renv, rexp>>
     ELSE IF renv[id].ty # ty THEN lastRet' = INVALID_TYPE /\ UNCHANGED <<renv, rexp>>
     ELSE lastRet' = OK /\ renv' = [renv EXCEPT ![id].v = v] /\ rexp' = [rexp EXCEPT ![id] = v]
  /\ UNCHANGED <<stage, cenv, senv, alive, sdefs, snap>>

ScannerCreate(s) ==                     \* yr_scanner_create: one object per external, initialised from the rule set
  /\ stage = "compiled" /\ s \notin alive
  /\ alive' = alive \cup {s}
  /\ senv' = [senv EXCEPT ![s] = renv]
  /\ snap' = [snap EXCEPT ![s] = rexp]
  /\ sdefs' = [sdefs EXCEPT ![s] = Empty]
  /\ lastRet' = OK
  /\ UNCHANGED <<stage, cenv, renv, rexp>>

SCompatible(vty, dty) == (vty \in {"i", "b"} /\ dty \in {"i", "b"}) \/ vty = dty

SDefine(s, id, dty, v) ==               \* yr_scanner_define_*_variable
  /\ s \in alive
  /\ IF ~Has(senv[s], id) THEN lastRet' = INVALID_ARGUMENT /\ UNCHANGED <<senv, renv, sdefs>>
     ELSE IF ~SCompatible(senv[s][id].ty, dty) THEN lastRet' = INVALID_TYPE /\ UNCHANGED <<senv, renv, sdefs>>
     ELSE LET nv == Conv(senv[s][id].ty, dty, v)
          IN /\ lastRet' = OK
             /\ senv' = [senv EXCEPT ![s][id].v = nv]
             /\ renv' = IF SharedTable THEN [renv EXCEPT ![id].v = nv] ELSE renv
             /\ sdefs' = [sdefs EXCEPT ![s] = (id :> nv) @@ @]
  /\ UNCHANGED <<stage, cenv, alive, snap, rexp>>

ScannerDestroy(s) ==
  /\ s \in alive
  /\ alive' = alive \ {s} /\ lastRet' = OK
  /\ UNCHANGED <<stage, cenv, renv, senv, sdefs, snap, rexp>>

\* what a scan with scanner s observes for identifier id (mechanism)
Seen(s, id) == senv[s][id].v
\* what it must observe (property)
Expected(s, id) == IF Has(sdefs[s], id) THEN sdefs[s][id] ELSE snap[s][id]

MostSpecificWins == \A s \in alive : \A id \in DOMAIN senv[s] : Seen(s, id) = Expected(s, id)
\* the rule-set table holds exactly what the rule-set level API put there (no scanner ever writes it)
RulesTableIsolated == stage = "compiled" => \A id \in DOMAIN renv : renv[id].v = rexp[id]
TypeOK == stage \in {"compiling", "compiled"} /\ alive \subseteq Scanners

EInit ==
  /\ stage = "compiling" /\ cenv = Empty /\ renv = Empty
  /\ senv = [s \in Scanners |-> Empty] /\ alive = {}
  /\ sdefs = [s \in Scanners |-> Empty] /\ snap = [s \in Scanners |-> Empty] /\ rexp = Empty /\ lastRet = OK
=============================================================================
