SPECIFICATION GSpec
CONSTANTS
  Scanners = {1, 2}
  SharedTable = FALSE
  MaxOps = 5
INVARIANTS TypeOK MostSpecificWins RulesTableIsolated
CHECK_DEADLOCK FALSE
