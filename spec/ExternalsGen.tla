---------------------------- MODULE ExternalsGen ----------------------------
(* Behaviour generator for the spec -> implementation direction of C20.     *)
(* TLC explores ExternalsMC exhaustively; for every transition it prints    *)
(* one JSON line <<from-state, action with arguments, to-state>>.           *)
(* checks/externals.py turns the state graph into one implementation test   *)
(* per transition (shortest path to the source state, then the action):     *)
(* after every action the real result code must be the model's lastRet, and *)
(* in the target state every live scanner must observe exactly senv[s].     *)
EXTENDS ExternalsMC, Json

StateJ == [stage |-> stage, cenv |-> cenv, renv |-> renv, senv |-> senv, alive |-> alive, ret |-> lastRet,
           sdefs |-> sdefs, snap |-> snap, rexp |-> rexp]
Emit(a) == PrintT(ToJson([edge |-> 1, from |-> StateJ, act |-> a, to |-> StateJ']))

GNext ==
  /\ nops < MaxOps /\ nops' = nops + 1
  /\ \/ \E id \in {"ia", "ba", "sa"} : \E v \in ValsOf(TyOf[id]) :
          CDefine(id, TyOf[id], v) /\ Emit([op |-> "CDefine", id |-> id, ty |-> TyOf[id], v |-> v])
     \/ GetRules /\ Emit([op |-> "GetRules"])
     \/ \E id \in Ids, ty \in Tys : \E v \in ValsOf(ty) :
          RDefine(id, ty, v) /\ Emit([op |-> "RDefine", id |-> id, ty |-> ty, v |-> v])
     \/ \E s \in Scanners : \/ ScannerCreate(s) /\ Emit([op |-> "ScannerCreate", s |-> s])
                            \/ ScannerDestroy(s) /\ Emit([op |-> "ScannerDestroy", s |-> s])
     \/ \E s \in Scanners, id \in Ids, ty \in Tys : \E v \in ValsOf(ty) :
          SDefine(s, id, ty, v) /\ Emit([op |-> "SDefine", s |-> s, id |-> id, ty |-> ty, v |-> v])
GSpec == Init /\ [][GNext]_<<evars, nops>>
=============================================================================
