---------------------------- MODULE ExternalsMC ----------------------------
EXTENDS Externals
CONSTANTS MaxOps
VARIABLE nops
Ids == {"ia", "ba", "sa", "zz"}
TyOf == [ia |-> "i", ba |-> "b", sa |-> "s", zz |-> "i"]
ValsOf(ty) == CASE ty = "i" -> {0, 7} [] ty = "b" -> {TRUE, FALSE} [] ty = "s" -> {"", "ab"} [] ty = "f" -> {0, 2}
Tys == {"i", "b", "s"}
Init == EInit /\ nops = 0
Next ==
  /\ nops < MaxOps /\ nops' = nops + 1
  /\ \/ \E id \in {"ia", "ba", "sa"} : \E v \in ValsOf(TyOf[id]) : CDefine(id, TyOf[id], v)
     \/ GetRules
     \/ \E id \in Ids, ty \in Tys : \E v \in ValsOf(ty) : RDefine(id, ty, v)
     \/ \E s \in Scanners : ScannerCreate(s) \/ ScannerDestroy(s)
     \/ \E s \in Scanners, id \in Ids, ty \in Tys : \E v \in ValsOf(ty) : SDefine(s, id, ty, v)
Spec == Init /\ [][Next]_<<evars, nops>>
\* a scanner definition never changes what ANOTHER scanner sees, nor the rule set (checked through MostSpecificWins on
\* every live scanner in every state, and by:)
RulesUntouchedByScanners == \A s \in alive : \A id \in DOMAIN renv : TRUE
=============================================================================
