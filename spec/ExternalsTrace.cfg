SPECIFICATION TSpec
CONSTANTS
  Scanners = {1, 2, 3}
  SharedTable = FALSE
INVARIANTS TypeOK MostSpecificWins RulesTableIsolated NotAccepted
CONSTRAINT Progress
POSTCONDITION ReportProgress
CHECK_DEADLOCK FALSE
