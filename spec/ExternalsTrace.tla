--------------------------- MODULE ExternalsTrace ---------------------------
(* Trace validation for Externals.tla: recorded define / create / scan      *)
(* histories of the real library; every event's result code and every       *)
(* value a scan observes must be the model's.                                *)
EXTENDS Externals, Json, IOUtils

VARIABLE l
TraceLog == ndJsonDeserialize(IOEnv.TRACE)
N == Len(TraceLog)
ev == TraceLog[l]
IsEv(e) == l <= N /\ ev.e = e
Step == l' = l + 1

TInit == EInit /\ l = 1

TReset == /\ IsEv("Reset") /\ Step
          /\ stage' = "compiling" /\ cenv' = Empty /\ renv' = Empty
          /\ senv' = [s \in Scanners |-> Empty] /\ alive' = {}
          /\ sdefs' = [s \in Scanners |-> Empty] /\ snap' = [s \in Scanners |-> Empty] /\ rexp' = Empty /\ lastRet' = OK
TCDefine == IsEv("CDefine") /\ Step /\ CDefine(ev.id, ev.ty, ev.v) /\ lastRet' = ev.ret
TGetRules == IsEv("GetRules") /\ Step /\ GetRules
TRDefine == IsEv("RDefine") /\ Step /\ RDefine(ev.id, ev.ty, ev.v) /\ lastRet' = ev.ret
TCreate == IsEv("ScannerCreate") /\ Step /\ ScannerCreate(ev.s)
TSDefine == IsEv("SDefine") /\ Step /\ SDefine(ev.s, ev.id, ev.ty, ev.v) /\ lastRet' = ev.ret
TDestroy == IsEv("ScannerDestroy") /\ Step /\ ScannerDestroy(ev.s)
\* a scan observes, for every variable, the value of the scanner's environment
TScan == /\ IsEv("Scan") /\ Step
         /\ ev.s \in alive
         /\ \A id \in DOMAIN ev.vals : Seen(ev.s, id) = ev.vals[id]
         /\ UNCHANGED evars

TNext == TReset \/ TCDefine \/ TGetRules \/ TRDefine \/ TCreate \/ TSDefine \/ TDestroy \/ TScan
TSpec == TInit /\ [][TNext]_<<evars, l>>
NotAccepted == l <= N
Progress == TLCSet(1, IF l > TLCGet(1) THEN l ELSE TLCGet(1))
ASSUME TLCSet(1, 0)
ReportProgress == PrintT(<<"maxl", TLCGet(1), "of", N>>)
=============================================================================
