------------------------------ MODULE FieldMut ------------------------------
(* The mutant space of C06 and the contract of a scan with modules.         *)
(* A mutant of a seed of n bytes is: a truncation to t < n bytes; or the    *)
(* seed with the w bytes at position p (w in {1,2,4,8}, either byte order)  *)
(* overwritten by a boundary value relative to n - every byte position is   *)
(* treated as a potential offset, size or count field.                      *)
EXTENDS Naturals, Integers, Sequences

(* StructuredMutants (gen/pegen.py, gen/elfgen.py): a generated PE / ELF is a set of chunks C with sizes; a mutant is  *)
(*   <<last, cut, inflate>> with last \in C (that chunk is laid out at the very end of the file), cut \in 0..size[last] *)
(*   bytes removed from the end, inflate \in (count fields) \X {1,2,3,16,255,2^15-1,2^16-1,2^16,2^31-1,2^32-1,-1} added *)
(*   to one count / size field - so that for every table "the table ends exactly where the buffer ends" is reached.    *)
\* whatever the bytes are, a scan with M imported modules succeeds, reports each module once and finishes
ModScanOK(c) == c.ret = 0 /\ c.nimport = c.nmods /\ c.nimported = c.nmods /\ c.finished = 1
=============================================================================
