------------------------------ MODULE FieldMut ------------------------------
(* The mutant space of C06 and the contract of a scan with modules.         *)
(* A mutant of a seed of n bytes is: a truncation to t < n bytes; or the    *)
(* seed with the w bytes at position p (w in {1,2,4,8}, either byte order)  *)
(* overwritten by a boundary value relative to n - every byte position is   *)
(* treated as a potential offset, size or count field.                      *)
EXTENDS Naturals, Integers, Sequences

\* whatever the bytes are, a scan with M imported modules succeeds, reports each module once and finishes
ModScanOK(c) == c.ret = 0 /\ c.nimport = c.nmods /\ c.nimported = c.nmods /\ c.finished = 1
=============================================================================
