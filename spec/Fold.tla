-------------------------------- MODULE Fold --------------------------------
(* Compile-time evaluation of constant integer expressions, transcribed     *)
(* production by production from grammar.y (primary_expression), against    *)
(* the run-time semantics of Cond.tla.  FoldSound: whenever the compiler    *)
(* attributes a constant value to an expression, the scanner computes the   *)
(* same value; CompileRejectsExactly: a constant expression is rejected at  *)
(* compile time only where the manual says so (division by zero, negative   *)
(* shift).  ShrAsCoded = TRUE reproduces the original '>>' folded as '<<'.  *)
EXTENDS Cond

CONSTANTS ShrAsCoded, ExtIsConstant

Ops == {"+", "-", "*", "\\", "%", "&", "|", "^", "<<", ">>"}
Vals == (-2..3) \cup {64, 65}
UNDEFV == 99999999
ERRV == 99999998

VARIABLES op, a, b, aIsExt
fvars == <<op, a, b, aIsExt>>

\* value the parser attaches to a leaf: a literal has its value; an external variable has its compile-time value when
\* ExtIsConstant (as originally coded) and no value (undefined) otherwise
LeafCT(v, isExt, ctval) == IF isExt THEN (IF ExtIsConstant THEN ctval ELSE UNDEFV) ELSE v

\* grammar.y: result attribute of `x op y` (ERRV = compile error)
CT(o, x, y) ==
  IF o \in {"\\", "%"} /\ y # UNDEFV /\ y = 0 THEN ERRV                      \* ERROR_DIVISION_BY_ZERO
  ELSE IF o \in {"<<", ">>"} /\ y # UNDEFV /\ y < 0 THEN ERRV                \* ERROR_INVALID_OPERAND
  ELSE IF o \in {"<<", ">>"} /\ y # UNDEFV /\ y >= 64 THEN 0
  ELSE IF x = UNDEFV \/ y = UNDEFV THEN UNDEFV                                \* OPERATION macro
  ELSE CASE o = "+" -> x + y [] o = "-" -> x - y [] o = "*" -> x * y
         [] o = "\\" -> TDiv(x, y) [] o = "%" -> TMod(x, y)
         [] o = "&" -> BAnd(x, y) [] o = "|" -> BOr(x, y) [] o = "^" -> BXor2(x, y)
         [] o = "<<" -> Shl(x, y)
         [] o = ">>" -> IF ShrAsCoded THEN Shl(x, y) ELSE Shr(x, y)

RT(o, x, y) == Arith(o, I(x), I(y))        \* what the scanner computes for the current values

Init == op \in Ops /\ a \in Vals /\ b \in Vals /\ aIsExt \in BOOLEAN
Next == UNCHANGED fvars
Spec == Init /\ [][Next]_fvars

\* the external's compile-time value may differ from its value at scan time (it can be redefined): any value
FoldSound ==
  \A ctval \in Vals :
    LET c == CT(op, LeafCT(a, aIsExt, ctval), b)
    IN (c # ERRV /\ c # UNDEFV) => (~IsU(RT(op, a, b)) /\ RT(op, a, b).v = c)

CompileRejectsExactly ==
  ~aIsExt => ((CT(op, a, b) = ERRV) <=> ((op \in {"\\", "%"} /\ b = 0) \/ (op \in {"<<", ">>"} /\ b < 0)))
=============================================================================
