----------------------------- MODULE FuncTrace -----------------------------
(* Validation of recorded functional cases (one JSON object per line): the *)
(* observation of the implementation must satisfy the reference semantics  *)
(* of the case's kind.  All lines are judged; the set of rejected line     *)
(* numbers is printed at the end ("BAD" line) - TLC decides every case.    *)
EXTENDS TextMatch, ReMatch, Atoms, ReVM, Cond, ArenaFile, Limits, FieldMut, Json, IOUtils, TLC
SH == INSTANCE SigHandler WITH Threads <- {1}, Scans <- 1, CountInsideIf <- FALSE, pc <- 0, left <- 0, mutex <- 0, usecount <- 0, installed <- FALSE, log <- << >>, SaveMask <- TRUE, MaxFaults <- 0, OneShot <- FALSE, blocked <- 0, faults <- 0, killed <- FALSE
CQ == INSTANCE CliQueue WITH NFiles <- 1, Consumers <- {1}, Q <- 1, FinishTokens <- 1, NoMutex <- FALSE, ring <- 0, head <- 0, tail <- 0, used <- 0, unused <- 0,
                          qlock <- 0, pcP <- 0, todo <- << >>, pcC <- 0, got <- 0, scanned <- 0, overwritten <- FALSE
AC == INSTANCE AhoCorasick WITH StrictBacktrack <- FALSE, NoFailureLists <- FALSE, BlindOptimise <- FALSE, Alphabet <- {1}, MaxLen <- 1, MaxAtoms <- 1,
                             MaxInput <- 1, atomsV <- << >>, bufV <- << >>
AL == INSTANCE ApiLifecycle WITH comp <- 0, rules <- 0, scanner <- 0, armed <- 0, history <- 0
CH == INSTANCE Chain
HR == INSTANCE HashRange WITH KeyWithAlg <- TRUE, KeyIsArgs <- TRUE, cache <- 0, last <- 0, ncalls <- 0

VARIABLES l, bad, known
TraceLog == ndJsonDeserialize(IOEnv.TRACE)
N == Len(TraceLog)

\* where the verdict of `matches` differs from the documented semantics it is tolerated (D40) only if it is EXACTLY what the model
\* of the engine as built (ReVM.tla) computes; a verdict that agrees with the semantics is always accepted, so a repair of D40
\* in the library is not an alarm. (ReVMMC: the model and the semantics agree on every expression without the D40 signature.)
\* (expressions with the D47 signature are left out: the engine as built - and therefore its model - does not terminate on them,
\* the library answers with an error, never with a verdict)
MatchesAsBuilt(c) == ("vm" \in DOMAIN c /\ c.vm /\ Supported(c.ast) /\ ~HasNullableCountedUnbounded(c.ast)) => c.obs = Matches(c.ast, c.buf, [nocase |-> c.nocase, dotall |-> c.dotall, wide |-> FALSE])

\* ---- chained strings (hook H7): c.chain = the recorded runs of the chain confirmation algorithm (Chain.tla), one per chain
\* piece p of the expression: the elements of the top-level concatenation between the chaining jumps
PieceAst(c, p) ==
  LET gaps == ChainGaps(c.ast, c.thresh)
      idx == {k \in 1..Len(c.ast.xs) : k \notin gaps /\ Cardinality({g \in gaps : g < k}) = p - 1}
      lo == CHOOSE k \in idx : \A j \in idx : k <= j
  IN [t |-> "cat", xs |-> SubSeq(c.ast.xs, lo, lo + Cardinality(idx) - 1)]
PieceLens(c, p, o) == UNION { {e - o : e \in Ends(PieceAst(c, p), c.buf, o, fl)} : fl \in Variants(c) }
\* the chain the engine built is the chain the expression calls for: same number of pieces, same jumps
ChainShapeOK(c, ch) ==
  LET gaps == ChainGaps(c.ast, c.thresh)
      gs == [i \in 1..Cardinality(gaps) |-> CHOOSE g \in gaps : Cardinality({h \in gaps : h < g}) = i - 1]
  IN /\ c.ast.t = "cat" /\ ch.n = Cardinality(gaps) + 1 /\ Len(ch.gaps) = ch.n - 1
     /\ \A i \in 1..Len(ch.gaps) : ch.gaps[i][1] = c.ast.xs[gs[i]].lo /\ ch.gaps[i][2] = c.ast.xs[gs[i]].hi
\* every match handed to the algorithm is a match of that piece in the data ...
CallbacksSound(c, ch) == \A k \in 1..Len(ch.cbs) : ch.cbs[k].len \in PieceLens(c, ch.cbs[k].p, ch.cbs[k].off)
\* ... and a piece of fixed length is handed over at every offset where it occurs (pieces of variable length: finding D13)
CallbacksCompleteFixed(c, ch) ==
  \A p \in 1..ch.n : FixedLen(PieceAst(c, p)) >= 0 =>
     \A o \in 0..(Len(c.buf) - 1) : PieceLens(c, p, o) # {} => \E k \in 1..Len(ch.cbs) : ch.cbs[k].p = p /\ ch.cbs[k].off = o
HasChain(c) == "chain" \in DOMAIN c /\ Len(c.chain) > 0
ChainFinalIsObs(c, ch) == LET f == CH!FinalConf(ch) IN Len(f) = Len(c.obs) /\ \A j \in 1..Len(f) : f[j].off = c.obs[j][1] /\ f[j].len = c.obs[j][2]
ChainsStrictOK(c) == HasChain(c) => \A i \in 1..Len(c.chain) :
   ChainShapeOK(c, c.chain[i]) /\ CallbacksSound(c, c.chain[i]) /\ CallbacksCompleteFixed(c, c.chain[i]) /\ ChainFinalIsObs(c, c.chain[i]) /\ CH!ChainIdeal(c.chain[i])
\* as recorded for D12/D13: either ideal for the callbacks that occurred, or the callbacks came in an order the algorithm does not
\* expect and the lists evolved EXACTLY as the model of the algorithm as built computes them
ChainsKnownOK(c) == HasChain(c) => \A i \in 1..Len(c.chain) :
   /\ ChainShapeOK(c, c.chain[i]) /\ CallbacksSound(c, c.chain[i]) /\ CallbacksCompleteFixed(c, c.chain[i]) /\ ChainFinalIsObs(c, c.chain[i])
   /\ (CH!ChainIdeal(c.chain[i]) \/ CH!ChainKnownD12(c.chain[i]))

\* the observational form of Scan!ResidualClean for scans whose content is not modelled (the memory of a process): whatever the
\* earlier scan was and however it ended, the next scan of a buffer reports what a fresh scanner reports, and the scan flags
\* are still the caller's
AfterHistoryOK(c) == c.after = c.fresh /\ c.flags_changed = 0 /\ c.after_ret = c.fresh_ret

\* the end of a scan whose CONTENT is not modelled (a live process): the rule of Scan.tla for the replies of the callback, on
\* the recorded messages alone.  c.cbs = <<<<message, reply>>, ...>> in the order of delivery, c.ret = what the scan call returned.
\* A reply that ends the scan (error to a rule or module message, abort to a rule message) is the last message delivered, and
\* the call returns ERROR_CALLBACK_ERROR (28) after an error reply, ERROR_SUCCESS after an abort - whatever the entry point.
ProcEndOK(c) ==
  LET n == Len(c.cbs)
      IsErr(k) == c.cbs[k][2] = "error" /\ c.cbs[k][1] \in {"match", "nomatch", "import", "imported"}
      IsAbort(k) == c.cbs[k][2] = "abort" /\ c.cbs[k][1] \in {"match", "nomatch"}
  IN /\ \A k \in 1..n : (IsErr(k) \/ IsAbort(k)) => k = n
     /\ (n > 0 /\ IsErr(n)) => c.ret = 28
     /\ (n > 0 /\ IsAbort(n)) => c.ret = 0
     /\ (c.ret = 0 /\ ~(n > 0 /\ IsAbort(n))) => (n > 0 /\ c.cbs[n][1] = "finished")
     /\ c.ret = 28 => (n > 0 /\ IsErr(n))

CaseOK(c) ==
  CASE c.kind = "text" -> ObsOK(c.pat, c.mods, c.buf, c.obs)
    [] c.kind = "afterhistory" -> AfterHistoryOK(c)
    [] c.kind = "procend" -> ProcEndOK(c)
    [] c.kind = "re"   -> StringObsOK(c) /\ ChainsStrictOK(c)
    [] c.kind = "matches" -> c.obs = MatchesOp(c.ast, c.buf, [nocase |-> c.nocase, dotall |-> c.dotall, wide |-> FALSE])
    [] c.kind = "rescanerr" -> FALSE      \* a scan of a small buffer with a small expression must end with a verdict, not an error
    [] c.kind = "cond" -> c.obs = Verdict(c.ast, c.env)
    [] c.kind = "static" -> StaticOK(c)
    [] c.kind = "atoms" -> AtomsOK(c)
    [] c.kind = "load" -> c.ret = LoadBytes(c.file, c.n)
    [] c.kind = "corrupt" -> CorruptOK(c.ret)
    [] c.kind = "audit" -> AuditOK(c)
    [] c.kind = "actables" -> ACTablesOK(c)
    [] c.kind = "load2" -> ConsumesExactlyOK(c)
    [] c.kind = "leftover" -> LeftoverOK(c)
    [] c.kind = "savesize" -> SaveSizeOK(c)
    [] c.kind = "savefail" -> SaveFailOK(c)
    [] c.kind = "range" -> c.claim = HR!Addressed(c.blocks, c.o, c.l)
    [] c.kind = "apiop" -> AL!OpOK([c EXCEPT !.allowed = {c.allowed[i] : i \in DOMAIN c.allowed}])
    [] c.kind = "apirun" -> AL!RunOK(c)
    [] c.kind = "compile" -> AL!CompileOK(c)
    [] c.kind = "errlines" -> AL!ErrLinesOK(c)
    [] c.kind = "limit" -> LimitOK(c)
    [] c.kind = "recovered" -> RecoveredOK(c)
    [] c.kind = "timeout" -> TimeoutOK(c)
    [] c.kind = "stacksweep" -> StackSweepOK(c)
    [] c.kind = "resize" -> ReSizeSweepOK(c)
    [] c.kind = "modscan" -> ModScanOK(c)
    [] c.kind = "hook" -> SH!HookTraceOK(c)
    [] c.kind = "busfault" -> SH!BusTraceOK(c)
    [] c.kind = "queue" -> CQ!QueueTraceOK(c)
    [] c.kind = "ac" -> AC!ACTraceOK(c)
    [] OTHER -> FALSE

\* disagreements that carry the signature of a recorded known finding (decided from the case, spec side)
KnownCase(c) ==
  CASE c.kind = "re" -> IF StringObsOK_D14(c) THEN "D14" ELSE IF StringObsOK_D12(c) /\ ChainsKnownOK(c) THEN "D12"
                        ELSE IF StringObsOK_D17(c) THEN "D17" ELSE IF StringObsOK_D40(c) THEN "D40" ELSE "none"
    [] c.kind = "rescanerr" -> IF c.ret = 46 /\ HasNullableCountedUnbounded(c.ast) THEN "D47" ELSE "none"
    [] c.kind = "matches" -> IF MatchesOK_D40(c) /\ MatchesAsBuilt(c) THEN "D40" ELSE "none"
    [] c.kind = "cond" -> IF c.obs # VerdictAB(c.ast, c.env) THEN "none"      \* a known finding is tolerated only with EXACTLY its effect
                        ELSE IF HasUndefQuant(c.ast, c.env, NoLoc) THEN "D15"
                        ELSE IF HasUndefRange(c.ast, c.env, NoLoc) THEN "D19" ELSE "none"
    [] OTHER -> "none"

Init == l = 1 /\ bad = {} /\ known = {}
Next == /\ l <= N
        /\ l' = l + 1
        /\ IF CaseOK(TraceLog[l]) THEN UNCHANGED <<bad, known>>
           ELSE LET k == KnownCase(TraceLog[l])
                IN IF k = "none" THEN bad' = bad \cup {l} /\ UNCHANGED known
                   ELSE known' = known \cup {<<l, k>>} /\ UNCHANGED bad
Spec == Init /\ [][Next]_<<l, bad, known>>
Done == l = N + 1 => PrintT(<<"BAD", bad>>) /\ PrintT(<<"KNOWN", known>>)
=============================================================================
