----------------------------- MODULE FuncTrace -----------------------------
(* Validation of recorded functional cases (one JSON object per line): the *)
(* observation of the implementation must satisfy the reference semantics  *)
(* of the case's kind.  All lines are judged; the set of rejected line     *)
(* numbers is printed at the end ("BAD" line) - TLC decides every case.    *)
EXTENDS TextMatch, Json, IOUtils, TLC

VARIABLES l, bad
TraceLog == ndJsonDeserialize(IOEnv.TRACE)
N == Len(TraceLog)

CaseOK(c) ==
  CASE c.kind = "text" -> ObsOK(c.pat, c.mods, c.buf, c.obs)
    [] OTHER -> FALSE

Init == l = 1 /\ bad = {}
Next == /\ l <= N
        /\ l' = l + 1
        /\ bad' = IF CaseOK(TraceLog[l]) THEN bad ELSE bad \cup {l}
Spec == Init /\ [][Next]_<<l, bad>>
Done == l = N + 1 => PrintT(<<"BAD", bad>>)
=============================================================================
