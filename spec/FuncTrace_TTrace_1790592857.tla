---- MODULE FuncTrace_TTrace_1790592857 ----
EXTENDS Sequences, TLCExt, FuncTrace, Toolbox, Naturals, TLC

_expression ==
    LET FuncTrace_TEExpression == INSTANCE FuncTrace_TEExpression
    IN FuncTrace_TEExpression!expression
----

_trace ==
    LET FuncTrace_TETrace == INSTANCE FuncTrace_TETrace
    IN FuncTrace_TETrace!trace
----

_inv ==
    ~(
        TLCGet("level") = Len(_TETrace)
        /\
        bad = ({})
        /\
        known = ({})
        /\
        l = (63)
    )
----

_init ==
    /\ l = _TETrace[1].l
    /\ bad = _TETrace[1].bad
    /\ known = _TETrace[1].known
----

_next ==
    /\ \E i,j \in DOMAIN _TETrace:
        /\ \/ /\ j = i + 1
              /\ i = TLCGet("level")
        /\ l  = _TETrace[i].l
        /\ l' = _TETrace[j].l
        /\ bad  = _TETrace[i].bad
        /\ bad' = _TETrace[j].bad
        /\ known  = _TETrace[i].known
        /\ known' = _TETrace[j].known

\* Uncomment the ASSUME below to write the states of the error trace
\* to the given file in Json format. Note that you can pass any tuple
\* to `JsonSerialize`. For example, a sub-sequence of _TETrace.
    \* ASSUME
    \*     LET J == INSTANCE Json
    \*         IN J!JsonSerialize("FuncTrace_TTrace_1790592857.json", _TETrace)

=============================================================================

 Note that you can extract this module `FuncTrace_TEExpression`
  to a dedicated file to reuse `expression` (the module in the 
  dedicated `FuncTrace_TEExpression.tla` file takes precedence 
  over the module `FuncTrace_TEExpression` below).

---- MODULE FuncTrace_TEExpression ----
EXTENDS Sequences, TLCExt, FuncTrace, Toolbox, Naturals, TLC

expression == 
    [
        \* To hide variables of the `FuncTrace` spec from the error trace,
        \* remove the variables below.  The trace will be written in the order
        \* of the fields of this record.
        l |-> l
        ,bad |-> bad
        ,known |-> known
        
        \* Put additional constant-, state-, and action-level expressions here:
        \* ,_stateNumber |-> _TEPosition
        \* ,_lUnchanged |-> l = l'
        
        \* Format the `l` variable as Json value.
        \* ,_lJson |->
        \*     LET J == INSTANCE Json
        \*     IN J!ToJson(l)
        
        \* Lastly, you may build expressions over arbitrary sets of states by
        \* leveraging the _TETrace operator.  For example, this is how to
        \* count the number of times a spec variable changed up to the current
        \* state in the trace.
        \* ,_lModCount |->
        \*     LET F[s \in DOMAIN _TETrace] ==
        \*         IF s = 1 THEN 0
        \*         ELSE IF _TETrace[s].l # _TETrace[s-1].l
        \*             THEN 1 + F[s-1] ELSE F[s-1]
        \*     IN F[_TEPosition - 1]
    ]

=============================================================================



Parsing and semantic processing can take forever if the trace below is long.
 In this case, it is advised to uncomment the module below to deserialize the
 trace from a generated binary file.

\*
\*---- MODULE FuncTrace_TETrace ----
\*EXTENDS IOUtils, FuncTrace, TLC
\*
\*trace == IODeserialize("FuncTrace_TTrace_1790592857.bin", TRUE)
\*
\*=============================================================================
\*

---- MODULE FuncTrace_TETrace ----
EXTENDS FuncTrace, TLC

trace == 
    <<
    ([bad |-> {},known |-> {},l |-> 1]),
    ([bad |-> {},known |-> {},l |-> 2]),
    ([bad |-> {},known |-> {},l |-> 3]),
    ([bad |-> {},known |-> {},l |-> 4]),
    ([bad |-> {},known |-> {},l |-> 5]),
    ([bad |-> {},known |-> {},l |-> 6]),
    ([bad |-> {},known |-> {},l |-> 7]),
    ([bad |-> {},known |-> {},l |-> 8]),
    ([bad |-> {},known |-> {},l |-> 9]),
    ([bad |-> {},known |-> {},l |-> 10]),
    ([bad |-> {},known |-> {},l |-> 11]),
    ([bad |-> {},known |-> {},l |-> 12]),
    ([bad |-> {},known |-> {},l |-> 13]),
    ([bad |-> {},known |-> {},l |-> 14]),
    ([bad |-> {},known |-> {},l |-> 15]),
    ([bad |-> {},known |-> {},l |-> 16]),
    ([bad |-> {},known |-> {},l |-> 17]),
    ([bad |-> {},known |-> {},l |-> 18]),
    ([bad |-> {},known |-> {},l |-> 19]),
    ([bad |-> {},known |-> {},l |-> 20]),
    ([bad |-> {},known |-> {},l |-> 21]),
    ([bad |-> {},known |-> {},l |-> 22]),
    ([bad |-> {},known |-> {},l |-> 23]),
    ([bad |-> {},known |-> {},l |-> 24]),
    ([bad |-> {},known |-> {},l |-> 25]),
    ([bad |-> {},known |-> {},l |-> 26]),
    ([bad |-> {},known |-> {},l |-> 27]),
    ([bad |-> {},known |-> {},l |-> 28]),
    ([bad |-> {},known |-> {},l |-> 29]),
    ([bad |-> {},known |-> {},l |-> 30]),
    ([bad |-> {},known |-> {},l |-> 31]),
    ([bad |-> {},known |-> {},l |-> 32]),
    ([bad |-> {},known |-> {},l |-> 33]),
    ([bad |-> {},known |-> {},l |-> 34]),
    ([bad |-> {},known |-> {},l |-> 35]),
    ([bad |-> {},known |-> {},l |-> 36]),
    ([bad |-> {},known |-> {},l |-> 37]),
    ([bad |-> {},known |-> {},l |-> 38]),
    ([bad |-> {},known |-> {},l |-> 39]),
    ([bad |-> {},known |-> {},l |-> 40]),
    ([bad |-> {},known |-> {},l |-> 41]),
    ([bad |-> {},known |-> {},l |-> 42]),
    ([bad |-> {},known |-> {},l |-> 43]),
    ([bad |-> {},known |-> {},l |-> 44]),
    ([bad |-> {},known |-> {},l |-> 45]),
    ([bad |-> {},known |-> {},l |-> 46]),
    ([bad |-> {},known |-> {},l |-> 47]),
    ([bad |-> {},known |-> {},l |-> 48]),
    ([bad |-> {},known |-> {},l |-> 49]),
    ([bad |-> {},known |-> {},l |-> 50]),
    ([bad |-> {},known |-> {},l |-> 51]),
    ([bad |-> {},known |-> {},l |-> 52]),
    ([bad |-> {},known |-> {},l |-> 53]),
    ([bad |-> {},known |-> {},l |-> 54]),
    ([bad |-> {},known |-> {},l |-> 55]),
    ([bad |-> {},known |-> {},l |-> 56]),
    ([bad |-> {},known |-> {},l |-> 57]),
    ([bad |-> {},known |-> {},l |-> 58]),
    ([bad |-> {},known |-> {},l |-> 59]),
    ([bad |-> {},known |-> {},l |-> 60]),
    ([bad |-> {},known |-> {},l |-> 61]),
    ([bad |-> {},known |-> {},l |-> 62]),
    ([bad |-> {},known |-> {},l |-> 63])
    >>
----


=============================================================================

---- CONFIG FuncTrace_TTrace_1790592857 ----

INVARIANT
    _inv

CHECK_DEADLOCK
    \* CHECK_DEADLOCK off because of PROPERTY or INVARIANT above.
    FALSE

INIT
    _init

NEXT
    _next

CONSTANT
    _TETrace <- _trace

ALIAS
    _expression
=============================================================================
\* Generated on Mon Sep 28 10:54:19 UTC 2026