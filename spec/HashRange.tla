------------------------------ MODULE HashRange ------------------------------
(***************************************************************************)
(* Which bytes hash.md5/sha1/sha256/crc32/checksum32(offset, length) and   *)
(* the math.* range functions address (modules/hash/hash.c, math.c range   *)
(* walk), and the digest cache of the hash module.                         *)
(* blocks: Seq([base, size, doff]) in iteration order (doff = position of  *)
(* the block's bytes in the scanned data).  Addressed = sequence of        *)
(* <<data offset, length>> segments, or UNDEFR (undefined).                           *)
(* Property C14: the digest of exactly the addressed bytes, clipped at the *)
(* end of the buffer, undefined when the offset lies outside it.  Where    *)
(* the property is silent (ranges crossing a gap between blocks) the spec  *)
(* follows the code: undefined.                                            *)
(***************************************************************************)
EXTENDS Naturals, Integers, Sequences, FiniteSets, TLC

Min(a, b) == IF a < b THEN a ELSE b
UNDEFR == << <<-1, -1>> >>      \* "undefined" as a value of the same shape as a segment list

Addressed(blocks, o, l) ==
  IF Len(blocks) = 0 \/ o < 0 \/ l < 0 \/ o < blocks[1].base THEN UNDEFR
  ELSE LET RECURSIVE Walk(_, _, _, _, _)
           \* k: next block; off/len: what remains; past: a block was used; acc: segments so far
           Walk(k, off, len, past, acc) ==
             IF k > Len(blocks) THEN (IF past THEN acc ELSE UNDEFR)
             ELSE LET b == blocks[k]
                      inb == off >= b.base /\ off < b.base + b.size
                      dl == IF inb THEN Min(len, b.size - (off - b.base)) ELSE 0
                      off2 == off + dl
                      len2 == len - dl
                      acc2 == IF inb THEN Append(acc, <<b.doff + (off - b.base), dl>>) ELSE acc
                  IN IF ~inb /\ past THEN UNDEFR                   \* a gap after the first block used
                     ELSE IF b.base + b.size >= off2 + len2 THEN (IF past \/ inb THEN acc2 ELSE UNDEFR)
                     ELSE Walk(k + 1, off2, len2, past \/ inb, acc2)
       IN Walk(1, o, l, FALSE, << >>)

\* single contiguous buffer of n bytes: the statement of the property
AddressedSimple(n, o, l) == IF o < 0 \/ l < 0 \/ o >= n THEN UNDEFR ELSE << <<o, Min(l, n - o)>> >>

\* the two agree on a single block at base 0
SimpleAgrees(n, o, l) == Addressed(<< [base |-> 0, size |-> n, doff |-> 0] >>, o, l) = AddressedSimple(n, o, l)

\* ---- digest cache (hash.c add_to_cache / get_from_cache): H is uninterpreted (injective pairing)
CONSTANTS KeyWithAlg, KeyIsArgs     \* FALSE reproduces: key without the algorithm / key taken from the walked offsets
VARIABLES cache, last, ncalls
hvars == <<cache, last, ncalls>>
H(alg, seg) == <<alg, seg>>
Algs == {"md5", "sha256"}
MCBlocks == << [base |-> 0, size |-> 4, doff |-> 0] >>
Key(alg, o, l, seg) ==
  LET oo == IF KeyIsArgs \/ seg = UNDEFR THEN o ELSE o + seg[1][2]        \* (o + n, l - n) after the walk
      ll == IF KeyIsArgs \/ seg = UNDEFR THEN l ELSE l - seg[1][2]
  IN IF KeyWithAlg THEN <<alg, oo, ll>> ELSE <<"any", oo, ll>>
Call(alg, o, l) ==
  LET seg == Addressed(MCBlocks, o, l)
      lk == IF KeyWithAlg THEN <<alg, o, l>> ELSE <<"any", o, l>>
  IN /\ ncalls' = ncalls + 1
     /\ IF o < 0 \/ l < 0 THEN last' = [alg |-> alg, o |-> o, l |-> l, ret |-> UNDEFR] /\ UNCHANGED cache
        ELSE IF lk \in DOMAIN cache THEN last' = [alg |-> alg, o |-> o, l |-> l, ret |-> cache[lk]] /\ UNCHANGED cache
        ELSE IF seg = UNDEFR THEN last' = [alg |-> alg, o |-> o, l |-> l, ret |-> UNDEFR] /\ UNCHANGED cache
        ELSE /\ last' = [alg |-> alg, o |-> o, l |-> l, ret |-> H(alg, seg)]
             /\ cache' = (Key(alg, o, l, seg) :> H(alg, seg)) @@ cache
HInit == cache = << >> /\ last = [alg |-> "md5", o |-> 0, l |-> 0, ret |-> UNDEFR] /\ ncalls = 0
HNext == ncalls < 3 /\ \E alg \in Algs, o \in -1..5, l \in -1..5 : Call(alg, o, l)
HSpec == HInit /\ [][HNext]_hvars
CacheCoherent ==
  ncalls > 0 => last.ret = (IF Addressed(MCBlocks, last.o, last.l) = UNDEFR THEN UNDEFR ELSE H(last.alg, Addressed(MCBlocks, last.o, last.l)))
AllSimple == \A o \in -1..6, l \in -1..6 : SimpleAgrees(4, o, l)
=============================================================================
