-------------------------------- MODULE Limits --------------------------------
(***************************************************************************)
(* Documented engine limits (libyara/include/yara/limits.h, manual) and    *)
(* the documented outcome of exceeding each: a case is a pair (limit, n);  *)
(* n <= L must be accepted, n > L must yield the limit's own error - never *)
(* a crash, a hang or a different error.                                   *)
(* Configurable limits carry the configured L in the case.                 *)
(***************************************************************************)
EXTENDS Naturals, Integers, Sequences

DocLimit(name) ==
  CASE name = "loop_nesting"  -> 4          \* YR_MAX_LOOP_NESTING
    [] name = "include_depth" -> 16         \* YR_MAX_INCLUDE_DEPTH
    [] name = "ident_len"     -> 128
    [] name = "lex_buf"       -> 8190       \* characters of a string literal that fit YR_LEX_BUF_SIZE (8192) as coded
    [] name = "re_repeat"     -> 32767      \* RE_MAX_RANGE
    [] name = "int_literal"   -> 0          \* n = distance above INT64_MAX
    [] name = "strings_per_rule" -> 10000   \* default of YR_CONFIG_MAX_STRINGS_PER_RULE
    [] name = "fn_args"       -> 128        \* YR_MAX_FUNCTION_ARGS
    [] OTHER -> -1

LimitErr(name) ==
  CASE name = "loop_nesting"  -> 12         \* ERROR_LOOP_NESTING_LIMIT_EXCEEDED
    [] name = "include_depth" -> 11         \* reported as ERROR_SYNTAX_ERROR with the message "includes depth exceeded"
    [] name = "ident_len"     -> 11         \* ERROR_SYNTAX_ERROR "identifier too long"
    [] name = "lex_buf"       -> 11         \* ERROR_SYNTAX_ERROR "out of space in lex_buf"
    [] name = "re_repeat"     -> 9          \* ERROR_INVALID_REGULAR_EXPRESSION "repeat interval too large"
    [] name = "int_literal"   -> 52         \* ERROR_INTEGER_OVERFLOW
    [] name = "strings_per_rule" -> 51      \* ERROR_TOO_MANY_STRINGS
    [] name = "stack"         -> 25         \* ERROR_EXEC_STACK_OVERFLOW (scan)
    [] name = "fibers"        -> 46         \* ERROR_TOO_MANY_RE_FIBERS (scan)
    [] name = "fn_args"       -> 39         \* ERROR_TOO_MANY_ARGUMENTS
    [] OTHER -> -1

\* c = [name, n, L, outcome] ; outcome 0 = accepted / scan succeeded
LimitOK(c) ==
  /\ (DocLimit(c.name) >= 0 /\ c.name # "strings_per_rule") => c.L = DocLimit(c.name)     \* the build honours the documented value
  /\ c.outcome = (IF c.n <= c.L THEN 0 ELSE LimitErr(c.name))

\* after a limit error the same objects keep working: the follow-up operation gives its normal result
RecoveredOK(c) == c.after = c.after_normal

\* a scan with a timeout of T seconds on work that needs much longer returns ERROR_SCAN_TIMEOUT (26) within T + slack
\* (a scan that completes before the deadline is of course fine)
TimeoutOK(c) == c.ret \in {26, 0} /\ c.ms <= 1000 * c.timeout + c.slack_ms /\ (c.ret = 0 => c.ms <= 1000 * c.timeout + c.slack_ms)
\* evaluation-stack sweep: the same rule scanned with stack sizes 1, 2, 3, ...: too small a stack is the documented scan error
\* ERROR_EXEC_STACK_OVERFLOW (25), a sufficient one is success, and sufficiency is monotone in the size
StackSweepOK(c) ==
  /\ \A k \in 1..Len(c.rets) : c.rets[k] \in {0, 25}
  /\ \A k \in 1..(Len(c.rets) - 1) : c.rets[k] = 0 => c.rets[k + 1] = 0
\* size of the code of a regular expression (jumps are 16-bit): the same shape with bodies of growing size is accepted up to some
\* size and rejected with ERROR_REGULAR_EXPRESSION_TOO_LARGE (45) above it - and an expression that was accepted matches what
\* it should (c.steps[k].hit: the planted occurrences were reported with their lengths)
ReSizeSweepOK(c) ==
  /\ \A k \in 1..Len(c.steps) : c.steps[k].outcome \in {0, 45}
  /\ \A k \in 1..(Len(c.steps) - 1) : c.steps[k].outcome = 45 => c.steps[k + 1].outcome = 45
  /\ \A k \in 1..Len(c.steps) : c.steps[k].outcome = 0 => c.steps[k].hit
=============================================================================
