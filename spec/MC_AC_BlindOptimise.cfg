SPECIFICATION Spec
CONSTANTS
  StrictBacktrack = FALSE
  NoFailureLists = FALSE
  BlindOptimise = TRUE
  Alphabet = {1, 2}
  MaxLen = 3
  MaxAtoms = 2
  MaxInput = 5
INVARIANT Inv
CHECK_DEADLOCK FALSE
