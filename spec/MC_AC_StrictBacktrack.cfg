SPECIFICATION Spec
CONSTANTS
  StrictBacktrack = TRUE
  NoFailureLists = FALSE
  BlindOptimise = FALSE
  Alphabet = {1, 2}
  MaxLen = 3
  MaxAtoms = 2
  MaxInput = 5
INVARIANT Inv
CHECK_DEADLOCK FALSE
