SPECIFICATION Spec
CONSTANTS
  StrictBacktrack = FALSE
  NoFailureLists = FALSE
  BlindOptimise = FALSE
  Alphabet = {1, 2}
  MaxLen = 3
  MaxAtoms = 3
  MaxInput = 6
INVARIANT Inv
CHECK_DEADLOCK FALSE
