SPECIFICATION LSpec
INVARIANTS AlwaysDestroyable FailedCompilerUnused
CONSTRAINT Bound
CHECK_DEADLOCK FALSE
