SPECIFICATION Spec
CONSTANTS
  NB = 2
  MaxCells = 3
  InitCap = 1
  Terminator = TRUE
  AllRegistered = TRUE
  Refetch = TRUE
INVARIANTS NoStaleDeref RegisteredPointersValid ImageIndependentOfEpochs TruncatedNeverLoads CompleteLoads
CONSTRAINT Bound
CHECK_DEADLOCK FALSE
