SPECIFICATION Spec
CONSTANTS
  NSlots = 3
  NBufs = 2
  ReturnAtOnce = FALSE
INVARIANTS TypeOK OriginalIntact ResultHonest
PROPERTY Terminates
CHECK_DEADLOCK FALSE
