SPECIFICATION Spec
CONSTANTS
  GapSeq <- G_1_2
  MaxOff = 5
  Lens = {1, 2}
  MaxCbs = 4
  OnlyOrderly = FALSE
INVARIANTS TypeOK Sound CompleteOrderly
CHECK_DEADLOCK FALSE
