SPECIFICATION Spec
CONSTANTS
  GapSeq <- G_0_1__1_inf
  MaxOff = 4
  Lens = {1, 2}
  MaxCbs = 5
  OnlyOrderly = TRUE
INVARIANTS TypeOK Sound Complete
CHECK_DEADLOCK FALSE
