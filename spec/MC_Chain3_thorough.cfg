SPECIFICATION Spec
CONSTANTS
  GapSeq <- G_0_1__1_2
  MaxOff = 4
  Lens = {1, 2}
  MaxCbs = 5
  OnlyOrderly = FALSE
INVARIANTS TypeOK Sound CompleteOrderly
CHECK_DEADLOCK FALSE
