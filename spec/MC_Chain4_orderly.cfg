SPECIFICATION Spec
CONSTANTS
  GapSeq <- G_0_2__0_1__1_2
  MaxOff = 5
  Lens = {1, 2}
  MaxCbs = 4
  OnlyOrderly = TRUE
INVARIANTS TypeOK Sound Complete
CHECK_DEADLOCK FALSE
