SPECIFICATION Spec
CONSTANTS
  GapSeq <- G_1_2
  MaxOff = 5
  Lens = {1, 2}
  MaxCbs = 5
  OnlyOrderly = FALSE
INVARIANTS CompleteA2A3
CHECK_DEADLOCK FALSE
