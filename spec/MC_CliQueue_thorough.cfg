SPECIFICATION QFairSpec
CONSTANTS
  NFiles = 7
  Consumers = {1, 2, 3, 4, 5}
  Q = 3
  FinishTokens = 5
  NoMutex = FALSE
INVARIANTS NoSlotOverwritten AtMostOnce ExactlyOnce MutexOK
PROPERTY Termination
CHECK_DEADLOCK FALSE
