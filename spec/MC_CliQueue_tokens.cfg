SPECIFICATION QFairSpec
CONSTANTS
  NFiles = 5
  Consumers = {1, 2, 3}
  Q = 2
  FinishTokens = 2
  NoMutex = FALSE
INVARIANTS NoSlotOverwritten AtMostOnce ExactlyOnce MutexOK
PROPERTY Termination
CHECK_DEADLOCK FALSE
