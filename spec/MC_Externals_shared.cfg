SPECIFICATION Spec
CONSTANTS
  Scanners = {1, 2}
  SharedTable = TRUE
  MaxOps = 7
INVARIANTS TypeOK MostSpecificWins RulesTableIsolated
CHECK_DEADLOCK FALSE
