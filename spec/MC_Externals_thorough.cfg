SPECIFICATION Spec
CONSTANTS
  Scanners = {1, 2}
  SharedTable = FALSE
  MaxOps = 9
INVARIANTS TypeOK MostSpecificWins RulesTableIsolated
CHECK_DEADLOCK FALSE
