SPECIFICATION Spec
CONSTANTS
  ShrAsCoded = FALSE
  ExtIsConstant = FALSE
INVARIANTS FoldSound CompileRejectsExactly
CHECK_DEADLOCK FALSE
