SPECIFICATION Spec
CONSTANTS
  ShrAsCoded = TRUE
  ExtIsConstant = FALSE
INVARIANTS FoldSound CompileRejectsExactly
CHECK_DEADLOCK FALSE
