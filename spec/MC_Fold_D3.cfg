SPECIFICATION Spec
CONSTANTS
  ShrAsCoded = FALSE
  ExtIsConstant = TRUE
INVARIANTS FoldSound CompileRejectsExactly
CHECK_DEADLOCK FALSE
