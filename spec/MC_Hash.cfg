SPECIFICATION HSpec
CONSTANTS
  KeyWithAlg = TRUE
  KeyIsArgs = TRUE
INVARIANTS CacheCoherent AllSimple
CHECK_DEADLOCK FALSE
