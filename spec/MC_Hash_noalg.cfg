SPECIFICATION HSpec
CONSTANTS
  KeyWithAlg = FALSE
  KeyIsArgs = TRUE
INVARIANTS CacheCoherent AllSimple
CHECK_DEADLOCK FALSE
