SPECIFICATION HSpec
CONSTANTS
  KeyWithAlg = TRUE
  KeyIsArgs = FALSE
INVARIANTS CacheCoherent AllSimple
CHECK_DEADLOCK FALSE
