SPECIFICATION Spec
CONSTANTS
  GuardPerSync = TRUE
  MaxLen = 4
  Deep = FALSE
  WithAny = FALSE
  UnboundedBrace = TRUE
INVARIANTS AsBuiltSound AsBuiltCompleteExceptD40
CHECK_DEADLOCK FALSE
