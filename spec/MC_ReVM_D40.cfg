SPECIFICATION Spec
CONSTANTS
  GuardPerSync = TRUE
  MaxLen = 4
  Deep = FALSE
  WithAny = FALSE
  UnboundedBrace = TRUE
INVARIANTS Equivalent
CHECK_DEADLOCK FALSE
