SPECIFICATION Spec
CONSTANTS
  GuardPerSync = TRUE
  MaxLen = 4
  Deep = FALSE
  WithAny = TRUE
  UnboundedBrace = FALSE
INVARIANTS AsBuiltSound AsBuiltCompleteExceptD40
CHECK_DEADLOCK FALSE
