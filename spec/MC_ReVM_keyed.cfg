SPECIFICATION Spec
CONSTANTS
  GuardPerSync = FALSE
  MaxLen = 4
  Deep = FALSE
  UnboundedBrace = FALSE
INVARIANTS Equivalent
CHECK_DEADLOCK FALSE
