SPECIFICATION Spec
CONSTANTS
  GuardPerSync = TRUE
  MaxLen = 5
  Deep = TRUE
  WithAny = FALSE
  UnboundedBrace = TRUE
INVARIANTS AsBuiltSound AsBuiltCompleteExceptD40
CHECK_DEADLOCK FALSE
