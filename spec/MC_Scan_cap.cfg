SPECIFICATION Spec
CONSTANTS
  MaxMatches = 2
  FixD1 = TRUE
  FixD10 = TRUE
  ModelD9 = FALSE
  RSName = "cap"
  MaxScans = 2
  MaxNotReady = 1
  WithTimeout = FALSE
  FlagChoice = "one"
INVARIANTS TypeOK ProtocolOK ResidualClean NoLeak LimitIsolation
CHECK_DEADLOCK FALSE
