SPECIFICATION Spec
CONSTANTS
  MaxMatches = 6
  FixD1 = TRUE
  FixD10 = TRUE
  ModelD9 = FALSE
  RSName = "history"
  MaxScans = 6
  MaxNotReady = 1
  WithTimeout = TRUE
  FlagChoice = "one"
INVARIANTS TypeOK ProtocolOK ResidualClean NoLeak LimitIsolation
CHECK_DEADLOCK FALSE
