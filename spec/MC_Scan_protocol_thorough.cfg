SPECIFICATION Spec
CONSTANTS
  MaxMatches = 6
  FixD1 = TRUE
  FixD10 = TRUE
  ModelD9 = FALSE
  RSName = "protocol"
  MaxScans = 4
  MaxNotReady = 0
  WithTimeout = FALSE
  FlagChoice = "all"
INVARIANTS TypeOK ProtocolOK ResidualClean NoLeak LimitIsolation
CHECK_DEADLOCK FALSE
