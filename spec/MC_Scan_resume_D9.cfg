SPECIFICATION Spec
CONSTANTS
  MaxMatches = 6
  FixD1 = TRUE
  FixD10 = TRUE
  ModelD9 = TRUE
  RSName = "resume"
  MaxScans = 2
  MaxNotReady = 3
  WithTimeout = FALSE
  FlagChoice = "one"
INVARIANTS TypeOK ProtocolOK ResidualClean NoLeak LimitIsolation
CHECK_DEADLOCK FALSE
