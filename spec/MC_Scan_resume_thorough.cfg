SPECIFICATION Spec
CONSTANTS
  MaxMatches = 6
  FixD1 = TRUE
  FixD10 = TRUE
  ModelD9 = FALSE
  RSName = "resume"
  MaxScans = 4
  MaxNotReady = 4
  WithTimeout = FALSE
  FlagChoice = "one"
INVARIANTS TypeOK ProtocolOK ResidualClean NoLeak LimitIsolation
CHECK_DEADLOCK FALSE
