SPECIFICATION SSpec
CONSTANTS
  Threads = {1, 2, 3}
  Scans = 2
  SaveMask = TRUE
  MaxFaults = 2
  OneShot = FALSE
  CountInsideIf = TRUE
INVARIANTS HandlerCoversBody CountExact InstalledIffUsed NonNegative
VIEW svarsNoLog
CHECK_DEADLOCK FALSE
