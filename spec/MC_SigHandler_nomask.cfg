SPECIFICATION SSpec
CONSTANTS
  Threads = {1, 2, 3}
  Scans = 2
  SaveMask = FALSE
  MaxFaults = 2
  OneShot = FALSE
  CountInsideIf = FALSE
INVARIANTS NeverKilled MaskRestored HandlerCoversBody CountExact InstalledIffUsed NonNegative
PROPERTY AllDone
VIEW svarsNoLog
CHECK_DEADLOCK FALSE
