SPECIFICATION SSpec
CONSTANTS
  Threads = {1, 2, 3}
  Scans = 2
  SaveMask = TRUE
  MaxFaults = 2
  OneShot = TRUE
  CountInsideIf = FALSE
INVARIANTS NeverKilled MaskRestored HandlerCoversBody CountExact InstalledIffUsed NonNegative
PROPERTY AllDone
VIEW svarsNoLog
CHECK_DEADLOCK FALSE
