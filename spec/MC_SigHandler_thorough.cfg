SPECIFICATION SSpec
CONSTANTS
  Threads = {1, 2, 3, 4, 5}
  Scans = 2
  CountInsideIf = FALSE
INVARIANTS HandlerCoversBody CountExact InstalledIffUsed NonNegative
PROPERTY AllDone
VIEW svarsNoLog
CHECK_DEADLOCK FALSE
