------------------------------ MODULE ReMatch ------------------------------
(***************************************************************************)
(* Reference semantics of YARA regular expressions and hex strings (hex    *)
(* strings are regular expressions over bytes: manual "Hexadecimal         *)
(* strings", "Regular expressions").  An expression is an AST:             *)
(*   [t |-> "lit", b]            one byte (case-folded under nocase)       *)
(*   [t |-> "any"]               . (not \n unless dotall; hex ?? = dotall) *)
(*   [t |-> "mask", v, m, neg]   hex nibble masks / ~ : ((x & m) = v) # neg*)
(*   [t |-> "class", set, neg]   [...] (set = byte values), \w \d \s ...   *)
(*   [t |-> "gap", lo, hi]       hex jump / .{lo,hi} of dotall bytes       *)
(*                               (hi = -1: unbounded)                      *)
(*   [t |-> "cat", xs] [t |-> "alt", xs]                                   *)
(*   [t |-> "rep", x, lo, hi]    x{lo,hi}, * + ? (hi = -1: unbounded);     *)
(*                               greedy and lazy have the same match SETS  *)
(*   [t |-> "bol"] [t |-> "eol"] [t |-> "wb"] [t |-> "nwb"] [t |-> "empty"]*)
(* fl = [nocase, dotall, wide]: in wide mode every character is the byte   *)
(* followed by a zero byte.                                                *)
(* Positions are 0-based; Ends(nd, buf, i, fl) = set of end positions of   *)
(* the byte sequences starting at i that nd matches.                       *)
(***************************************************************************)
EXTENDS Bytes, TLC

CS(fl) == IF fl.wide THEN 2 ELSE 1
\* a character is available at position i (wide: followed by a zero byte)
CharAt(buf, i, fl) == /\ i + CS(fl) <= Len(buf)
                      /\ (fl.wide => buf[i + 2] = 0)

EqLit(p, d, fl) == IF fl.nocase THEN Lower(p) = Lower(d) ELSE p = d
InClass(x, nd, fl) ==
  LET hit == IF fl.nocase THEN \E y \in SeqSet(nd.set) : Lower(y) = Lower(x) ELSE x \in SeqSet(nd.set)
  IN hit # nd.neg

IsWordAt(buf, i, fl) ==    \* is there a word character at position i (FALSE outside the buffer)
  /\ i >= 0 /\ i + CS(fl) <= Len(buf)
  /\ IsWordChar(buf[i + 1])
  /\ (fl.wide => buf[i + 2] = 0)

RECURSIVE Ends(_, _, _, _)
Ends(nd, buf, i, fl) ==
  CASE nd.t = "lit"   -> IF CharAt(buf, i, fl) /\ EqLit(nd.b, buf[i + 1], fl) THEN {i + CS(fl)} ELSE {}
    [] nd.t = "any"   -> IF CharAt(buf, i, fl) /\ (fl.dotall \/ buf[i + 1] # 10) THEN {i + CS(fl)} ELSE {}
    [] nd.t = "mask"  -> IF CharAt(buf, i, fl) /\ (((buf[i + 1] & nd.m) = nd.v) # nd.neg) THEN {i + CS(fl)} ELSE {}
    [] nd.t = "class" -> IF CharAt(buf, i, fl) /\ InClass(buf[i + 1], nd, fl) THEN {i + CS(fl)} ELSE {}
    [] nd.t = "gap"   -> LET room == Len(buf) - i
                             top == IF nd.hi < 0 THEN room ELSE Min2(nd.hi, room)
                         IN {i + k : k \in nd.lo..top}
    [] nd.t = "cat"   -> LET RECURSIVE Run(_, _)
                             Run(k, ps) == IF k > Len(nd.xs) \/ ps = {} THEN ps
                                           ELSE Run(k + 1, UNION {Ends(nd.xs[k], buf, p, fl) : p \in ps})
                         IN Run(1, {i})
    [] nd.t = "alt"   -> UNION {Ends(nd.xs[k], buf, i, fl) : k \in 1..Len(nd.xs)}
    [] nd.t = "rep"   -> LET Stp(ps) == UNION {Ends(nd.x, buf, p, fl) : p \in ps}
                             \* positions reachable with exactly k iterations, k = lo..hi, or the closure when unbounded
                             RECURSIVE Exact(_, _)
                             Exact(k, ps) == IF k = 0 THEN ps ELSE Exact(k - 1, Stp(ps))
                             RECURSIVE Upto(_, _, _)
                             Upto(k, ps, acc) == IF k = 0 \/ ps = {} THEN acc
                                                 ELSE LET nx == Stp(ps) IN Upto(k - 1, nx, acc \cup nx)
                             RECURSIVE Closure(_, _)
                             Closure(front, acc) == LET nx == Stp(front) \ acc
                                                    IN IF nx = {} THEN acc ELSE Closure(nx, acc \cup nx)
                             base == Exact(nd.lo, {i})
                         IN IF nd.hi < 0 THEN Closure(base, base) ELSE Upto(nd.hi - nd.lo, base, base)
    [] nd.t = "bol"   -> IF i = 0 THEN {i} ELSE {}
    [] nd.t = "eol"   -> IF i = Len(buf) THEN {i} ELSE {}
    [] nd.t = "wb"    -> IF IsWordAt(buf, i - CS(fl), fl) # IsWordAt(buf, i, fl) THEN {i} ELSE {}
    [] nd.t = "nwb"   -> IF IsWordAt(buf, i - CS(fl), fl) = IsWordAt(buf, i, fl) THEN {i} ELSE {}
    [] nd.t = "empty" -> {i}

RECURSIVE Nullable(_)
Nullable(nd) ==
  CASE nd.t \in {"lit", "any", "mask", "class"} -> FALSE
    [] nd.t = "gap" -> nd.lo = 0
    [] nd.t = "cat" -> \A k \in 1..Len(nd.xs) : Nullable(nd.xs[k])
    [] nd.t = "alt" -> \E k \in 1..Len(nd.xs) : Nullable(nd.xs[k])
    [] nd.t = "rep" -> nd.lo = 0 \/ Nullable(nd.x)
    [] OTHER -> TRUE

\* fixed length of an expression, or -1 when it can match several lengths
RECURSIVE FixedLen(_)
FixedLen(nd) ==
  CASE nd.t \in {"lit", "any", "mask", "class"} -> 1
    [] nd.t = "gap" -> IF nd.lo = nd.hi THEN nd.lo ELSE -1
    [] nd.t = "cat" -> LET ls == [k \in 1..Len(nd.xs) |-> FixedLen(nd.xs[k])]
                           RECURSIVE S(_)
                           S(k) == IF k = 0 THEN 0 ELSE ls[k] + S(k - 1)
                       IN IF \E k \in 1..Len(nd.xs) : ls[k] < 0 THEN -1 ELSE S(Len(nd.xs))
    [] nd.t = "alt" -> LET ls == {FixedLen(nd.xs[k]) : k \in 1..Len(nd.xs)}
                       IN IF Cardinality(ls) = 1 /\ -1 \notin ls THEN CHOOSE x \in ls : TRUE ELSE -1
    [] nd.t = "rep" -> IF nd.lo = nd.hi /\ FixedLen(nd.x) >= 0 THEN nd.lo * FixedLen(nd.x) ELSE -1
    [] OTHER -> 0

\* the engine splits ("chains") an expression at a top-level lazy gap above the threshold (re.c:482)
ChainGaps(nd, thresh) ==
  IF nd.t # "cat" THEN {}
  ELSE {k \in 2..(Len(nd.xs) - 1) : nd.xs[k].t = "gap" /\ (nd.xs[k].lo > thresh \/ nd.xs[k].hi > thresh \/ nd.xs[k].hi < 0)}

\* pieces between the chaining gaps; is every piece of fixed length?
PiecesFixed(nd, thresh) ==
  LET gaps == ChainGaps(nd, thresh)
      pieceOf(k) == Cardinality({g \in gaps : g < k})
      npieces == Cardinality(gaps) + 1
      fixed(p) == \A k \in 1..Len(nd.xs) : (k \notin gaps /\ pieceOf(k) = p) => FixedLen(nd.xs[k]) >= 0
  IN \A p \in 0..(npieces - 1) : fixed(p)

FullwordOK(buf, o, e, fl) ==
  IF fl.wide
    THEN /\ ~(o >= 2 /\ buf[o] = 0 /\ IsAlnum(buf[o - 1]))
         /\ ~(e + 1 < Len(buf) /\ buf[e + 2] = 0 /\ IsAlnum(buf[e + 1]))
    ELSE /\ (o >= 1 => ~IsAlnum(buf[o]))
         /\ (e < Len(buf) => ~IsAlnum(buf[e + 1]))

\* lengths with which a string match may be reported at offset o, per flag variant (ascii and/or wide)
Variants(c) == (IF c.ascii THEN {[nocase |-> c.nocase, dotall |-> c.dotall, wide |-> FALSE]} ELSE {})
          \cup (IF c.wide  THEN {[nocase |-> c.nocase, dotall |-> c.dotall, wide |-> TRUE]} ELSE {})

MatchLens(c, o) ==
  UNION { {e - o : e \in {x \in Ends(c.ast, c.buf, o, fl) : c.fullword => FullwordOK(c.buf, o, x, fl)}} : fl \in Variants(c) }

\* strict verdict: reported offsets = offsets with a NON-EMPTY match; each length is a matching length
StringObsOK(c) ==
  /\ \A j \in 1..(Len(c.obs) - 1) : c.obs[j][1] < c.obs[j + 1][1]
  /\ \A j \in 1..Len(c.obs) : /\ c.obs[j][1] >= 0 /\ c.obs[j][1] < Len(c.buf)
                              /\ c.obs[j][2] > 0 /\ c.obs[j][2] \in MatchLens(c, c.obs[j][1])
  /\ \A o \in 0..(Len(c.buf) - 1) : (\E n \in MatchLens(c, o) : n > 0) => \E j \in 1..Len(c.obs) : c.obs[j][1] = o

\* D14: zero-length matches of an expression that can match the empty string are additionally reported
StringObsOK_D14(c) ==
  /\ Nullable(c.ast)
  /\ \A j \in 1..(Len(c.obs) - 1) : c.obs[j][1] < c.obs[j + 1][1]
  /\ \A j \in 1..Len(c.obs) : /\ c.obs[j][1] >= 0 /\ c.obs[j][1] < Len(c.buf)
                              /\ c.obs[j][2] \in MatchLens(c, c.obs[j][1])
  /\ \A o \in 0..(Len(c.buf) - 1) : (\E n \in MatchLens(c, o) : n > 0) => \E j \in 1..Len(c.obs) : c.obs[j][1] = o

\* D12/D13: a chained expression with a piece of variable length may MISS offsets (never adds, never invents a length)
StringObsOK_D12(c) ==
  /\ ChainGaps(c.ast, c.thresh) # {} /\ ~PiecesFixed(c.ast, c.thresh)
  /\ \A j \in 1..(Len(c.obs) - 1) : c.obs[j][1] < c.obs[j + 1][1]
  /\ \A j \in 1..Len(c.obs) : /\ c.obs[j][1] >= 0 /\ c.obs[j][1] < Len(c.buf)
                              /\ c.obs[j][2] > 0 /\ c.obs[j][2] \in MatchLens(c, c.obs[j][1])

\* D17: with fullword, an expression that matches several lengths at an offset is tested with the engine's preferred
\* length only (longest-first for greedy, shortest-first for lazy quantifiers); the offset is lost when that length
\* fails the word-boundary test although another length passes
RawLens(c, o) == UNION { {e - o : e \in Ends(c.ast, c.buf, o, fl)} : fl \in Variants(c) }
StringObsOK_D17(c) ==
  /\ c.fullword
  /\ \A j \in 1..(Len(c.obs) - 1) : c.obs[j][1] < c.obs[j + 1][1]
  /\ \A j \in 1..Len(c.obs) : /\ c.obs[j][1] >= 0 /\ c.obs[j][1] < Len(c.buf)
                              /\ c.obs[j][2] \in MatchLens(c, c.obs[j][1])
                              /\ (c.obs[j][2] = 0 => Nullable(c.ast))
  /\ \A o \in 0..(Len(c.buf) - 1) :
        ((\E n \in MatchLens(c, o) : n > 0) /\ ~(\E j \in 1..Len(c.obs) : c.obs[j][1] = o))
          => Cardinality(RawLens(c, o)) >= 2

\* D40: a counted repeat e{n,m} written with braces whose body can match the empty string, and whose emitted code has a
\* repeat section that may iterate more than once (m >= 3 or unbounded): the guard against endless loops of re.c
\* (_yr_re_fiber_sync: a split instruction is followed once between two consumed bytes) kills the second pass through the
\* body, so iterations that would match nothing - or that end in the split with which the next one starts, as in (a*){3,6}
\* - are lost. Offsets may be MISSED (never added, never with a length the expression cannot match).
RECURSIVE HasNullableCounted(_)
HasNullableCounted(nd) ==
  CASE nd.t = "rep" -> \/ ("brace" \in DOMAIN nd /\ nd.brace /\ Nullable(nd.x) /\ (nd.hi < 0 \/ nd.hi >= 3))
                       \/ HasNullableCounted(nd.x)
    [] nd.t \in {"cat", "alt"} -> \E k \in 1..Len(nd.xs) : HasNullableCounted(nd.xs[k])
    [] OTHER -> FALSE
\* D47: when the maximum of such a repeat is unbounded (or far above the size of the fiber pool) the engine does not merely lose
\* matches: an iteration that matches nothing goes round the repeat section again and again without consuming input, each time
\* through REPEAT_END / REPEAT_ANY, which the endless-loop guard does not cover, creating fibers until the pool is exhausted - the
\* scan of ANY data ends with ERROR_TOO_MANY_RE_FIBERS.
RECURSIVE HasNullableCountedUnbounded(_)
HasNullableCountedUnbounded(nd) ==
  CASE nd.t = "rep" -> \/ ("brace" \in DOMAIN nd /\ nd.brace /\ Nullable(nd.x) /\ (nd.hi < 0 \/ nd.hi > 200))
                       \/ HasNullableCountedUnbounded(nd.x)
    [] nd.t \in {"cat", "alt"} -> \E k \in 1..Len(nd.xs) : HasNullableCountedUnbounded(nd.xs[k])
    [] OTHER -> FALSE
StringObsOK_D40(c) ==
  /\ HasNullableCounted(c.ast)
  /\ \A j \in 1..(Len(c.obs) - 1) : c.obs[j][1] < c.obs[j + 1][1]
  /\ \A j \in 1..Len(c.obs) : /\ c.obs[j][1] >= 0 /\ c.obs[j][1] < Len(c.buf)
                              /\ c.obs[j][2] > 0 /\ c.obs[j][2] \in MatchLens(c, c.obs[j][1])
MatchesOK_D40(c) == HasNullableCounted(c.ast) /\ c.obs = FALSE

\* the `matches` operator: true iff the expression matches somewhere in the operand string (empty match allowed)
MatchesOp(ast, s, fl) == \E o \in 0..Len(s) : Ends(ast, s, o, fl) # {}
=============================================================================
