-------------------------------- MODULE ReVM --------------------------------
(***************************************************************************)
(* The regular-expression engine AS BUILT (libyara/re.c): the code that    *)
(* _yr_re_emit generates for an expression and the fiber machine of        *)
(* yr_re_exec / _yr_re_fiber_sync that runs it, for the forward direction  *)
(* in scan mode - exactly what the `matches` operator executes.            *)
(*                                                                         *)
(* ReMatch.tla says which byte sequences an expression matches (the        *)
(* documented semantics); this module says what the engine computes.  The  *)
(* two are compared by TLC on all small expressions (ReVMMC.tla) and every *)
(* `matches` verdict recorded from the real library must equal Matches     *)
(* below (FuncTrace kind "matches": binding of this model to the code).    *)
(*                                                                         *)
(* What is modelled, instruction by instruction:                           *)
(*  - code layout of literals, classes, concatenation, alternation, e*,    *)
(*    e+, e{n,m} with its prolog / repeat / split / epilog sections and    *)
(*    the adjusted counters (re.c:1006-1180), .{n,m} as REPEAT_ANY;        *)
(*  - one id per emitted split; which branch the ORIGINAL fiber takes      *)
(*    (SPLIT_A: next instruction, SPLIT_B: jump) from greedy / lazy;       *)
(*  - the ordered fiber list, clones inserted right after their original;  *)
(*  - _yr_re_fiber_sync: depth-first over the fiber and its clones with    *)
(*    ONE set of already-followed splits per call (the guard against       *)
(*    endless loops) - a fiber reaching a split of that set is killed;     *)
(*    repeat counters on a per-fiber stack; the nested sync (sharing the   *)
(*    set: D45) of the fiber that leaves a REPEAT_ANY;                     *)
(*  - the main loop: consuming instructions, zero-width assertions that    *)
(*    re-sync the fiber and go on in the same round, MATCH; a new fiber at *)
(*    the start of the code for every input position incl. the end (D37).  *)
(* GuardPerSync = TRUE is the engine as built (D40 follows from it);       *)
(* FALSE keys the guard by the repeat counters - the must-differ variant.  *)
(***************************************************************************)
EXTENDS ReMatch

INF == 32767                      \* RE_MAX_RANGE: upper bound written for {n,}

Ins(op, a, b, c, z, set) == [op |-> op, a |-> a, b |-> b, c |-> c, z |-> z, set |-> set]
I0(op) == Ins(op, 0, 0, 0, 0, << >>)

IsStar(nd) == nd.t = "rep" /\ ~("brace" \in DOMAIN nd /\ nd.brace) /\ nd.lo = 0 /\ nd.hi < 0
IsPlus(nd) == nd.t = "rep" /\ ~("brace" \in DOMAIN nd /\ nd.brace) /\ nd.lo = 1 /\ nd.hi < 0

\* expressions this module covers (hex-string nodes and wide mode are outside)
RECURSIVE Supported(_)
Supported(nd) ==
  CASE nd.t \in {"lit", "any", "class", "bol", "eol", "wb", "nwb", "empty"} -> TRUE
    [] nd.t \in {"cat", "alt"} -> \A k \in 1..Len(nd.xs) : Supported(nd.xs[k])
    [] nd.t = "rep" -> Supported(nd.x)
    [] OTHER -> FALSE

\* ---------------------------------------------------------------- emission
\* Emit(nd, id) = [c |-> code, n |-> next free split id]; jumps are relative to the instruction that holds them
RECURSIVE Emit(_, _)
Emit(nd, id) ==
  LET Z == IF "lz" \in DOMAIN nd /\ nd.lz THEN 1 ELSE 0       \* laziness is a property of each quantifier
  IN
  CASE nd.t = "lit"   -> [c |-> <<Ins("lit", nd.b, 0, 0, 0, << >>)>>, n |-> id]
    [] nd.t = "any"   -> [c |-> <<I0("any")>>, n |-> id]
    [] nd.t = "class" -> [c |-> <<Ins("class", IF nd.neg THEN 1 ELSE 0, 0, 0, 0, nd.set)>>, n |-> id]
    [] nd.t \in {"bol", "eol", "wb", "nwb"} -> [c |-> <<I0(nd.t)>>, n |-> id]
    [] nd.t = "empty" -> [c |-> << >>, n |-> id]
    [] nd.t = "cat" ->
         LET RECURSIVE Cat(_, _, _)
             Cat(k, acc, i) == IF k > Len(nd.xs) THEN [c |-> acc, n |-> i]
                               ELSE LET e == Emit(nd.xs[k], i) IN Cat(k + 1, acc \o e.c, e.n)
         IN Cat(1, << >>, id)
    [] nd.t = "alt" ->
         \* ((e1|e2)|e3): split L1,L2 ; L1: left ; jmp L3 ; L2: right ; L3:     (always SPLIT_A)
         LET RECURSIVE Alt(_, _, _)
             Alt(k, left, i) ==
               IF k > Len(nd.xs) THEN [c |-> left, n |-> i]
               ELSE LET r == Emit(nd.xs[k], i + 1)
                        code == <<Ins("split", i, Len(left) + 2, 0, 0, << >>)>> \o left
                                \o <<Ins("jmp", 0, Len(r.c) + 1, 0, 0, << >>)>> \o r.c
                    IN Alt(k + 1, code, r.n)
             first == Emit(nd.xs[1], id)
         IN IF Len(nd.xs) = 1 THEN first ELSE Alt(2, first.c, first.n)
    [] nd.t = "rep" /\ nd.x.t = "any" /\ ~IsStar(nd) /\ ~IsPlus(nd) /\ ~("grp" \in DOMAIN nd.x /\ nd.x.grp) ->
         \* RE_NODE_RANGE_ANY: .? and .{n,m} (re_grammar.y: the child is RE_NODE_ANY itself, not a group; .* and .+ are STAR / PLUS)
         [c |-> <<Ins("rany", nd.lo, IF nd.hi < 0 THEN INF ELSE nd.hi, 0, Z, << >>)>>, n |-> id]
    [] IsStar(nd) ->
         \* L1: split L1+1, L2 ; e ; jmp L1 ; L2:     greedy: SPLIT_A (the original enters e)
         LET e == Emit(nd.x, id + 1)
         IN [c |-> <<Ins("split", id, Len(e.c) + 2, Z, 0, << >>)>> \o e.c \o <<Ins("jmp", 0, -(Len(e.c) + 1), 0, 0, << >>)>>, n |-> e.n]
    [] IsPlus(nd) ->
         \* L1: e ; split L1, L2 ; L2:                greedy: SPLIT_B (the original jumps back)
         LET e == Emit(nd.x, id)
         IN [c |-> e.c \o <<Ins("split", e.n, -Len(e.c), 1 - Z, 0, << >>)>>, n |-> e.n + 1]
    [] nd.t = "rep" ->
         LET start == nd.lo
             end == IF nd.hi < 0 THEN INF ELSE nd.hi
             prolog == start > 0
             repeat == end > start + 1 \/ end > 2
             split == end > start
             epilog == end > start \/ end > 1
             rmin0 == IF prolog THEN start - 1 ELSE start
             rmax0 == IF prolog THEN end - 1 ELSE end
             rmin == IF split THEN rmin0 ELSE rmin0 - 1
             rmax == rmax0 - 1
             p == IF prolog THEN Emit(nd.x, id) ELSE [c |-> << >>, n |-> id]
             b == IF repeat THEN Emit(nd.x, p.n) ELSE [c |-> << >>, n |-> p.n]
             sid == b.n
             q == IF epilog THEN Emit(nd.x, IF split THEN sid + 1 ELSE sid) ELSE [c |-> << >>, n |-> IF split THEN sid + 1 ELSE sid]
             rep == IF repeat
                      THEN <<Ins("rs", rmin, rmax, Len(b.c) + 2, Z, << >>)>> \o b.c \o <<Ins("re", rmin, rmax, -Len(b.c), Z, << >>)>>
                      ELSE << >>
             sp == IF split THEN <<Ins("split", sid, Len(q.c) + 1, Z, 0, << >>)>> ELSE << >>
         IN IF end = 0 THEN [c |-> << >>, n |-> id]
            ELSE [c |-> p.c \o rep \o sp \o q.c, n |-> q.n]

Program(ast) == Emit(ast, 1).c \o <<I0("match")>>

\* ---------------------------------------------------------------- list helpers
Replace(L, k, f) == [L EXCEPT ![k] = f]
Remove(L, k) == SubSeq(L, 1, k - 1) \o SubSeq(L, k + 1, Len(L))
InsertAfter(L, k, f) == SubSeq(L, 1, k) \o <<f>> \o SubSeq(L, k + 1, Len(L))
Top(f) == f.stk[Len(f.stk)]
SetTop(f, v) == [f EXCEPT !.stk = [f.stk EXCEPT ![Len(f.stk)] = v]]
Pop(f) == [f EXCEPT !.stk = SubSeq(f.stk, 1, Len(f.stk) - 1)]
GKey(GuardPerSync, f, id) == IF GuardPerSync THEN <<id>> ELSE <<id, f.stk>>

\* ---------------------------------------------------------------- _yr_re_fiber_sync
\* the fibers L[pos .. Len(L) - tail] are run until each of them stands on an instruction of the main loop
\* returns [L |-> fibers, g |-> followed splits]: the set is shared with the nested calls (D45) and handed back
RECURSIVE SyncAt(_, _, _, _, _, _)
SyncAt(P, GPS, L, pos, tail, g) ==
  IF pos > Len(L) - tail THEN [L |-> L, g |-> g]
  ELSE
  LET f == L[pos]
      ins == P[f.ip]
  IN
  CASE ins.op = "split" ->
         IF GKey(GPS, f, ins.a) \in g THEN SyncAt(P, GPS, Remove(L, pos), pos, tail, g)
         ELSE LET nxt == [f EXCEPT !.ip = f.ip + 1]
                  jmp == [f EXCEPT !.ip = f.ip + ins.b]
                  orig == IF ins.c = 0 THEN nxt ELSE jmp        \* SPLIT_A: the original goes on, the clone jumps
                  clone == IF ins.c = 0 THEN jmp ELSE nxt
              IN SyncAt(P, GPS, InsertAfter(Replace(L, pos, orig), pos, clone), pos, tail, g \cup {GKey(GPS, f, ins.a)})
    [] ins.op = "jmp" -> SyncAt(P, GPS, Replace(L, pos, [f EXCEPT !.ip = f.ip + ins.b]), pos, tail, g)
    [] ins.op = "rs" ->
         LET enter == [f EXCEPT !.ip = f.ip + 1, !.stk = Append(f.stk, 0)]
             skip == [f EXCEPT !.ip = f.ip + ins.c]
         IN IF ins.a = 0
              THEN LET orig == IF ins.z = 0 THEN enter ELSE skip
                       clone == IF ins.z = 0 THEN skip ELSE enter
                   IN SyncAt(P, GPS, InsertAfter(Replace(L, pos, orig), pos, clone), pos, tail, g)
              ELSE SyncAt(P, GPS, Replace(L, pos, enter), pos, tail, g)
    [] ins.op = "re" ->
         LET f1 == SetTop(f, Top(f) + 1)
             loop == [f1 EXCEPT !.ip = f.ip + ins.c]
             exit == [Pop(f1) EXCEPT !.ip = f.ip + 1]
         IN IF Top(f1) < ins.a THEN SyncAt(P, GPS, Replace(L, pos, loop), pos, tail, g)
            ELSE IF Top(f1) < ins.b
              THEN LET orig == IF ins.z = 0 THEN loop ELSE exit       \* greedy: the original goes round again
                       clone == IF ins.z = 0 THEN exit ELSE loop
                   IN SyncAt(P, GPS, InsertAfter(Replace(L, pos, orig), pos, clone), pos, tail, g)
              ELSE SyncAt(P, GPS, Replace(L, pos, exit), pos, tail, g)
    [] ins.op = "rany" ->
         LET rc == IF f.rc = -1 THEN 0 ELSE f.rc
             after == Len(L) - pos                                   \* fibers behind this one: untouched, the loop goes on there
         IN IF rc < ins.a THEN SyncAt(P, GPS, Replace(L, pos, [f EXCEPT !.rc = rc + 1]), pos + 1, tail, g)
            ELSE IF rc < ins.b
              THEN LET spin == [f EXCEPT !.rc = rc + 1]
                       go == [f EXCEPT !.ip = f.ip + 1, !.rc = -1]
                       L2 == IF ins.z = 0 THEN InsertAfter(Replace(L, pos, spin), pos, go)
                                          ELSE InsertAfter(Replace(L, pos, go), pos, spin)
                       gopos == IF ins.z = 0 THEN pos + 1 ELSE pos
                       \* the leaving fiber is synced by a nested call that shares the set of followed splits
                       R3 == SyncAt(P, GPS, L2, gopos, Len(L2) - gopos, g)
                   IN SyncAt(P, GPS, R3.L, Len(R3.L) - after + 1, tail, R3.g)
              ELSE SyncAt(P, GPS, Replace(L, pos, [f EXCEPT !.ip = f.ip + 1, !.rc = -1]), pos, tail, g)
    [] OTHER -> SyncAt(P, GPS, L, pos + 1, tail, g)

Sync1(P, GPS, L, pos) == SyncAt(P, GPS, L, pos, Len(L) - pos, {}).L

\* ---------------------------------------------------------------- yr_re_exec, one input position
ByteOK(ins, x, fl) ==
  CASE ins.op = "lit" -> EqLit(ins.a, x, fl)
    [] ins.op = "any" -> fl.dotall \/ x # 10
    [] ins.op = "rany" -> fl.dotall \/ x # 10
    [] ins.op = "class" -> InClass(x, [set |-> ins.set, neg |-> ins.a = 1], fl)
    [] OTHER -> FALSE
AnchorOK(ins, buf, p, fl) ==
  CASE ins.op = "bol" -> p = 0
    [] ins.op = "eol" -> p = Len(buf)
    [] ins.op = "wb" -> IsWordAt(buf, p - 1, fl) # IsWordAt(buf, p, fl)
    [] ins.op = "nwb" -> IsWordAt(buf, p - 1, fl) = IsWordAt(buf, p, fl)
    [] OTHER -> FALSE

\* Round(...) = [L |-> fibers alive for the next position, m |-> a MATCH instruction was reached]
RECURSIVE Round(_, _, _, _, _, _, _, _)
Round(P, GPS, L, idx, p, buf, fl, m) ==
  IF idx > Len(L) THEN [L |-> L, m |-> m]
  ELSE
  LET f == L[idx]
      ins == P[f.ip]
      after == Len(L) - idx
  IN
  CASE ins.op \in {"lit", "any", "class", "rany"} ->
         IF p < Len(buf) /\ ByteOK(ins, buf[p + 1], fl)
           THEN LET f1 == IF ins.op = "rany" THEN f ELSE [f EXCEPT !.ip = f.ip + 1]
                    L2 == Sync1(P, GPS, Replace(L, idx, f1), idx)
                IN Round(P, GPS, L2, Len(L2) - after + 1, p, buf, fl, m)      \* what the sync added runs at the next position
           ELSE Round(P, GPS, Remove(L, idx), idx, p, buf, fl, m)
    [] ins.op \in {"bol", "eol", "wb", "nwb"} ->
         IF AnchorOK(ins, buf, p, fl)
           THEN Round(P, GPS, Sync1(P, GPS, Replace(L, idx, [f EXCEPT !.ip = f.ip + 1]), idx), idx, p, buf, fl, m)   \* same round
           ELSE Round(P, GPS, Remove(L, idx), idx, p, buf, fl, m)
    [] ins.op = "match" -> Round(P, GPS, Remove(L, idx), idx, p, buf, fl, TRUE)
    [] OTHER -> Round(P, GPS, Remove(L, idx), idx, p, buf, fl, m)             \* not reachable: sync leaves no such instruction

Fresh == [ip |-> 1, stk |-> << >>, rc |-> -1]

\* _yr_re_fiber_exists: at the start of every round a fiber equal to an earlier one (ip, counters) is dropped
RECURSIVE Dedupe(_, _)
Dedupe(L, k) == IF k > Len(L) THEN L
                ELSE IF \E j \in 1..(k - 1) : L[j] = L[k] THEN Dedupe(Remove(L, k), k) ELSE Dedupe(L, k + 1)

\* scan mode (RE_FLAGS_SCAN): a new fiber at the start of the code for every position 0..Len(buf)
RECURSIVE Scan(_, _, _, _, _, _)
Scan(P, GPS, L, p, buf, fl) ==
  LET r == Round(P, GPS, Dedupe(L, 1), 1, p, buf, fl, FALSE)
  IN IF r.m THEN TRUE
     ELSE IF p >= Len(buf) THEN FALSE
     ELSE LET L1 == Append(r.L, Fresh)
          IN Scan(P, GPS, Sync1(P, GPS, L1, Len(L1)), p + 1, buf, fl)

\* the verdict of `matches` as the engine computes it
MatchesVM(ast, buf, fl, GPS) ==
  LET P == Program(ast)
  IN Scan(P, GPS, Sync1(P, GPS, <<Fresh>>, 1), 0, buf, fl)
Matches(ast, buf, fl) == MatchesVM(ast, buf, fl, TRUE)
=============================================================================
