------------------------------- MODULE ReVMMC -------------------------------
(* The engine as built (ReVM) against the documented semantics (ReMatch) on  *)
(* ALL expressions of a small grammar and all operands over {a, b} up to a   *)
(* length bound: every verdict of `matches`.                                 *)
(*  - AsBuiltSound: the engine never says TRUE where the semantics say FALSE *)
(*  - AsBuiltCompleteExceptD40: it says FALSE instead of TRUE only for the   *)
(*    expressions that carry the signature of D40 (HasNullableCounted)       *)
(*  - with GuardPerSync = FALSE (guard keyed by the repeat counters) the two *)
(*    agree everywhere: Equivalent.                                          *)
EXTENDS ReVM

CONSTANTS GuardPerSync, MaxLen, Deep,
          WithAny,           \* include . (REPEAT_ANY for .? and .{n,m})
          UnboundedBrace     \* include e{n,}: with the keyed guard an empty body is iterated RE_MAX_RANGE times per position

VARIABLE case

La == [t |-> "lit", b |-> 97]
Lb == [t |-> "lit", b |-> 98]
A0 == {La, Lb} \cup (IF WithAny THEN {[t |-> "any"]} ELSE {})
Rp(x, lo, hi, lz, br) == [t |-> "rep", x |-> x, lo |-> lo, hi |-> hi, lz |-> lz, brace |-> br]
Cat2(x, y) == [t |-> "cat", xs |-> <<x, y>>]
Alt2(x, y) == [t |-> "alt", xs |-> <<x, y>>]
Forms(x) == {x, Rp(x, 0, -1, FALSE, FALSE), Rp(x, 1, -1, FALSE, FALSE), Rp(x, 0, 1, FALSE, FALSE),
             Rp(x, 0, 1, TRUE, FALSE), Rp(x, 0, -1, TRUE, FALSE),
             Rp(x, 0, 3, FALSE, TRUE), Rp(x, 2, 3, FALSE, TRUE), Rp(x, 3, 4, FALSE, TRUE), Rp(x, 4, 6, TRUE, TRUE)}
            \cup (IF UnboundedBrace THEN {Rp(x, 2, -1, FALSE, TRUE), Rp(x, 3, -1, TRUE, TRUE)} ELSE {})
L1 == UNION {Forms(x) : x \in A0} \cup {Cat2(x, y) : x, y \in A0} \cup {Alt2(x, y) : x, y \in A0}
\* quantified groups, concatenations and alternations of level-1 expressions; groups between two literals
L2q == UNION {Forms(x) : x \in L1}
L2 == L2q \cup (IF Deep THEN {Cat2(x, y) : x, y \in L1} \cup {Alt2(x, y) : x, y \in L1} ELSE {})
       \cup {[t |-> "cat", xs |-> <<La, x, Lb>>] : x \in L2q}
       \cup {[t |-> "cat", xs |-> <<[t |-> "wb"], x, Lb>>] : x \in L2q}

RECURSIVE Strs(_)
Strs(n) == IF n = 0 THEN {<< >>} ELSE LET s == Strs(n - 1) IN s \cup {Append(x, c) : x \in {y \in s : Len(y) = n - 1}, c \in {97, 98}}
Bufs == Strs(MaxLen)

FL == [nocase |-> FALSE, dotall |-> FALSE, wide |-> FALSE]
Init == case \in [ast : L2, buf : Bufs]
Next == UNCHANGED case
Spec == Init /\ [][Next]_case

VM == MatchesVM(case.ast, case.buf, FL, GuardPerSync)
Sem == MatchesOp(case.ast, case.buf, FL)
AsBuiltSound == VM => Sem
AsBuiltCompleteExceptD40 == (Sem /\ ~VM) => HasNullableCounted(case.ast)
Equivalent == VM = Sem
=============================================================================
