------------------------------- MODULE Scan -------------------------------
(***************************************************************************)
(* The life cycle of one YR_SCANNER (libyara/scanner.c, exec.c rule loop,  *)
(* modules.c import protocol, scan.c match cap), one action per critical   *)
(* section, plus the EXPECTATION written from the property statements only *)
(* (C10 history independence, C11 callback protocol, C13 resume            *)
(* equivalence, C15 limit isolation).                                       *)
(*                                                                         *)
(* Mechanism variables mirror YR_SCAN_CONTEXT.  The switches FixD1, FixD10 *)
(* and ModelD9 select the mechanism AS ORIGINALLY CODED (FALSE/TRUE) so    *)
(* that TLC reproduces the defects of DESIGN.md section 7 on the model;    *)
(* the trace specification uses the intended design.                       *)
(*                                                                         *)
(* Abstraction (DESIGN.md appendix C): a rule has at most one string, a    *)
(* marker text MK<m>; a file is a sequence of blocks, each with a size, a  *)
(* count per marker and the entry point visible in that block.  Markers    *)
(* never straddle a block border.                                          *)
(***************************************************************************)
EXTENDS Naturals, Integers, Sequences, FiniteSets, TLC

CONSTANTS
  MaxMatches,   \* YR_MAX_STRING_MATCHES of the build under test
  FixD1,        \* TRUE: entry point is reset at the start of every fresh scan
  FixD10,       \* TRUE: a fresh scan on a scanner left suspended first cleans it
  ModelD9       \* TRUE: a not-ready answer during rule evaluation is swallowed (as coded)

UNDEF == -1
ModTests == 1    \* module ids (imports are sequences of ids; the harness maps names to ids)
ModPe    == 2
ModHash  == 3

VARIABLES
  rs,          \* rule set [rules |-> Seq(rule), imports |-> Seq(module name)]
  phase,       \* "idle" | "blocks" | "gotblock" | "inblock" | "suspended" | "exec" | "report"
  cur,         \* the call in progress
  flags,       \* SUBSET {"match","nomatch"}: report flags
  timeout,     \* BOOLEAN: a 1 ns timeout is armed
  matches,     \* [rule index -> number of matches of the rule's string]
  reqEval, ruleFlags, nsUnsat, disabled,   \* the four bitmaps, as sets
  notebook,    \* scanner->matches_notebook # NULL
  leaked,      \* notebooks whose only pointer was overwritten
  entryPoint, fileSize,
  iterErr,     \* iterator->last_error: "ok" | "notready"
  modules,     \* loaded module objects: function module name -> id of the file they were parsed from
  execNR,      \* an iterator call made by rule evaluation was answered not-ready in this scan
  cb,          \* callback messages of the current logical scan (history variable)
  ret          \* result code of the last call

vars == <<rs, phase, cur, flags, timeout, matches, reqEval, ruleFlags, nsUnsat, disabled, notebook, leaked,
          entryPoint, fileSize, iterErr, modules, execNR, cb, ret>>

Rule(i) == rs.rules[i]
NRules  == Len(rs.rules)
RuleIdx == 1..NRules

\* A condition is [k, a, b].  Kinds:
\*  T F            constants
\*  M NM Cnt(b)    $m / not $m / #m == b  on the rule's own string
\*  Ref(a) NRef(a) earlier rule a / not rule a
\*  EP EPV(a)      entrypoint >= 0 (defined iff the file is an executable) / entrypoint == a
\*  FS(a)          filesize == a
\*  U8             uint8(o) == v for an offset inside the last block: true iff file.u8
\*  Undef          a condition that is undefined on every file
\*  Mod            tests.constants.one == 1     (needs import "tests")
\*  PeSec          pe.number_of_sections == K   (needs import "pe"; true iff the file parsed is the PE sample)
\*  Ext(a)         ext_t == a: the value of the external variable defined on THIS scanner for this scan (file.ext)
NeedsString(c) == c.k = "M"
NoReq == {i \in RuleIdx : ~NeedsString(Rule(i).cond)}

ZeroMatches == [i \in RuleIdx |-> 0]

Sum(f, n) == LET RECURSIVE S(_)
                 S(k) == IF k = 0 THEN 0 ELSE f[k] + S(k - 1)
             IN S(n)

Total(file, m) == Sum([b \in 1..Len(file.blocks) |-> file.blocks[b].mk[m]], Len(file.blocks))
Min(a, b) == IF a < b THEN a ELSE b

---------------------------------------------------------------------------
(* EXPECTATION: functions of the file, the flags and the replies only.     *)

EpOf(file) == LET defd == {b \in 1..Len(file.blocks) : file.blocks[b].ep # UNDEF}
              IN IF defd = {} THEN UNDEF
                 ELSE file.blocks[CHOOSE b \in defd : \A c \in defd : b <= c].ep

\* the file is presented through an iterator without a file_size function: `filesize` is undefined for this scan
NoFs(file) == "nofs" \in DOMAIN file /\ file.nofs

ETruth(c, r, file, V) ==      \* V: verdicts of the earlier rules; result TRUE / FALSE (undefined counts as FALSE)
  CASE c.k = "T"     -> TRUE
    [] c.k = "F"     -> FALSE
    [] c.k = "M"     -> Total(file, r.mk) > 0
    [] c.k = "NM"    -> Total(file, r.mk) = 0
    [] c.k = "Cnt"   -> Min(Total(file, r.mk), MaxMatches) = c.b
    [] c.k = "Ref"   -> V[c.a]
    [] c.k = "NRef"  -> ~V[c.a]
    [] c.k = "EP"    -> EpOf(file) # UNDEF
    [] c.k = "EPV"   -> EpOf(file) = c.a
    [] c.k = "FS"    -> ~NoFs(file) /\ file.size = c.a
    [] c.k = "U8"    -> ~NoFs(file) /\ file.u8          \* uint8(filesize - 3)
    [] c.k = "Undef" -> FALSE
    [] c.k = "Mod"   -> TRUE
    [] c.k = "PeSec" -> file.pesec
    [] c.k = "Ext"   -> file.ext = c.a
    [] c.k = "Hash"  -> ~NoFs(file) /\ file.id = c.a          \* hash.md5(0, filesize) == digest of file c.a (distinct files have distinct digests)

\* condition value of every rule on a clean scanner (rule references see the condition value only)
EConds(file) ==
  LET RECURSIVE V(_)
      V(n) == IF n = 0 THEN << >>
              ELSE LET prev == V(n - 1) IN Append(prev, ETruth(Rule(n).cond, Rule(n), file, prev))
  IN V(NRules)

\* a rule is reported as matching iff its condition holds and every global rule of its namespace holds
EReported(file) ==
  LET v == EConds(file)
  IN [i \in RuleIdx |-> v[i] /\ \A g \in RuleIdx : (Rule(g).global /\ Rule(g).ns = Rule(i).ns) => v[g]]

DistinctImports ==
  LET RECURSIVE D(_, _)
      D(k, acc) == IF k > Len(rs.imports) THEN acc
                   ELSE IF \E j \in 1..Len(acc) : acc[j] = rs.imports[k] THEN D(k + 1, acc)
                   ELSE D(k + 1, Append(acc, rs.imports[k]))
  IN D(1, << >>)

\* the complete message list of an undisturbed scan, without replies and without limit warnings
ExpectedMsgs(file, fl) ==
  LET rep == EReported(file)
      imps == DistinctImports
      RECURSIVE I(_)
      I(k) == IF k > Len(imps) THEN << >>
              ELSE <<[msg |-> "import", x |-> imps[k]], [msg |-> "imported", x |-> imps[k]]>> \o I(k + 1)
      RECURSIVE R(_)
      R(i) == IF i > NRules THEN << >>
              ELSE LET m == IF rep[i] THEN "match" ELSE "nomatch"
                   IN (IF ~Rule(i).private /\ m \in fl THEN <<[msg |-> m, x |-> i]>> ELSE << >>) \o R(i + 1)
  IN I(1) \o R(1) \o <<[msg |-> "finished", x |-> 0]>>

IsWarning(m) == m.msg \in {"toomany"}
StripWarnings(s) == SelectSeq(s, LAMBDA m : ~IsWarning(m))
Msgs(s) == [k \in 1..Len(s) |-> [msg |-> s[k].msg, x |-> s[k].x]]
IsPrefixOf(s, t) == Len(s) <= Len(t) /\ \A k \in 1..Len(s) : s[k] = t[k]

\* does message m with its reply end the scan, and with which result?
Cuts(m) == \/ (m.msg \in {"match", "nomatch"} /\ m.reply # "continue")
           \/ (m.msg \in {"import", "imported"} /\ m.reply = "error")
           \/ (m.msg = "toomany" /\ m.reply # "continue")
CutResult(m) == IF m.msg = "toomany" THEN "TOO_MANY_MATCHES"
                ELSE IF m.reply = "abort" THEN "SUCCESS" ELSE "CALLBACK_ERROR"

\* a block on which a regexp of the rule set needs more fibers than RE_MAX_FIBERS ("fiber bomb"): the documented outcome is
\* ERROR_TOO_MANY_RE_FIBERS for that scan - and nothing else: the scanner is as good as new afterwards (C10, C15)
RsBomb == "bomb" \in DOMAIN rs /\ rs.bomb
BlockBombed(b) == "bomb" \in DOMAIN b /\ b.bomb
FileBombed(file) == RsBomb /\ \E b \in 1..Len(file.blocks) : BlockBombed(file.blocks[b])

\* C11 (+C10, C13: nothing here mentions history, partition or not-ready subsets)
ProtocolHolds(file, fl, trace, code) ==
  LET body == Msgs(StripWarnings(trace))
      E    == ExpectedMsgs(file, fl)
      cuts == {k \in 1..Len(trace) : Cuts(trace[k])}
  IN IF cuts # {}
       THEN /\ cuts = {Len(trace)}                    \* nothing is delivered after the message that stops the scan
            /\ code = CutResult(trace[Len(trace)])
            /\ IsPrefixOf(body, E)
       ELSE IF code = "SUCCESS" THEN body = E /\ ~FileBombed(file)
       ELSE /\ code \in {"TIMEOUT"} \cup (IF FileBombed(file) THEN {"TOO_MANY_RE_FIBERS"} ELSE {})
                                                       \* a limit ended the scan: nothing but a prefix was delivered
            /\ IsPrefixOf(body, E)
            /\ \A k \in 1..Len(body) : body[k].msg # "finished"

---------------------------------------------------------------------------
(* MECHANISM                                                               *)

MTruth(c, i) ==
  CASE c.k = "T"     -> TRUE
    [] c.k = "F"     -> FALSE
    [] c.k = "M"     -> matches[i] > 0
    [] c.k = "NM"    -> matches[i] = 0
    [] c.k = "Cnt"   -> matches[i] = c.b
    [] c.k = "Ref"   -> c.a \in ruleFlags
    [] c.k = "NRef"  -> c.a \notin ruleFlags
    [] c.k = "EP"    -> entryPoint # UNDEF
    [] c.k = "EPV"   -> entryPoint = c.a
    [] c.k = "FS"    -> fileSize = c.a
    [] c.k = "U8"    -> fileSize # UNDEF /\ cur.file.u8
    [] c.k = "Undef" -> FALSE
    [] c.k = "Mod"   -> ModTests \in DOMAIN modules
    [] c.k = "PeSec" -> ModPe \in DOMAIN modules /\ modules[ModPe].pesec
    [] c.k = "Ext"   -> cur.file.ext = c.a
    [] c.k = "Hash"  -> ModHash \in DOMAIN modules /\ fileSize # UNDEF /\ cur.file.id = c.a      \* computed from the bytes of THIS scan, cached per scan

\* D9 (ModelD9): once an iterator call made by rule evaluation was answered not-ready, a value read through the
\* iterator (uintN, module fields parsed from the data) may be undefined instead
MTruthSet(c, i) ==
  IF execNR /\ c.k \in {"U8", "PeSec", "Hash"} THEN {MTruth(c, i), FALSE} ELSE {MTruth(c, i)}

CleanState ==
  /\ matches' = ZeroMatches /\ ruleFlags' = {} /\ reqEval' = {} /\ nsUnsat' = {} /\ disabled' = {}
  /\ notebook' = FALSE

Return(code, clean) ==       \* scanner.c _exit:
  /\ ret' = code
  /\ IF clean THEN CleanState /\ phase' = "idle"
     ELSE /\ phase' = "suspended"
          /\ UNCHANGED <<matches, ruleFlags, reqEval, nsUnsat, disabled, notebook>>

\* yr_scanner_scan_mem_blocks called with an iterator whose last_error is not NOT_READY
ScanFresh(file, fl, to, mode) ==
  /\ phase \in {"idle", "suspended"}
  /\ flags' = fl /\ timeout' = to
  /\ IF phase = "suspended" /\ FixD10
       THEN /\ matches' = ZeroMatches /\ ruleFlags' = {} /\ nsUnsat' = {} /\ disabled' = {}
            /\ leaked' = leaked
       ELSE /\ UNCHANGED <<matches, ruleFlags, nsUnsat, disabled>>          \* matches[] NOT cleared here
            /\ leaked' = IF notebook THEN leaked + 1 ELSE leaked          \* pointer overwritten (D10)
  /\ notebook' = TRUE
  /\ reqEval' = NoReq                                                      \* memcpy of no_required_strings
  /\ entryPoint' = IF FixD1 THEN UNDEF ELSE entryPoint
  /\ cur' = [file |-> file, pos |-> 1, pc |-> 1, ipc |-> 1, stage |-> "import", over |-> {}, mode |-> mode]
  /\ phase' = "blocks" /\ iterErr' = "ok" /\ execNR' = FALSE /\ cb' = << >>
  /\ UNCHANGED <<rs, fileSize, modules, ret>>

\* ... called again after ERROR_BLOCK_NOT_READY: no re-initialisation, iterator->next()
ScanResume ==
  /\ phase = "suspended" /\ iterErr = "notready"
  /\ phase' = "blocks"
  /\ UNCHANGED <<rs, cur, flags, timeout, matches, reqEval, ruleFlags, nsUnsat, disabled, notebook, leaked,
                 entryPoint, fileSize, iterErr, modules, execNR, cb, ret>>

CurBlock == cur.file.blocks[cur.pos]
HasBlock == cur.pos <= Len(cur.file.blocks)

IterNotReady ==                 \* the iterator answers "not ready" in the block loop
  /\ phase = "blocks"
  /\ iterErr' = "notready"
  /\ Return("BLOCK_NOT_READY", FALSE)
  /\ UNCHANGED <<rs, cur, flags, timeout, leaked, entryPoint, fileSize, modules, execNR, cb>>

IterBlock ==                    \* the iterator hands out block cur.pos (scanner.c:527-540)
  /\ phase = "blocks" /\ HasBlock
  /\ iterErr' = "ok"
  /\ entryPoint' = IF entryPoint = UNDEF THEN CurBlock.ep ELSE entryPoint
  /\ phase' = "gotblock"
  /\ UNCHANGED <<rs, cur, flags, timeout, matches, reqEval, ruleFlags, nsUnsat, disabled, notebook, leaked, fileSize,
                 modules, execNR, cb, ret>>

BlockTimeout ==                 \* scanner.c:74 (elapsed time is checked at i = 0 of a non-empty block)
  /\ phase = "gotblock" /\ timeout /\ CurBlock.size > 0
  /\ Return("TIMEOUT", TRUE)
  /\ UNCHANGED <<rs, cur, flags, timeout, leaked, entryPoint, fileSize, iterErr, modules, execNR, cb>>

BlockFails ==                   \* scan.c: a string verification fails with ERROR_TOO_MANY_RE_FIBERS; scanner.c _exit cleans up
  /\ phase = "gotblock" /\ ~(timeout /\ CurBlock.size > 0) /\ RsBomb /\ BlockBombed(CurBlock)
  /\ Return("TOO_MANY_RE_FIBERS", TRUE)
  /\ UNCHANGED <<rs, cur, flags, timeout, leaked, entryPoint, fileSize, iterErr, modules, execNR, cb>>

ScanBlock ==                    \* the block is scanned (scan.c): matches accumulate, rules become due for evaluation
  /\ phase = "gotblock" /\ ~(timeout /\ CurBlock.size > 0) /\ ~(RsBomb /\ BlockBombed(CurBlock))
  /\ LET b    == CurBlock
         hit  == {i \in RuleIdx : Rule(i).mk # 0 /\ i \notin disabled /\ b.mk[Rule(i).mk] > 0}
         over == {i \in hit : matches[i] + b.mk[Rule(i).mk] > MaxMatches}
     IN /\ matches' = [i \in RuleIdx |-> IF i \in hit THEN Min(matches[i] + b.mk[Rule(i).mk], MaxMatches)
                                          ELSE matches[i]]
        /\ reqEval' = reqEval \cup hit
        /\ cur' = [cur EXCEPT !.over = over]
  /\ phase' = "inblock"
  /\ UNCHANGED <<rs, flags, timeout, ruleFlags, nsUnsat, disabled, notebook, leaked, entryPoint, fileSize, iterErr,
                 modules, execNR, cb, ret>>

TooMany(i, reply) ==            \* scan.c:1094 CALLBACK_MSG_TOO_MANY_MATCHES
  /\ phase = "inblock" /\ i \in cur.over
  /\ cb' = Append(cb, [msg |-> "toomany", x |-> i, reply |-> reply])
  /\ IF reply = "continue"
       THEN /\ disabled' = disabled \cup {i}
            /\ cur' = [cur EXCEPT !.over = @ \ {i}]
            /\ UNCHANGED <<phase, matches, ruleFlags, reqEval, nsUnsat, notebook, ret>>
       ELSE /\ Return("TOO_MANY_MATCHES", TRUE)
            /\ UNCHANGED cur
  /\ UNCHANGED <<rs, flags, timeout, leaked, entryPoint, fileSize, iterErr, modules, execNR>>

BlockDone ==
  /\ phase = "inblock" /\ cur.over = {}
  /\ phase' = "blocks"
  /\ cur' = [cur EXCEPT !.pos = @ + 1]
  /\ UNCHANGED <<rs, flags, timeout, matches, reqEval, ruleFlags, nsUnsat, disabled, notebook, leaked, entryPoint,
                 fileSize, iterErr, modules, execNR, cb, ret>>

IterNull ==                     \* end of blocks: file size is taken, rule evaluation starts
  /\ phase = "blocks" /\ ~HasBlock
  /\ iterErr' = "ok"
  /\ fileSize' = IF cur.mode = "blocksnofs" \/ NoFs(cur.file) THEN UNDEF ELSE cur.file.size
  /\ phase' = "exec"
  /\ UNCHANGED <<rs, cur, flags, timeout, matches, reqEval, ruleFlags, nsUnsat, disabled, notebook, leaked,
                 entryPoint, modules, execNR, cb, ret>>

ExecFail(code) ==               \* yr_execute_code leaves: modules are unloaded on every path
  /\ modules' = << >>
  /\ Return(code, TRUE)

ImportSkip ==                   \* OP_IMPORT of a module that is already loaded
  /\ phase = "exec" /\ cur.ipc <= Len(rs.imports) /\ cur.stage = "import"
  /\ rs.imports[cur.ipc] \in DOMAIN modules
  /\ cur' = [cur EXCEPT !.ipc = @ + 1]
  /\ UNCHANGED <<rs, phase, flags, timeout, matches, reqEval, ruleFlags, nsUnsat, disabled, notebook, leaked,
                 entryPoint, fileSize, iterErr, modules, execNR, cb, ret>>

ImportModule(reply) ==          \* modules.c:134 CALLBACK_MSG_IMPORT_MODULE
  /\ phase = "exec" /\ cur.ipc <= Len(rs.imports) /\ cur.stage = "import"
  /\ rs.imports[cur.ipc] \notin DOMAIN modules
  /\ cb' = Append(cb, [msg |-> "import", x |-> rs.imports[cur.ipc], reply |-> reply])
  /\ IF reply = "error"
       THEN ExecFail("CALLBACK_ERROR") /\ UNCHANGED cur
       ELSE /\ cur' = [cur EXCEPT !.stage = "imported"]
            /\ modules' = modules @@ (rs.imports[cur.ipc] :> cur.file)   \* declarations + load(): parsed from this file
            /\ UNCHANGED <<phase, matches, reqEval, ruleFlags, nsUnsat, disabled, notebook, ret>>
  /\ UNCHANGED <<rs, flags, timeout, leaked, entryPoint, fileSize, iterErr, execNR>>

ModuleImported(reply) ==        \* modules.c:166 CALLBACK_MSG_MODULE_IMPORTED
  /\ phase = "exec" /\ cur.ipc <= Len(rs.imports) /\ cur.stage = "imported"
  /\ cb' = Append(cb, [msg |-> "imported", x |-> rs.imports[cur.ipc], reply |-> reply])
  /\ IF reply = "error"
       THEN ExecFail("CALLBACK_ERROR") /\ UNCHANGED cur
       ELSE /\ cur' = [cur EXCEPT !.stage = "import", !.ipc = @ + 1]
            /\ UNCHANGED <<phase, matches, reqEval, ruleFlags, nsUnsat, disabled, notebook, ret, modules>>
  /\ UNCHANGED <<rs, flags, timeout, leaked, entryPoint, fileSize, iterErr, execNR>>

ImportsDone == cur.ipc > Len(rs.imports)

ExecNotReady ==                 \* D9: first()/next() called by uintN/module code answers not-ready; nobody looks
  /\ ModelD9
  /\ phase = "exec" /\ cur.mode = "blocks" /\ ~execNR
  /\ execNR' = TRUE
  /\ UNCHANGED <<rs, phase, cur, flags, timeout, matches, reqEval, ruleFlags, nsUnsat, disabled, notebook, leaked,
                 entryPoint, fileSize, iterErr, modules, cb, ret>>

ExecRule ==                     \* OP_INIT_RULE .. OP_MATCH_RULE of rule cur.pc
  /\ phase = "exec" /\ ImportsDone /\ cur.pc <= NRules
  /\ LET i == cur.pc
         r == Rule(i)
     IN IF i \notin reqEval
          THEN /\ nsUnsat' = IF r.global THEN nsUnsat \cup {r.ns} ELSE nsUnsat
               /\ UNCHANGED ruleFlags
          ELSE \E v \in MTruthSet(r.cond, i) :
                  /\ ruleFlags' = IF v THEN ruleFlags \cup {i} ELSE ruleFlags
                  /\ nsUnsat'   = IF ~v /\ r.global THEN nsUnsat \cup {r.ns} ELSE nsUnsat
  /\ cur' = [cur EXCEPT !.pc = @ + 1]
  /\ UNCHANGED <<rs, phase, flags, timeout, matches, reqEval, disabled, notebook, leaked, entryPoint, fileSize,
                 iterErr, modules, execNR, cb, ret>>

ExecTimeout ==                  \* exec.c:2360 (every 100 instructions; whether it fires depends on the code size)
  /\ phase = "exec" /\ timeout
  /\ ExecFail("TIMEOUT")
  /\ UNCHANGED <<rs, cur, flags, timeout, leaked, entryPoint, fileSize, iterErr, execNR, cb>>

ExecEnd ==                      \* OP_HALT: modules unloaded, reporting loop starts
  /\ phase = "exec" /\ ImportsDone /\ cur.pc > NRules
  /\ modules' = << >>
  /\ phase' = "report"
  /\ cur' = [cur EXCEPT !.pc = 1]
  /\ UNCHANGED <<rs, flags, timeout, matches, reqEval, ruleFlags, nsUnsat, disabled, notebook, leaked, entryPoint,
                 fileSize, iterErr, execNR, cb, ret>>

RuleMessage(i) ==               \* scanner.c:578-592
  IF i \in ruleFlags /\ Rule(i).ns \notin nsUnsat
    THEN (IF "match" \in flags THEN "match" ELSE "none")
    ELSE (IF "nomatch" \in flags THEN "nomatch" ELSE "none")

ReportSkip ==
  /\ phase = "report" /\ cur.pc <= NRules
  /\ (RuleMessage(cur.pc) = "none" \/ Rule(cur.pc).private)
  /\ cur' = [cur EXCEPT !.pc = @ + 1]
  /\ UNCHANGED <<rs, phase, flags, timeout, matches, reqEval, ruleFlags, nsUnsat, disabled, notebook, leaked,
                 entryPoint, fileSize, iterErr, modules, execNR, cb, ret>>

ReportRule(reply) ==            \* scanner.c:594-606
  /\ phase = "report" /\ cur.pc <= NRules
  /\ RuleMessage(cur.pc) # "none" /\ ~Rule(cur.pc).private
  /\ cb' = Append(cb, [msg |-> RuleMessage(cur.pc), x |-> cur.pc, reply |-> reply])
  /\ CASE reply = "abort" -> Return("SUCCESS", TRUE) /\ UNCHANGED cur
       [] reply = "error" -> Return("CALLBACK_ERROR", TRUE) /\ UNCHANGED cur
       [] OTHER -> /\ cur' = [cur EXCEPT !.pc = @ + 1]
                   /\ UNCHANGED <<phase, matches, reqEval, ruleFlags, nsUnsat, disabled, notebook, ret>>
  /\ UNCHANGED <<rs, flags, timeout, leaked, entryPoint, fileSize, iterErr, modules, execNR>>

Finished(reply) ==              \* scanner.c:609 (the reply is ignored)
  /\ phase = "report" /\ cur.pc > NRules
  /\ cb' = Append(cb, [msg |-> "finished", x |-> 0, reply |-> reply])
  /\ Return("SUCCESS", TRUE)
  /\ UNCHANGED <<rs, cur, flags, timeout, leaked, entryPoint, fileSize, iterErr, modules, execNR>>

\* yr_scanner_destroy after any prefix of the history (D11: the notebook of a suspended scan must be released)
Destroyed == phase = "destroyed"

---------------------------------------------------------------------------
(* PROPERTIES                                                              *)

NoFile == [id |-> 0, size |-> 0, u8 |-> FALSE, pesec |-> FALSE, ext |-> 0, blocks |-> << >>]
NoCall == [file |-> NoFile, pos |-> 1, pc |-> 1, ipc |-> 1, stage |-> "import", over |-> {}, mode |-> "mem"]
ScanOver == phase = "idle" /\ cur.file.id # 0

\* C11 + C10 + C13: what was delivered for the logical scan that just ended is what the property prescribes
ProtocolOK == ScanOver => ProtocolHolds(cur.file, flags, cb, ret)

\* C10: nothing of a finished scan stays in the scanner
ResidualClean ==
  phase = "idle" => /\ matches = ZeroMatches /\ ruleFlags = {} /\ reqEval = {} /\ nsUnsat = {} /\ disabled = {}
                    /\ ~notebook /\ modules = << >>
NoLeak == leaked = 0

\* C15: hitting the match cap of one string leaves every other rule's verdict alone - implied by ProtocolOK,
\* because EReported caps only the string's own count; stated separately for the evidence:
LimitIsolation ==
  (ScanOver /\ ret = "SUCCESS" /\ (\A k \in 1..Len(cb) : ~Cuts(cb[k])))
    => \A j \in 1..Len(cb) : cb[j].msg \in {"match", "nomatch"} =>
         (cb[j].msg = "match") = EReported(cur.file)[cb[j].x]

TypeOK ==
  /\ phase \in {"idle", "blocks", "gotblock", "inblock", "suspended", "exec", "report"}
  /\ flags \subseteq {"match", "nomatch"}
  /\ reqEval \subseteq RuleIdx /\ ruleFlags \subseteq RuleIdx /\ disabled \subseteq RuleIdx
  /\ \A i \in RuleIdx : matches[i] <= MaxMatches
=============================================================================
