SPECIFICATION GSpec
CONSTANTS
  MaxMatches = 6
  FixD1 = TRUE
  FixD10 = TRUE
  ModelD9 = FALSE
  RSName = "history"
  MaxScans = 2
  MaxNotReady = 1
  WithTimeout = FALSE
  FlagChoice = "one"
INVARIANTS PrintComplete
CHECK_DEADLOCK FALSE
