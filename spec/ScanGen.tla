------------------------------ MODULE ScanGen ------------------------------
(* Behaviours of ScanMC as test cases for the implementation (the other direction of conformance: spec -> code).

   A ghost log records what the ENVIRONMENT does in a behaviour - which file is scanned with which flags / timeout / entry
   point, the answers of the block iterator, the reply to each callback message, the repeated calls - in the alphabet of the
   driver.  TLC explores all behaviours of the small scope (the log is part of the state, so every distinct history is a
   distinct state) and prints the log of every complete one as JSON; checks/scan.py turns each into a driver script (the
   model's rules and files are realised by gen/scangen.py), runs it on the library and validates the recorded trace against
   ScanTrace.tla like any other execution.  Every history of the scope is thereby exercised in the code.               *)
EXTENDS ScanMC, Json

VARIABLE glog
gvars == <<mcvars, glog>>

Log(x) == glog' = Append(glog, x)
\* the rule set and the files of the configuration are printed once, so that the replay uses the model's own definitions
GInit == Init /\ glog = << >> /\ PrintT(ToJson([model |-> "definitions", rs |-> RSOf(RSName), files |-> Files]))

GScanFresh == /\ nscans < MaxScans /\ nscans' = nscans + 1 /\ UNCHANGED nnr
              /\ \E f \in Files, fl \in FlagSets, to \in (IF WithTimeout THEN BOOLEAN ELSE {FALSE}), m \in {"mem", "blocks"} :
                   /\ m \in ModeOf(f) /\ ScanFresh(f, fl, to, m)
                   /\ Log([e |-> "Scan", file |-> f.id, match |-> "match" \in fl, nomatch |-> "nomatch" \in fl, timeout |-> to, mode |-> m])
GNext == \/ GScanFresh
         \/ (MScanResume /\ Log([e |-> "Resume"]))
         \/ (MIterBlock /\ Log([e |-> "It"])) \/ (MIterNull /\ Log([e |-> "It"])) \/ (MIterNotReady /\ Log([e |-> "NR"]))
         \/ ((MBlockTimeout \/ MScanBlock \/ MBlockFails \/ MBlockDone \/ MImportSkip \/ MExecRule \/ MExecTimeout \/ MExecEnd \/ MReportSkip) /\ UNCHANGED glog)
         \/ (Same /\ \E r \in Replies : (ImportModule(r) \/ ModuleImported(r) \/ ReportRule(r) \/ Finished(r)) /\ Log([e |-> "Cb", reply |-> r]))
         \/ (Same /\ \E r \in Replies, i \in RuleIdx : TooMany(i, r) /\ Log([e |-> "Cb", reply |-> r]))
GSpec == GInit /\ [][GNext]_gvars

\* a complete behaviour: all scans made, the last call returned and nothing is suspended
Complete == nscans = MaxScans /\ phase = "idle"
PrintComplete == Complete => PrintT(ToJson(glog))
=============================================================================
