------------------------------ MODULE ScanMC ------------------------------
(* Exhaustive exploration of Scan.tla: all histories of <= MaxScans scans  *)
(* over Files x flag sets x timeout, every callback reply at every         *)
(* message, not-ready answers at every iterator call (<= MaxNotReady per   *)
(* history), scans abandoned while suspended.                              *)
EXTENDS Scan

CONSTANTS RSName, MaxScans, MaxNotReady, WithTimeout, FlagChoice

VARIABLES nscans, nnr
mcvars == <<vars, nscans, nnr>>

C(k, a, b) == [k |-> k, a |-> a, b |-> b]
R(ns, g, p, mk, c) == [ns |-> ns, global |-> g, private |-> p, mk |-> mk, cond |-> c]
B(size, mk, ep) == [size |-> size, mk |-> mk, ep |-> ep]
F(id, size, u8, pesec, blocks) == [id |-> id, size |-> size, u8 |-> u8, pesec |-> pesec, ext |-> 0, blocks |-> blocks]

\* ---- rule sets
RS_protocol ==   \* C11: global / private / global+private / plain rules over two namespaces, two imports
  [rules |-> << R(1, FALSE, FALSE, 1, C("M", 0, 0)),
                R(1, TRUE,  FALSE, 0, C("FS", 8, 0)),
                R(1, FALSE, TRUE,  0, C("T", 0, 0)),
                R(2, TRUE,  TRUE,  2, C("M", 0, 0)),
                R(2, FALSE, FALSE, 0, C("Ref", 4, 0)),          \* (a rule can only name rules of its own namespace)
                R(2, FALSE, FALSE, 0, C("Undef", 0, 0)) >>,
   imports |-> <<1, 2, 1>>]

RS_history ==    \* C10: everything that could leak from one scan into the next
  [rules |-> << R(1, FALSE, FALSE, 0, C("EP", 0, 0)),
                R(1, FALSE, FALSE, 1, C("Cnt", 0, 0)),
                R(1, FALSE, FALSE, 0, C("PeSec", 0, 0)),
                R(1, FALSE, FALSE, 0, C("FS", 8, 0)),
                R(2, TRUE,  FALSE, 1, C("M", 0, 0)),
                R(2, FALSE, FALSE, 0, C("NRef", 5, 0)) >>,       \* names the global rule of its own namespace
   imports |-> <<2>>]

RS_resume ==     \* C13: block partitions and not-ready answers
  [rules |-> << R(1, FALSE, FALSE, 1, C("Cnt", 0, 2)),
                R(1, FALSE, FALSE, 2, C("M", 0, 0)),
                R(1, FALSE, FALSE, 0, C("U8", 0, 0)),
                R(1, TRUE,  FALSE, 0, C("FS", 8, 0)) >>,
   imports |-> <<1>>]

RS_cap ==        \* C15: match cap (MaxMatches = 2 in the model)
  [rules |-> << R(1, FALSE, FALSE, 1, C("Cnt", 0, 2)),
                R(1, FALSE, FALSE, 2, C("Cnt", 0, 1)),
                R(1, FALSE, FALSE, 1, C("M", 0, 0)),
                R(2, TRUE,  FALSE, 2, C("M", 0, 0)) >>,
   imports |-> << >>]

RS_fibers ==     \* C10/C15: a regexp that exhausts the fiber pool on "bomb" blocks
  [rules |-> << R(1, FALSE, FALSE, 1, C("M", 0, 0)),
                R(1, FALSE, FALSE, 0, C("F", 0, 0)),          \* the rule that owns the exploding regexp: never true
                R(1, FALSE, FALSE, 2, C("Cnt", 0, 1)),
                R(2, TRUE,  FALSE, 0, C("FS", 8, 0)) >>,
   imports |-> << >>, bomb |-> TRUE]

RSOf(n) == CASE n = "fibers" -> RS_fibers []  n = "protocol" -> RS_protocol [] n = "history" -> RS_history [] n = "resume" -> RS_resume
             [] n = "cap" -> RS_cap

\* ---- files (marker counts for markers 1, 2)
FilesOf(n) ==
  CASE n = "protocol" ->
         { F(1, 8, FALSE, FALSE, << B(8, <<1, 0>>, UNDEF) >>),
           F(2, 8, FALSE, TRUE,  << B(8, <<1, 1>>, 5) >>),
           F(3, 0, FALSE, FALSE, << B(0, <<0, 0>>, UNDEF) >>) }
    [] n = "history" ->
         { F(1, 8, FALSE, TRUE,  << B(8, <<1, 0>>, 5) >>),        \* PE-like: entry point, pe fields, one marker
           F(2, 8, FALSE, FALSE, << B(8, <<0, 0>>, UNDEF) >>),    \* text
           F(3, 0, FALSE, FALSE, << B(0, <<0, 0>>, UNDEF) >>),    \* empty
           F(4, 9, FALSE, FALSE, << B(4, <<1, 0>>, UNDEF), B(5, <<0, 0>>, 7) >>) }  \* ELF-like header in 2nd block
    [] n = "resume" ->
         { F(1, 8, TRUE,  FALSE, << B(8, <<2, 1>>, UNDEF) >>),
           F(2, 8, TRUE,  FALSE, << B(3, <<1, 0>>, UNDEF), B(5, <<1, 1>>, UNDEF) >>),
           F(3, 8, TRUE,  FALSE, << B(2, <<1, 0>>, UNDEF), B(0, <<0, 0>>, UNDEF), B(6, <<1, 1>>, UNDEF) >>),
           F(4, 8, TRUE,  FALSE, << B(2, <<0, 1>>, UNDEF), B(2, <<1, 0>>, UNDEF), B(2, <<0, 0>>, UNDEF), B(2, <<1, 0>>, UNDEF) >>) }
    [] n = "fibers" ->
         { F(1, 8, FALSE, FALSE, << B(8, <<1, 1>>, UNDEF) >>),
           F(2, 8, FALSE, FALSE, << [size |-> 8, mk |-> <<1, 0>>, ep |-> UNDEF, bomb |-> TRUE] >>),
           F(3, 8, FALSE, FALSE, << B(3, <<1, 0>>, UNDEF), [size |-> 5, mk |-> <<0, 1>>, ep |-> UNDEF, bomb |-> TRUE] >>),
           F(4, 8, FALSE, FALSE, << [size |-> 3, mk |-> <<0, 0>>, ep |-> UNDEF, bomb |-> TRUE], B(5, <<1, 1>>, UNDEF) >>) }
    [] n = "cap" ->
         { F(1, 8, FALSE, FALSE, << B(8, <<3, 1>>, UNDEF) >>),
           F(2, 8, FALSE, FALSE, << B(4, <<2, 1>>, UNDEF), B(4, <<2, 2>>, UNDEF) >>),
           F(3, 8, FALSE, FALSE, << B(4, <<1, 0>>, UNDEF), B(4, <<1, 0>>, UNDEF) >>) }

Files == FilesOf(RSName)
Replies == {"continue", "abort", "error"}
FlagSets == IF FlagChoice = "all" THEN {{"match", "nomatch"}, {"match"}, {"nomatch"}} ELSE {{"match", "nomatch"}}
ModeOf(f) == IF Len(f.blocks) = 1 THEN {"mem", "blocks"} ELSE {"blocks"}

Init ==
  /\ rs = RSOf(RSName)
  /\ phase = "idle" /\ cur = NoCall /\ flags = {"match", "nomatch"} /\ timeout = FALSE
  /\ matches = [i \in 1..Len(RSOf(RSName).rules) |-> 0]
  /\ reqEval = {} /\ ruleFlags = {} /\ nsUnsat = {} /\ disabled = {}
  /\ notebook = FALSE /\ leaked = 0 /\ entryPoint = UNDEF /\ fileSize = UNDEF /\ iterErr = "ok"
  /\ modules = << >> /\ execNR = FALSE /\ cb = << >> /\ ret = "SUCCESS"
  /\ nscans = 0 /\ nnr = 0

\* one named action per step kind, so that TLC's coverage output (-coverage) shows which ones a configuration exercises
Same == UNCHANGED <<nscans, nnr>>
MScanFresh == /\ nscans < MaxScans /\ nscans' = nscans + 1 /\ UNCHANGED nnr
              /\ \E f \in Files, fl \in FlagSets, to \in (IF WithTimeout THEN BOOLEAN ELSE {FALSE}), m \in {"mem", "blocks"} :
                   m \in ModeOf(f) /\ ScanFresh(f, fl, to, m)
MScanResume == Same /\ ScanResume
MBlockTimeout == Same /\ BlockTimeout
MIterBlock == Same /\ IterBlock
MScanBlock == Same /\ ScanBlock
MBlockFails == Same /\ BlockFails
MBlockDone == Same /\ BlockDone
MIterNull == Same /\ IterNull
MImportSkip == Same /\ ImportSkip
MExecRule == Same /\ ExecRule
MExecTimeout == Same /\ ExecTimeout
MExecEnd == Same /\ ExecEnd
MReportSkip == Same /\ ReportSkip
MExecNotReady == Same /\ ExecNotReady
MImportModule == Same /\ \E r \in Replies : ImportModule(r)
MModuleImported == Same /\ \E r \in Replies : ModuleImported(r)
MReportRule == Same /\ \E r \in Replies : ReportRule(r)
MFinished == Same /\ \E r \in Replies : Finished(r)
MTooMany == Same /\ \E r \in Replies, i \in RuleIdx : TooMany(i, r)
MIterNotReady == /\ cur.mode = "blocks" /\ nnr < MaxNotReady /\ nnr' = nnr + 1 /\ UNCHANGED nscans
                 /\ IterNotReady

Next == \/ MScanFresh \/ MScanResume \/ MBlockTimeout \/ MIterBlock \/ MScanBlock \/ MBlockFails \/ MBlockDone \/ MIterNull \/ MImportSkip
        \/ MExecRule \/ MExecTimeout \/ MExecEnd \/ MReportSkip \/ MExecNotReady \/ MImportModule \/ MModuleImported \/ MReportRule
        \/ MFinished \/ MTooMany \/ MIterNotReady

Spec == Init /\ [][Next]_mcvars

\* hide the history variable and the counters from the fingerprint where they only multiply states
View == <<rs, phase, cur, flags, timeout, matches, reqEval, ruleFlags, nsUnsat, disabled, notebook, leaked,
          entryPoint, fileSize, iterErr, modules, execNR, cb, ret, nscans, nnr>>
=============================================================================
