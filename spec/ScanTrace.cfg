SPECIFICATION TSpec
CONSTANTS
  MaxMatches <- TraceMaxMatches
  FixD1 = TRUE
  FixD10 = TRUE
  ModelD9 = FALSE
INVARIANTS TypeOK ProtocolOK ResidualClean NoLeak LimitIsolation NotAccepted
CONSTRAINT Progress
POSTCONDITION ReportProgress
CHECK_DEADLOCK FALSE
