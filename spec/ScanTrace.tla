----------------------------- MODULE ScanTrace -----------------------------
(* Trace validation: an NDJSON trace recorded from the real library (one    *)
(* scanner) is a behaviour of Scan.tla.  Every logged event binds to the   *)
(* action of the same name; steps the implementation does not log (rule    *)
(* evaluation, skipped reports, the implicit single block of the           *)
(* mem/file/fd entry points) are taken silently.  All invariants of Scan   *)
(* are evaluated in every state.  The trace is ACCEPTED iff a state with   *)
(* l = Len(TraceLog) + 1 is reachable (reported through the violation of   *)
(* NotAccepted).                                                           *)
EXTENDS Scan, Json, IOUtils

VARIABLE l
tvars == <<vars, l>>

TraceLog == ndJsonDeserialize(IOEnv.TRACE)
N == Len(TraceLog)
ev == TraceLog[l]
IsEv(e) == l <= N /\ ev.e = e
Step == l' = l + 1
SeqToSet(s) == {s[i] : i \in DOMAIN s}
TraceMaxMatches == atoi(IOEnv.MAXM)

CleanAll(rules) ==
  /\ phase' = "idle" /\ cur' = NoCall /\ flags' = {"match", "nomatch"} /\ timeout' = FALSE
  /\ matches' = [i \in 1..Len(rules) |-> 0]
  /\ reqEval' = {} /\ ruleFlags' = {} /\ nsUnsat' = {} /\ disabled' = {}
  /\ notebook' = FALSE /\ leaked' = 0 /\ entryPoint' = UNDEF /\ fileSize' = UNDEF /\ iterErr' = "ok"
  /\ modules' = << >> /\ execNR' = FALSE /\ cb' = << >> /\ ret' = "SUCCESS"

TInit ==
  /\ l = 1
  /\ rs = [rules |-> << >>, imports |-> << >>]
  /\ phase = "idle" /\ cur = NoCall /\ flags = {"match", "nomatch"} /\ timeout = FALSE
  /\ matches = << >>
  /\ reqEval = {} /\ ruleFlags = {} /\ nsUnsat = {} /\ disabled = {}
  /\ notebook = FALSE /\ leaked = 0 /\ entryPoint = UNDEF /\ fileSize = UNDEF /\ iterErr = "ok"
  /\ modules = << >> /\ execNR = FALSE /\ cb = << >> /\ ret = "SUCCESS"

\* a new scanner over a (new) rule set: yr_scanner_create
TRules ==
  /\ IsEv("Rules") /\ Step
  /\ rs' = [rules |-> ev.rules, imports |-> ev.imports, bomb |-> ("bomb" \in DOMAIN ev /\ ev.bomb)]
  /\ CleanAll(ev.rules)

TScan ==
  /\ IsEv("Scan") /\ Step
  /\ ScanFresh(ev.file, SeqToSet(ev.flags), ev.timeout, ev.mode)

TResume == IsEv("Resume") /\ Step /\ ScanResume

TIter ==
  /\ IsEv("Iter") /\ Step
  /\ \/ /\ phase = "blocks" /\ cur.mode \in {"blocks", "blocksnofs"}
        /\ CASE ev.ans = "block"    -> IterBlock /\ ev.b + 1 = cur.pos
             [] ev.ans = "null"     -> IterNull
             [] ev.ans = "notready" -> IterNotReady
             [] OTHER -> FALSE
     \/ /\ phase = "exec"           \* iterator calls made by rule evaluation / module loading
        /\ IF ev.ans = "notready" THEN ExecNotReady \/ (execNR /\ UNCHANGED vars) ELSE UNCHANGED vars

TCb ==
  /\ IsEv("Cb") /\ Step
  /\ CASE ev.msg = "toomany"  -> TooMany(ev.x, ev.reply)
       [] ev.msg = "import"   -> ImportModule(ev.reply) /\ rs.imports[cur.ipc] = ev.x
       [] ev.msg = "imported" -> ModuleImported(ev.reply) /\ rs.imports[cur.ipc] = ev.x
       [] ev.msg \in {"match", "nomatch"} -> ReportRule(ev.reply) /\ cur.pc = ev.x /\ RuleMessage(cur.pc) = ev.msg
       [] ev.msg = "finished" -> Finished(ev.reply)
       [] OTHER -> FALSE

SumMatches == Sum([i \in RuleIdx |-> IF matches[i] > 0 THEN matches[i] + 2 ELSE 0], NRules)

ResidOK(r) ==
  /\ r.matches = SumMatches
  /\ r.unconfirmed = 0
  /\ r.ruleFlags = Cardinality(ruleFlags)
  /\ r.reqEval = Cardinality(reqEval)
  /\ r.nsUnsat = Cardinality(nsUnsat)
  /\ r.disabled = Cardinality(disabled)
  /\ r.notebook = (IF notebook THEN 1 ELSE 0)
  /\ r.modules = Cardinality(DOMAIN modules)
  /\ ("flagsChanged" \in DOMAIN r => r.flagsChanged = 0)     \* the scan flags are the caller's: a scan leaves them as set

\* the call returned: result code and the projected scanner state must be the model's
TRet ==
  /\ IsEv("Ret") /\ Step
  /\ phase \in {"idle", "suspended"}
  /\ ev.ret = ret
  /\ ev.full => /\ ResidOK(ev.resid)
                 /\ (phase = "idle" => ev.entry_point = entryPoint)
                 /\ (phase = "idle" /\ ret = "SUCCESS" => ev.file_size = fileSize)
  /\ UNCHANGED vars

Silent ==
  /\ UNCHANGED l
  /\ \/ ScanBlock \/ BlockFails \/ BlockDone \/ ImportSkip \/ ExecRule \/ ExecEnd \/ ReportSkip \/ BlockTimeout \/ ExecTimeout
     \/ (cur.mode \notin {"blocks", "blocksnofs"} /\ (IterBlock \/ IterNull))

TNext == TRules \/ TScan \/ TResume \/ TIter \/ TCb \/ TRet \/ Silent

TSpec == TInit /\ [][TNext]_tvars

NotAccepted == l <= N

\* progress register: the furthest line reached (diagnosis of a rejected trace)
Progress == TLCSet(1, IF l > TLCGet(1) THEN l ELSE TLCGet(1))
ASSUME TLCSet(1, 0)
ReportProgress == PrintT(<<"maxl", TLCGet(1), "of", N>>)
=============================================================================
