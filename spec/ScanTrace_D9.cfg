SPECIFICATION TSpec
CONSTANTS
  MaxMatches <- TraceMaxMatches
  FixD1 = TRUE
  FixD10 = TRUE
  ModelD9 = TRUE
INVARIANTS TypeOK ResidualClean NoLeak NotAccepted
CONSTRAINT Progress
POSTCONDITION ReportProgress
CHECK_DEADLOCK FALSE
