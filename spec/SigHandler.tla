------------------------------ MODULE SigHandler ------------------------------
(***************************************************************************)
(* YR_TRYCATCH (libyara/exception.h, POSIX): concurrent scans install the  *)
(* SIGBUS/SIGSEGV handler on the first entry and restore the previous one  *)
(* on the last exit, counted under exception_handler_mutex.  One label per *)
(* statement between lock operations.                                      *)
(* CountInsideIf = TRUE: the use count is incremented only by the thread   *)
(* that installs the handler (the bug that lets the first scan to finish   *)
(* uninstall the handler under a scan that is still running).              *)
(***************************************************************************)
EXTENDS Naturals, Integers, FiniteSets, Sequences, TLC

CONSTANTS Threads, Scans, CountInsideIf,
          SaveMask,      \* TRUE = as built: sigsetjmp(jb, 1) saves the signal mask and siglongjmp out of the handler restores it
          MaxFaults,     \* memory faults (SIGBUS) that may hit a thread while it is inside the protected body
          OneShot        \* FALSE = as built; TRUE: the handler is installed with SA_RESETHAND (the first caught fault uninstalls it)

VARIABLES pc,        \* thread -> "idle" | "locked1" | "body" | "locked2" | "done"
          left,      \* scans left per thread
          mutex,     \* holder (thread id) or 0 = free
          usecount, installed,
          log,       \* hook H5 events <<kind, usecount, installed>> in mutex order (history)
          blocked,   \* thread -> the fault signals are blocked in the thread's signal mask
          faults,    \* thread -> faults taken so far
          killed     \* the process was killed by a signal nobody caught
svars == <<pc, left, mutex, usecount, installed, log, blocked, faults, killed>>
svarsNoLog == <<pc, left, mutex, usecount, installed, blocked, faults, killed>>

Lock1(t) == /\ pc[t] = "idle" /\ left[t] > 0 /\ mutex = 0
            /\ mutex' = t /\ pc' = [pc EXCEPT ![t] = "locked1"]
            /\ UNCHANGED <<left, usecount, installed, log, blocked, faults, killed>>
Enter(t) == /\ pc[t] = "locked1"
            /\ installed' = (installed \/ usecount = 0)                 \* sigaction(install) on 0
            /\ usecount' = IF CountInsideIf THEN (IF usecount = 0 THEN 1 ELSE usecount) ELSE usecount + 1
            /\ log' = Append(log, <<1, usecount', installed'>>)
            /\ mutex' = 0 /\ pc' = [pc EXCEPT ![t] = "body"]
            /\ UNCHANGED <<left, blocked, faults, killed>>
Lock2(t) == /\ pc[t] = "body" /\ mutex = 0
            /\ mutex' = t /\ pc' = [pc EXCEPT ![t] = "locked2"]
            /\ UNCHANGED <<left, usecount, installed, log, blocked, faults, killed>>
Leave(t) == /\ pc[t] = "locked2"
            /\ usecount' = usecount - 1
            /\ installed' = IF usecount' = 0 THEN FALSE ELSE installed    \* sigaction(restore) on 0
            /\ log' = Append(log, <<2, usecount', installed'>>)
            /\ mutex' = 0 /\ left' = [left EXCEPT ![t] = @ - 1]
            /\ pc' = [pc EXCEPT ![t] = "idle"]
            /\ UNCHANGED <<blocked, faults, killed>>
\* a memory fault while the scan reads the data (a mapped file that was cut): the kernel delivers SIGBUS to the faulting thread.
\* With no handler installed, or with the signal blocked in that thread, the process is killed.  Otherwise the handler runs
\* (all signals blocked while it does) and leaves through siglongjmp to the sigsetjmp of YR_TRYCATCH: the scan goes on to its
\* exit path with ERROR_COULD_NOT_MAP_FILE; the thread's mask is the one saved by sigsetjmp - if it saved one.
Fault(t) == /\ pc[t] = "body" /\ ~killed /\ faults[t] < MaxFaults
            /\ faults' = [faults EXCEPT ![t] = @ + 1]
            /\ IF ~installed \/ blocked[t] THEN killed' = TRUE /\ UNCHANGED blocked
               ELSE killed' = killed /\ blocked' = [blocked EXCEPT ![t] = ~SaveMask]
            /\ installed' = IF OneShot /\ installed /\ ~blocked[t] THEN FALSE ELSE installed
            /\ UNCHANGED <<pc, left, mutex, usecount, log>>

SInit == /\ pc = [t \in Threads |-> "idle"] /\ left = [t \in Threads |-> Scans] /\ mutex = 0
         /\ usecount = 0 /\ installed = FALSE /\ log = << >>
         /\ blocked = [t \in Threads |-> FALSE] /\ faults = [t \in Threads |-> 0] /\ killed = FALSE
SNext == \E t \in Threads : Lock1(t) \/ Enter(t) \/ Lock2(t) \/ Leave(t) \/ Fault(t)
SSpec == SInit /\ [][SNext]_svars /\ WF_svars(SNext)

InBody == {t \in Threads : pc[t] \in {"body", "locked2"}}
\* a scan that is inside the protected region always has the handler installed
HandlerCoversBody == InBody # {} => installed
\* the count is the number of threads between Enter and Leave
CountExact == mutex = 0 => usecount = Cardinality(InBody)
InstalledIffUsed == mutex = 0 => (installed <=> usecount > 0)
NonNegative == usecount >= 0
AllDone == <>(\A t \in Threads : left[t] = 0)
\* a fault inside the protected body never kills the process, and a scan leaves the calling thread's signal mask as it found it
NeverKilled == ~killed
MaskRestored == \A t \in Threads : pc[t] = "idle" => ~blocked[t]

\* ---- judgement of a recorded event sequence (hook H5, sequence taken under the mutex):
\* replaying the events must reproduce the model's counter: enter -> +1, leave -> -1, installed iff count > 0
HookTraceOK(c) ==
  LET evs == c.events
      prev(i) == IF i = 1 THEN 0 ELSE evs[i - 1][2]
  IN /\ \A i \in 1..Len(evs) : /\ evs[i][2] = prev(i) + (IF evs[i][1] = 1 THEN 1 ELSE -1)
                                 /\ evs[i][2] >= 0
                                 /\ evs[i][3] = (IF evs[i][2] > 0 THEN 1 ELSE 0)
     /\ (Len(evs) > 0 => evs[Len(evs)][2] = 0)

\* ---- judgement of a recorded sequence of faulting scans made by one thread (Fault above, SaveMask as built): each returns
\* ERROR_COULD_NOT_MAP_FILE (4) and leaves the thread's signal mask unchanged (the run itself shows that nothing was killed)
BusTraceOK(c) == \A i \in 1..Len(c.scans) : c.scans[i].ret = 4 /\ ~c.scans[i].mask_changed

=============================================================================
