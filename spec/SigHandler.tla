------------------------------ MODULE SigHandler ------------------------------
(***************************************************************************)
(* YR_TRYCATCH (libyara/exception.h, POSIX): concurrent scans install the  *)
(* SIGBUS/SIGSEGV handler on the first entry and restore the previous one  *)
(* on the last exit, counted under exception_handler_mutex.  One label per *)
(* statement between lock operations.                                      *)
(* CountInsideIf = TRUE: the use count is incremented only by the thread   *)
(* that installs the handler (the bug that lets the first scan to finish   *)
(* uninstall the handler under a scan that is still running).              *)
(***************************************************************************)
EXTENDS Naturals, Integers, FiniteSets, Sequences, TLC

CONSTANTS Threads, Scans, CountInsideIf

VARIABLES pc,        \* thread -> "idle" | "locked1" | "body" | "locked2" | "done"
          left,      \* scans left per thread
          mutex,     \* holder (thread id) or 0 = free
          usecount, installed,
          log        \* hook H5 events <<kind, usecount, installed>> in mutex order (history)
svars == <<pc, left, mutex, usecount, installed, log>>
svarsNoLog == <<pc, left, mutex, usecount, installed>>

Lock1(t) == /\ pc[t] = "idle" /\ left[t] > 0 /\ mutex = 0
            /\ mutex' = t /\ pc' = [pc EXCEPT ![t] = "locked1"]
            /\ UNCHANGED <<left, usecount, installed, log>>
Enter(t) == /\ pc[t] = "locked1"
            /\ installed' = (installed \/ usecount = 0)                 \* sigaction(install) on 0
            /\ usecount' = IF CountInsideIf THEN (IF usecount = 0 THEN 1 ELSE usecount) ELSE usecount + 1
            /\ log' = Append(log, <<1, usecount', installed'>>)
            /\ mutex' = 0 /\ pc' = [pc EXCEPT ![t] = "body"]
            /\ UNCHANGED left
Lock2(t) == /\ pc[t] = "body" /\ mutex = 0
            /\ mutex' = t /\ pc' = [pc EXCEPT ![t] = "locked2"]
            /\ UNCHANGED <<left, usecount, installed, log>>
Leave(t) == /\ pc[t] = "locked2"
            /\ usecount' = usecount - 1
            /\ installed' = IF usecount' = 0 THEN FALSE ELSE installed    \* sigaction(restore) on 0
            /\ log' = Append(log, <<2, usecount', installed'>>)
            /\ mutex' = 0 /\ left' = [left EXCEPT ![t] = @ - 1]
            /\ pc' = [pc EXCEPT ![t] = "idle"]

SInit == /\ pc = [t \in Threads |-> "idle"] /\ left = [t \in Threads |-> Scans] /\ mutex = 0
         /\ usecount = 0 /\ installed = FALSE /\ log = << >>
SNext == \E t \in Threads : Lock1(t) \/ Enter(t) \/ Lock2(t) \/ Leave(t)
SSpec == SInit /\ [][SNext]_svars /\ WF_svars(SNext)

InBody == {t \in Threads : pc[t] \in {"body", "locked2"}}
\* a scan that is inside the protected region always has the handler installed
HandlerCoversBody == InBody # {} => installed
\* the count is the number of threads between Enter and Leave
CountExact == mutex = 0 => usecount = Cardinality(InBody)
InstalledIffUsed == mutex = 0 => (installed <=> usecount > 0)
NonNegative == usecount >= 0
AllDone == <>(\A t \in Threads : left[t] = 0)

\* ---- judgement of a recorded event sequence (hook H5, sequence taken under the mutex):
\* replaying the events must reproduce the model's counter: enter -> +1, leave -> -1, installed iff count > 0
HookTraceOK(c) ==
  LET evs == c.events
      prev(i) == IF i = 1 THEN 0 ELSE evs[i - 1][2]
  IN /\ \A i \in 1..Len(evs) : /\ evs[i][2] = prev(i) + (IF evs[i][1] = 1 THEN 1 ELSE -1)
                                 /\ evs[i][2] >= 0
                                 /\ evs[i][3] = (IF evs[i][2] > 0 THEN 1 ELSE 0)
     /\ (Len(evs) > 0 => evs[Len(evs)][2] = 0)

=============================================================================
