----------------------------- MODULE TextMatch -----------------------------
(***************************************************************************)
(* Reference semantics of YARA text strings (manual: writingrules.rst,     *)
(* "Text strings"): which (length, xor key) a string declaration with a    *)
(* modifier set may be reported with at a 0-based offset of a buffer.      *)
(*                                                                         *)
(* mods: [ascii, wide, nocase, fullword, xor, xlo, xhi, b64, b64w, alpha]  *)
(*   ascii is TRUE also when neither ascii nor wide was written.           *)
(* Assumptions (manual silent, code followed; DESIGN.md section 8):        *)
(*  - fullword on a xor-ed occurrence tests the raw neighbouring bytes;    *)
(*  - fullword on a wide occurrence rejects a neighbour only when it is a  *)
(*    wide alphanumeric (alnum byte + zero byte on the outer side);        *)
(*  - when several variants match at one offset, any one of them may be    *)
(*    the reported (length, key).                                          *)
(***************************************************************************)
EXTENDS Bytes

EqB(p, d, nocase) == IF nocase THEN Lower(p) = Lower(d) ELSE p = d

\* plain / xor-ed ascii occurrence of pat at o with key k (k = 0: plain)
AsciiAt(pat, buf, o, nocase, k) ==
  /\ Fits(buf, o, Len(pat))
  /\ \A i \in 1..Len(pat) : EqB(pat[i], BXor(buf[o + i], k), nocase)

WideAt(pat, buf, o, nocase, k) ==
  /\ Fits(buf, o, 2 * Len(pat))
  /\ \A i \in 1..Len(pat) : /\ EqB(pat[i], BXor(buf[o + 2 * i - 1], k), nocase)
                            /\ BXor(buf[o + 2 * i], k) = 0

FullwordAscii(buf, o, n) ==
  /\ (o >= 1 => ~IsAlnum(buf[o]))                       \* buf[o] is the byte before offset o (1-based indexing)
  /\ (o + n < Len(buf) => ~IsAlnum(buf[o + n + 1]))

FullwordWide(buf, o, n) ==
  /\ ~(o >= 2 /\ buf[o] = 0 /\ IsAlnum(buf[o - 1]))
  /\ ~(o + n + 1 < Len(buf) /\ buf[o + n + 2] = 0 /\ IsAlnum(buf[o + n + 1]))

\* ---- base64 (manual: "the three base64 permutations of the string")
B64Char(alpha, v) == alpha[v + 1]
PadA(s, i) == [j \in 1..(Len(s) + i) |-> IF j <= i THEN 65 ELSE s[j - i]]
\* full groups of 3 bytes -> 4 characters; a trailing partial group contributes the characters that depend only on
\* the known bytes: 1 byte -> 1 char... the implementation encodes with padding and then trims "pad + 1" characters
B64Enc(s, alpha) ==
  LET n == Len(s)
      full == n \div 3
      rem == n % 3
      Q(g) == LET a == s[3 * g + 1] b == s[3 * g + 2] c == s[3 * g + 3]
              IN << B64Char(alpha, a \div 4), B64Char(alpha, (a % 4) * 16 + b \div 16),
                    B64Char(alpha, (b % 16) * 4 + c \div 64), B64Char(alpha, c % 64) >>
      RECURSIVE Body(_)
      Body(g) == IF g = full THEN << >> ELSE Q(g) \o Body(g + 1)
      tail == IF rem = 0 THEN << >>
              ELSE IF rem = 1 THEN LET a == s[3 * full + 1] IN << B64Char(alpha, a \div 4), B64Char(alpha, (a % 4) * 16), 61, 61 >>
              ELSE LET a == s[3 * full + 1] b == s[3 * full + 2]
                   IN << B64Char(alpha, a \div 4), B64Char(alpha, (a % 4) * 16 + b \div 16), B64Char(alpha, (b % 16) * 4), 61 >>
  IN Body(0) \o tail

B64Piece(s, alpha, i) ==
  LET enc == B64Enc(PadA(s, i), alpha)
      pad == IF (i + Len(s)) % 3 = 0 THEN 0 ELSE 3 - ((i + Len(s)) % 3)
      leading == IF i = 0 THEN 0 ELSE i + 1
      trailing == IF pad = 0 THEN 0 ELSE pad + 1
  IN SubSeq(enc, leading + 1, Len(enc) - trailing)

B64Pieces(pat, m) ==
  LET sources == (IF m.wide THEN {Wide(pat)} ELSE {}) \cup (IF m.ascii THEN {pat} ELSE {})
      perms(s) == {B64Piece(s, m.alpha, i) : i \in {j \in 0..2 : ~(j = 1 /\ Len(s) = 1)}}
      plain == UNION {perms(s) : s \in sources}
  IN (IF m.b64 THEN plain ELSE {}) \cup (IF m.b64w THEN {Wide(p) : p \in plain} ELSE {})

LitAt(p, buf, o) == Fits(buf, o, Len(p)) /\ \A i \in 1..Len(p) : p[i] = buf[o + i]

\* ---- the set of (length, key) with which the string may be reported at offset o
Allowed(pat, m, buf, o) ==
  IF m.b64 \/ m.b64w
    THEN {<<Len(p), 0>> : p \in {q \in B64Pieces(pat, m) : Len(q) > 0 /\ LitAt(q, buf, o)}}
  ELSE
  LET L == Len(pat)
      keys == IF m.xor THEN m.xlo..m.xhi ELSE {0}
      \* the key is determined by the first byte, which keeps the oracle linear
      ka == BXor(buf[o + 1], pat[1])
      A == IF m.ascii /\ o < Len(buf) /\ ~m.nocase /\ ka \in keys /\ AsciiAt(pat, buf, o, FALSE, ka)
                /\ (m.fullword => FullwordAscii(buf, o, L))
             THEN {<<L, ka>>} ELSE {}
      An == IF m.ascii /\ m.nocase /\ AsciiAt(pat, buf, o, TRUE, 0) /\ (m.fullword => FullwordAscii(buf, o, L))
             THEN {<<L, 0>>} ELSE {}
      W == IF m.wide /\ o < Len(buf) /\ ~m.nocase /\ ka \in keys /\ WideAt(pat, buf, o, FALSE, ka)
                /\ (m.fullword => FullwordWide(buf, o, 2 * L))
             THEN {<<2 * L, ka>>} ELSE {}
      Wn == IF m.wide /\ m.nocase /\ WideAt(pat, buf, o, TRUE, 0) /\ (m.fullword => FullwordWide(buf, o, 2 * L))
             THEN {<<2 * L, 0>>} ELSE {}
  IN A \cup An \cup W \cup Wn

\* ---- what a scan must report for the string: obs = sequence of <<offset, length, key>>
ObsOK(pat, m, buf, obs) ==
  /\ \A j \in 1..(Len(obs) - 1) : obs[j][1] < obs[j + 1][1]                       \* ascending, no duplicates
  /\ \A j \in 1..Len(obs) : obs[j][1] >= 0 /\ obs[j][1] < Len(buf)
                            /\ <<obs[j][2], obs[j][3]>> \in Allowed(pat, m, buf, obs[j][1])   \* nothing extra, true length/key
  /\ \A o \in 0..(Len(buf) - 1) : Allowed(pat, m, buf, o) # {} => \E j \in 1..Len(obs) : obs[j][1] = o   \* nothing missed
=============================================================================
